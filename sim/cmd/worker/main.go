// worker runs simulated executions of one property inside one OS process and
// reports JSON lines on stdout.
//
//	worker -prop C18 -tier quick -seed 1 -from 0 -to 375 -out DIR -sites sites.json
//	worker -replay FILE [-log] -sites sites.json
//	worker -minimise FILE -o OUT -sites sites.json [-budget 60s]
package main

import (
	"bufio"
	"encoding/json"
	"flag"
	"fmt"
	"os"
	"path/filepath"
	"runtime"
	"sort"
	"strings"
	"syscall"
	"time"

	"github.com/SAP/go-dblib/zz_verif/simrt"
	"github.com/SAP/go-dblib/zz_verif/worlds"
)

type replayFile struct {
	Property  string          `json:"property"`
	Tier      string          `json:"tier"`
	Seed      uint64          `json:"seed"`
	RunIndex  int             `json:"run_index"`
	SchedSeed uint64          `json:"sched_seed"`
	Plan      json.RawMessage `json:"plan"`
	Tape      []simrt.Choice  `json:"tape"`
	Expect    struct {
		Class string `json:"class"`
		Sig   string `json:"sig"`
	} `json:"expect"`
	Detail    string            `json:"detail"`
	LogTail   []string          `json:"log_tail"`
	Sites     map[string]string `json:"sites,omitempty"`
	Race      bool              `json:"race_build"`
	Minimised bool              `json:"minimised,omitempty"`
	// ProcFrom is the first run of the worker process that recorded the file. Prelude lists runs (generated from
	// tier, seed and index like in a batch) that are executed in the same process before the recorded one: the
	// way a violation that needs state the library keeps between runs (package-level variables) is replayed.
	ProcFrom int   `json:"proc_from"`
	Prelude  []int `json:"prelude,omitempty"`
	// InitSeed is the SIMRT_INIT_SEED of the process that recorded the file (it decides map iteration orders
	// during package initialisation): a replay runs in a process started with the same value.
	InitSeed uint64 `json:"init_seed,omitempty"`
}

var out = bufio.NewWriterSize(os.Stdout, 1<<16)

func emit(v interface{}) {
	b, err := json.Marshal(v)
	if err != nil {
		panic(err)
	}
	out.Write(b)
	out.WriteByte('\n')
}

func loadSites(path string) {
	if path == "" {
		return
	}
	b, err := os.ReadFile(path)
	if err != nil {
		fmt.Fprintf(os.Stderr, "worker: sites: %v\n", err)
		os.Exit(2)
	}
	var list []worlds.SiteInfo
	if err := json.Unmarshal(b, &list); err != nil {
		fmt.Fprintf(os.Stderr, "worker: sites: %v\n", err)
		os.Exit(2)
	}
	for _, s := range list {
		worlds.Sites[s.ID] = s
	}
}

func logTail(o *simrt.Outcome, n int) []string {
	ev := o.Log
	if len(ev) > n {
		ev = ev[len(ev)-n:]
	}
	var out []string
	for _, e := range ev {
		line := e.String()
		if si, ok := worlds.Sites[e.Site]; ok && e.Site != 0 {
			line += "   [" + si.Pos + " " + si.Func + "]"
		}
		out = append(out, line)
	}
	return out
}

func usedSites(o *simrt.Outcome) map[string]string {
	m := map[string]string{}
	for _, e := range o.Log {
		if si, ok := worlds.Sites[e.Site]; ok && e.Site != 0 {
			m[fmt.Sprint(e.Site)] = si.Pos + " " + si.Func + " " + si.Op
		}
	}
	return m
}

func main() {
	prop := flag.String("prop", "", "property id")
	tier := flag.String("tier", "quick", "quick|thorough")
	seed := flag.Uint64("seed", 1, "VERIF_SEED")
	from := flag.Int("from", 0, "first run index")
	to := flag.Int("to", 0, "one past the last run index")
	stride := flag.Int("stride", 1, "run index stride")
	outDir := flag.String("out", "", "directory for replay files of violations")
	sites := flag.String("sites", "", "site table")
	replay := flag.String("replay", "", "replay file")
	minimise := flag.String("minimise", "", "replay file to minimise")
	minOut := flag.String("o", "", "output of -minimise")
	budget := flag.Duration("budget", 60*time.Second, "minimisation budget")
	showLog := flag.Bool("log", false, "print the full event log on replay")
	nruns := flag.Bool("nruns", false, "print the number of runs of the tier and exit")
	maxFiles := flag.Int("maxfiles", 3, "replay files per signature")
	flushEvery := flag.Int("flush", 250, "emit a partial summary every N runs")
	hashes := flag.Bool("hashes", false, "emit the event-log hash and verdict of every run (determinism self-test)")
	flag.Parse()
	defer out.Flush()
	if os.Getenv("VERIF_GOMAXPROCS") == "" {
		runtime.GOMAXPROCS(2)
	}
	loadSites(*sites)
	worlds.CheckSeed = *seed

	if *replay != "" {
		rc := doReplay(*replay, *showLog)
		out.Flush()
		os.Exit(rc)
	}
	if *minimise != "" {
		rc := doMinimise(*minimise, *minOut, *budget)
		out.Flush()
		os.Exit(rc)
	}
	p := worlds.Lookup(*prop)
	if p == nil {
		fmt.Fprintf(os.Stderr, "worker: unknown property %q (have %v)\n", *prop, worlds.IDs())
		os.Exit(2)
	}
	if *nruns {
		fmt.Println(p.NRuns(*tier))
		return
	}

	type agg struct {
		T           string            `json:"t"`
		Evaluations int               `json:"evaluations"`
		Nontrivial  []string          `json:"nontrivial"`
		Probes      map[string]int    `json:"probes"`
		Faults      map[string]int    `json:"faults"`
		Steps       int               `json:"steps"`
		SimTimeNs   int64             `json:"simtime_ns"`
		Switches    int               `json:"switches"`
		SiteHits    map[string]int    `json:"site_hits"`
		SwitchPairs []string          `json:"switch_pairs"`
		Traces      []string          `json:"traces"`
		Budget      int               `json:"budget"`
		Violations  int               `json:"violations"`
		Samples     []interface{}     `json:"samples"`
		WallS       float64           `json:"wall_s"`
		Rule        string            `json:"rule"`
		Components  map[string]string `json:"components"`
		RaceBuild   bool              `json:"race_build"`
		Exhaustive  bool              `json:"exhaustive"`
		Required    []string          `json:"required_probes"`
		From        int               `json:"from"`
		To          int               `json:"to"`
	}
	var a agg
	var nontriv, pairs, traces map[string]bool
	perSig := map[string]int{}
	var t0 time.Time
	var winFrom int
	reset := func(from int) {
		a = agg{T: "summary", Probes: map[string]int{}, Faults: map[string]int{}, SiteHits: map[string]int{}, Rule: p.Rule(), Components: p.Components(), RaceBuild: simrt.RaceBuild}
		if ex, ok := p.(interface{ Exhaustive(string) bool }); ok {
			a.Exhaustive = ex.Exhaustive(*tier)
		}
		if rp, ok := p.(interface{ RequiredProbes() []string }); ok {
			a.Required = rp.RequiredProbes()
		}
		nontriv, pairs, traces = map[string]bool{}, map[string]bool{}, map[string]bool{}
		t0 = time.Now()
		winFrom = from
	}
	flush := func(to int) {
		a.From, a.To = winFrom, to
		for k := range nontriv {
			a.Nontrivial = append(a.Nontrivial, k)
		}
		sort.Strings(a.Nontrivial)
		for k := range pairs {
			a.SwitchPairs = append(a.SwitchPairs, k)
		}
		sort.Strings(a.SwitchPairs)
		for k := range traces {
			a.Traces = append(a.Traces, k)
		}
		sort.Strings(a.Traces)
		a.WallS = time.Since(t0).Seconds()
		emit(a)
		out.Flush()
	}
	reset(*from)
	for idx := *from; idx < *to; idx += *stride {
		if idx > winFrom && (idx-winFrom)%*flushEvery == 0 {
			flush(idx)
			reset(idx)
		}
		emit(map[string]interface{}{"t": "s", "i": idx})
		out.Flush()
		planSeed := worlds.Mix(*seed, idx, 1)
		schedSeed := worlds.Mix(*seed, idx, 2)
		plan := p.Gen(worlds.NewRand(planSeed), idx, *tier)
		v, o := p.Run(plan, schedSeed, nil, false, false)
		a.Evaluations++
		if v.Class == "race" {
			rep := raceReport()
			if lib := libraryRaces(rep); rep != "" && len(lib) == 0 {
				// only the world's own code is involved (two client tasks sharing a plain variable of the harness):
				// not a statement about the library
				v.Class, v.Sig, v.Detail = "", "", ""
				a.Probes["harness-race-ignored"]++
			} else if len(lib) > 0 {
				v.Sig = "race " + raceSig(lib[0])
				v.Detail += "\n" + clip(strings.Join(lib, "\n"), 6000)
			}
		}
		if *hashes {
			h := map[string]interface{}{"t": "h", "i": idx, "class": v.Class, "sig": v.Sig, "machinery": v.Machinery}
			if o != nil {
				h["hash"] = fmt.Sprintf("%016x", o.LogHash)
				h["steps"] = o.Steps
				h["tape"] = len(o.Tape)
			}
			emit(h)
		}
		if o != nil {
			a.Steps += o.Steps
			a.SimTimeNs += int64(o.SimTime)
			a.Switches += o.Switches
			for k, n := range o.FaultFired {
				a.Faults[k] += n
			}
			for k, n := range o.SiteHits {
				a.SiteHits[fmt.Sprint(k)] += n
			}
			for k := range o.SwitchAt {
				pairs[fmt.Sprintf("%d>%d", k[0], k[1])] = true
			}
			traces[fmt.Sprintf("%016x", o.LogHash)] = true
		}
		for k, n := range v.Probes {
			a.Probes[k] += n
		}
		if v.Nontrivial != "" {
			nontriv[v.Nontrivial] = true
		}
		if v.Budget {
			a.Budget++
		}
		if len(a.Samples) < 3 && v.Sample != nil && (v.Nontrivial != "" || idx == winFrom) {
			a.Samples = append(a.Samples, map[string]interface{}{"run_index": idx, "case": v.Sample, "outcome": orOK(v.Class)})
		}
		if v.Machinery != "" {
			emit(map[string]interface{}{"t": "machinery", "i": idx, "detail": v.Machinery})
			continue
		}
		if v.Class != "" {
			a.Violations++
			perSig[v.Sig]++
			file := ""
			if *outDir != "" && perSig[v.Sig] <= *maxFiles {
				rf := replayFile{Property: p.ID(), Tier: *tier, Seed: *seed, RunIndex: idx, SchedSeed: schedSeed, Race: simrt.RaceBuild, ProcFrom: *from, InitSeed: simrt.InitSeed}
				rf.Plan, _ = json.Marshal(plan)
				if o != nil {
					rf.Tape = o.Tape
					rf.LogTail = logTail(o, 200)
					rf.Sites = usedSites(o)
				}
				rf.Expect.Class, rf.Expect.Sig = v.Class, v.Sig
				rf.Detail = v.Detail
				file = filepath.Join(*outDir, fmt.Sprintf("%s-%d-%d.json", p.ID(), *seed, idx))
				b, _ := json.MarshalIndent(rf, "", " ")
				if err := os.WriteFile(file, b, 0o644); err != nil {
					fmt.Fprintf(os.Stderr, "worker: %v\n", err)
					os.Exit(2)
				}
			}
			emit(map[string]interface{}{"t": "violation", "i": idx, "class": v.Class, "sig": v.Sig, "detail": clip(v.Detail, 2000), "file": file})
		}
	}
	flush(*to)
}

var raceOff int64

// raceReport returns what the race detector appended to its log since the last call.
func raceReport() string {
	var path string
	for _, f := range strings.Fields(os.Getenv("GORACE")) {
		if strings.HasPrefix(f, "log_path=") {
			path = strings.TrimPrefix(f, "log_path=") + "." + fmt.Sprint(os.Getpid())
		}
	}
	if path == "" {
		return ""
	}
	b, err := os.ReadFile(path)
	if err != nil || int64(len(b)) <= raceOff {
		return ""
	}
	s := string(b[raceOff:])
	raceOff = int64(len(b))
	return s
}

// raceSig is the sorted pair of innermost library functions of the first report's two stacks.
// libraryRaces splits the detector's output into reports and keeps those in which a function of the library (not
// of the harness) appears in one of the two access stacks.
func libraryRaces(rep string) []string {
	var out []string
	for _, r := range strings.Split(rep, "==================") {
		if !strings.Contains(r, "DATA RACE") {
			continue
		}
		if raceSig(r) != "{}" {
			out = append(out, strings.TrimSpace(r))
		}
	}
	return out
}

func raceSig(rep string) string {
	var fns []string
	lines := strings.Split(rep, "\n")
	for i := 0; i < len(lines) && len(fns) < 2; i++ {
		l := lines[i]
		if strings.HasPrefix(l, "Read at") || strings.HasPrefix(l, "Write at") || strings.HasPrefix(l, "Previous read") || strings.HasPrefix(l, "Previous write") ||
			strings.HasPrefix(l, "Atomic") || strings.HasPrefix(l, "Previous atomic") {
			for j := i + 1; j < len(lines) && strings.TrimSpace(lines[j]) != ""; j++ {
				f := strings.TrimSpace(lines[j])
				if strings.HasPrefix(f, "github.com/SAP/go-dblib/") && !strings.Contains(f, "/zz_verif/") {
					if k := strings.LastIndex(f, "("); k > 0 {
						f = f[:k]
					}
					fns = append(fns, strings.TrimPrefix(f, "github.com/SAP/go-dblib/"))
					break
				}
			}
		}
	}
	sort.Strings(fns)
	return "{" + strings.Join(fns, ",") + "}"
}

func orOK(s string) string {
	if s == "" {
		return "held"
	}
	return s
}

func clip(s string, n int) string {
	if len(s) > n {
		return s[:n] + "..."
	}
	return s
}

func readReplay(path string) (*replayFile, worlds.Prop, interface{}, int) {
	b, err := os.ReadFile(path)
	if err != nil {
		fmt.Fprintf(os.Stderr, "worker: %v\n", err)
		return nil, nil, nil, 2
	}
	rf := &replayFile{}
	if err := json.Unmarshal(b, rf); err != nil {
		fmt.Fprintf(os.Stderr, "worker: %s: %v\n", path, err)
		return nil, nil, nil, 2
	}
	p := worlds.Lookup(rf.Property)
	if p == nil {
		fmt.Fprintf(os.Stderr, "worker: unknown property %q\n", rf.Property)
		return nil, nil, nil, 2
	}
	plan, err := p.Decode(rf.Plan)
	if err != nil {
		fmt.Fprintf(os.Stderr, "worker: plan: %v\n", err)
		return nil, nil, nil, 2
	}
	if rf.InitSeed != simrt.InitSeed {
		// package initialisation has already happened with another seed: start over as the recording process did
		exe, err := os.Executable()
		if err == nil {
			env := []string{}
			for _, e := range os.Environ() {
				if !strings.HasPrefix(e, "SIMRT_INIT_SEED=") {
					env = append(env, e)
				}
			}
			env = append(env, fmt.Sprintf("SIMRT_INIT_SEED=%d", rf.InitSeed))
			err = syscall.Exec(exe, os.Args, env)
		}
		fmt.Fprintf(os.Stderr, "worker: cannot restart with the recorded init seed: %v\n", err)
		return nil, nil, nil, 2
	}
	return rf, p, plan, 0
}

// doReplay: exit 1 + VIOLATION line iff the same class and signature reproduce, 0 if the run is clean, 2 on divergence.
func doReplay(path string, showLog bool) int {
	rf, p, plan, rc := readReplay(path)
	if rc != 0 {
		return rc
	}
	if rf.Race && !simrt.RaceBuild {
		fmt.Fprintf(os.Stderr, "worker: replay file was recorded with a race build\n")
	}
	worlds.CheckSeed = rf.Seed
	raceReport() // start from here
	for _, idx := range rf.Prelude {
		pl := p.Gen(worlds.NewRand(worlds.Mix(rf.Seed, idx, 1)), idx, rf.Tier)
		p.Run(pl, worlds.Mix(rf.Seed, idx, 2), nil, false, false)
	}
	if len(rf.Prelude) > 0 && simrt.RaceBuild {
		raceReport() // reports of the prelude runs are not this run's
	}
	v, o := p.Run(plan, rf.SchedSeed, rf.Tape, false, true)
	if showLog && o != nil {
		for _, l := range logTail(o, 1<<30) {
			fmt.Fprintln(out, l)
		}
	}
	if v.Class == "race" {
		if rep := raceReport(); rep != "" && len(libraryRaces(rep)) == 0 {
			v.Class, v.Sig, v.Detail = "", "", ""
		}
	}
	res := map[string]interface{}{"t": "replay", "class": v.Class, "sig": v.Sig, "detail": v.Detail, "machinery": v.Machinery,
		"expect_class": rf.Expect.Class, "expect_sig": rf.Expect.Sig}
	if o != nil {
		res["log_hash"] = fmt.Sprintf("%016x", o.LogHash)
		res["steps"] = o.Steps
	}
	emit(res)
	if v.Machinery != "" {
		return 2
	}
	if v.Class == rf.Expect.Class && (v.Sig == rf.Expect.Sig || v.Class == "race") && v.Class != "" {
		fmt.Fprintf(out, "VIOLATION property=%s replay=%s\n", rf.Property, path)
		return 1
	}
	if v.Class != "" {
		fmt.Fprintf(out, "DIFFERENT-VIOLATION property=%s class=%s sig=%s\n", rf.Property, v.Class, v.Sig)
		return 3
	}
	return 0
}

// doMinimise shrinks plan and tape while the same class+signature reproduces.
func doMinimise(path, outPath string, budget time.Duration) int {
	rf, p, plan, rc := readReplay(path)
	if rc != 0 {
		return rc
	}
	deadline := time.Now().Add(budget)
	same := func(v *worlds.Verdict) bool {
		// race signatures are derived from the detector's report, which only the batch run captures
		return v.Machinery == "" && v.Class == rf.Expect.Class && (v.Sig == rf.Expect.Sig || v.Class == "race")
	}
	// try reproduces a candidate plan: first with the old tape (lenient), then with a few fresh schedule seeds.
	try := func(pl interface{}, tape []simrt.Choice) (bool, []simrt.Choice, uint64) {
		if v, o := p.Run(pl, rf.SchedSeed, tape, true, false); same(v) && o != nil {
			return true, o.Tape, rf.SchedSeed
		}
		for k := uint64(0); k < 6; k++ {
			ss := worlds.Mix(rf.SchedSeed, int(k), 77)
			if v, o := p.Run(pl, ss, nil, false, false); same(v) && o != nil {
				return true, o.Tape, ss
			}
		}
		return false, nil, 0
	}
	curPlan, curTape, curSeed := plan, rf.Tape, rf.SchedSeed
	ok, t, ss := try(curPlan, curTape)
	if !ok {
		fmt.Fprintf(os.Stderr, "worker: minimise: the file does not reproduce\n")
		return 2
	}
	curTape, curSeed = t, ss
	rounds := 0
	for progress := true; progress && time.Now().Before(deadline); {
		progress = false
		rounds++
		for _, cand := range p.Shrink(curPlan) {
			if time.Now().After(deadline) {
				break
			}
			if ok, t, ss := try(cand, curTape); ok {
				curPlan, curTape, curSeed = cand, t, ss
				progress = true
				break
			}
		}
	}
	// tape reduction: zero out choices from the back in chunks, then truncate
	tryTape := func(t []simrt.Choice) bool {
		v, o := p.Run(curPlan, curSeed, t, true, false)
		if same(v) && o != nil {
			curTape = o.Tape
			return true
		}
		return false
	}
	for chunk := len(curTape) / 2; chunk >= 1 && time.Now().Before(deadline); chunk /= 2 {
		for start := 0; start+chunk <= len(curTape) && time.Now().Before(deadline); start += chunk {
			t := append([]simrt.Choice{}, curTape...)
			changed := false
			for i := start; i < start+chunk && i < len(t); i++ {
				if t[i].C != 0 {
					t[i].C = 0
					changed = true
				}
			}
			if changed {
				tryTape(t)
			}
		}
	}
	// final strict run with full log
	v, o := p.Run(curPlan, curSeed, curTape, false, true)
	if !same(v) || o == nil {
		fmt.Fprintf(os.Stderr, "worker: minimise: final strict replay does not reproduce (%s/%s %s)\n", v.Class, v.Sig, v.Machinery)
		return 2
	}
	nf := *rf
	nf.Plan, _ = json.Marshal(curPlan)
	nf.Tape = o.Tape
	nf.SchedSeed = curSeed
	nf.Detail = v.Detail
	nf.LogTail = logTail(o, 200)
	nf.Sites = usedSites(o)
	nf.Minimised = true
	b, _ := json.MarshalIndent(nf, "", " ")
	if err := os.WriteFile(outPath, b, 0o644); err != nil {
		fmt.Fprintf(os.Stderr, "worker: %v\n", err)
		return 2
	}
	emit(map[string]interface{}{"t": "minimised", "rounds": rounds, "plan_bytes_before": len(rf.Plan), "plan_bytes_after": len(nf.Plan),
		"tape_before": len(rf.Tape), "tape_after": len(nf.Tape)})
	return 0
}

var _ = strings.TrimSpace
