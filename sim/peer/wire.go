package peer

import (
	"encoding/binary"
	"fmt"
	"sort"
)

// Packet header layer of TDS 5.0 (independent of the library under test).

const HeaderSize = 8

// Buffer (packet) types, TDS 5.0 functional specification naming.
const (
	BufLang     = 1
	BufLogin    = 2
	BufRPC      = 3
	BufResponse = 4
	BufUnfmt    = 5
	BufAttn     = 6
	BufBulk     = 7
	BufSetup    = 8
	BufClose    = 9
	BufError    = 10
	BufProtack  = 11
	BufEcho     = 12
	BufLogout   = 13
	BufEndparam = 14
	BufNormal   = 15
	BufUrgent   = 16
)

// Buffer status bits.
const (
	BufstatEOM     = 0x01
	BufstatAttnAck = 0x02
	BufstatAttn    = 0x04
	BufstatEvent   = 0x08
)

// Header is the 8-byte packet header.
type Header struct {
	Type     uint8
	Status   uint8
	Length   uint16 // big endian on the wire, includes the header
	Channel  uint16 // big endian
	PacketNr uint8
	Window   uint8
}

func (h Header) Bytes() []byte {
	b := make([]byte, HeaderSize)
	b[0] = h.Type
	b[1] = h.Status
	binary.BigEndian.PutUint16(b[2:], h.Length)
	binary.BigEndian.PutUint16(b[4:], h.Channel)
	b[6] = h.PacketNr
	b[7] = h.Window
	return b
}

func ParseHeader(b []byte) Header {
	return Header{Type: b[0], Status: b[1], Length: binary.BigEndian.Uint16(b[2:]), Channel: binary.BigEndian.Uint16(b[4:]), PacketNr: b[6], Window: b[7]}
}

func (h Header) String() string {
	return fmt.Sprintf("type=%d status=%#x len=%d chan=%d nr=%d win=%d", h.Type, h.Status, h.Length, h.Channel, h.PacketNr, h.Window)
}

// MakePacket builds one packet.
func MakePacket(typ, status uint8, channel uint16, nr uint8, body []byte) []byte {
	h := Header{Type: typ, Status: status, Length: uint16(HeaderSize + len(body)), Channel: channel, PacketNr: nr}
	return append(h.Bytes(), body...)
}

// Packetise cuts body at the given offsets (0 < cut < len(body), any order,
// duplicates ignored) into packets of one message; the last packet carries
// EOM if eom. An empty body yields one header-only packet.
func Packetise(body []byte, cuts []int, typ uint8, channel uint16, eom bool) [][]byte {
	cs := normCuts(cuts, len(body))
	var out [][]byte
	prev := 0
	nr := uint8(0)
	for i := 0; i <= len(cs); i++ {
		end := len(body)
		if i < len(cs) {
			end = cs[i]
		}
		st := uint8(0)
		if i == len(cs) && eom {
			st = BufstatEOM
		}
		out = append(out, MakePacket(typ, st, channel, nr, body[prev:end]))
		nr++
		prev = end
	}
	return out
}

func normCuts(cuts []int, n int) []int {
	m := map[int]bool{}
	var cs []int
	for _, c := range cuts {
		if c > 0 && c < n && !m[c] {
			m[c] = true
			cs = append(cs, c)
		}
	}
	sort.Ints(cs)
	return cs
}

// CutsBySize returns the cut offsets that split n bytes into bodies of at most size bytes.
func CutsBySize(n, size int) []int {
	var cs []int
	for c := size; c < n; c += size {
		cs = append(cs, c)
	}
	return cs
}

// RecvPacket is one packet the client wrote, as reassembled by the peer.
type RecvPacket struct {
	H      Header
	Body   []byte
	Offset int // offset of the header in the client's byte stream
}

// Assembler cuts the client's byte stream into packets.
type Assembler struct {
	buf     []byte
	off     int
	Packets []RecvPacket
	Err     string // set when the stream cannot be a TDS packet stream (length < 8)
}

// Feed appends bytes and returns the packets completed by them.
func (a *Assembler) Feed(b []byte) []RecvPacket {
	a.buf = append(a.buf, b...)
	var out []RecvPacket
	for a.Err == "" && len(a.buf) >= HeaderSize {
		h := ParseHeader(a.buf)
		if h.Length < HeaderSize {
			a.Err = fmt.Sprintf("packet at stream offset %d declares length %d < 8 (%s)", a.off, h.Length, h)
			break
		}
		if len(a.buf) < int(h.Length) {
			break
		}
		p := RecvPacket{H: h, Body: append([]byte(nil), a.buf[HeaderSize:h.Length]...), Offset: a.off}
		a.buf = a.buf[h.Length:]
		a.off += int(h.Length)
		a.Packets = append(a.Packets, p)
		out = append(out, p)
	}
	return out
}

// Residue returns the bytes received that do not (yet) form a complete packet.
func (a *Assembler) Residue() []byte { return a.buf }
