package peer

import (
	"fmt"
	"math"
)

// This file holds the builders and the zoo entries of the cursor command
// tokens (TDS_CURDECLARE, TDS_CURDECLARE3, TDS_CUROPEN, TDS_CURFETCH,
// TDS_CURUPDATE, TDS_CURDELETE, TDS_CURCLOSE) and of TDS_OPTIONCMD.
//
// A server receives the cursor command tokens rather than sending them;
// go-dblib nevertheless looks most of them up when they arrive
// (tds.LookupPackage), so a peer can put them into a response.
//
// Not covered, because go-dblib has no decoder that could be checked:
// TDS_KEY (tds.KeyPackage needs the data type from outside, LookupPackage
// does not know the token) and TDS_CONTROL (tds.ControlPackage.ReadFrom
// reads nothing).

// Token values.
const (
	TDS_CURCLOSE   = 0x80
	TDS_CURDELETE  = 0x81
	TDS_CURFETCH   = 0x82
	TDS_CUROPEN    = 0x84
	TDS_CURUPDATE  = 0x85
	TDS_CURDECLARE = 0x86
	TDS_OPTIONCMD  = 0xA6
)

// TDS_CURDECLARE options and status bits. The options above 0x10 only
// fit into the four byte options field of TDS_CURDECLARE3.
const (
	TDS_CUR_DOPT_UNUSED          = 0x000
	TDS_CUR_DOPT_RDONLY          = 0x001
	TDS_CUR_DOPT_UPDATABLE       = 0x002
	TDS_CUR_DOPT_SENSITIVE       = 0x004
	TDS_CUR_DOPT_DYNAMIC         = 0x008
	TDS_CUR_DOPT_IMPLICIT        = 0x010
	TDS_CUR_DOPT_INSENSITIVE     = 0x020
	TDS_CUR_DOPT_SEMISENSITIVE   = 0x040
	TDS_CUR_DOPT_KEYSETDRIVEN    = 0x080
	TDS_CUR_DOPT_SCROLLABLE      = 0x100
	TDS_CUR_DOPT_RELLOCKSONCLOSE = 0x200

	TDS_CUR_DSTAT_UNUSED  = 0x00
	TDS_CUR_DSTAT_HASARGS = 0x01
)

// TDS_CUROPEN and TDS_CURUPDATE status bits, TDS_CURDELETE status.
const (
	TDS_CUR_OSTAT_UNUSED  = 0x00
	TDS_CUR_OSTAT_HASARGS = 0x01

	TDS_CUR_USTAT_UNUSED      = 0x00
	TDS_CUR_USTAT_HASARGS     = 0x01
	TDS_CUR_USTAT_CONSEC_UPDS = 0x02

	TDS_CUR_DELSTAT_UNUSED = 0x00
)

// TDS_CURFETCH fetch types. TDS_CUR_ABS and TDS_CUR_REL carry a row
// number.
const (
	TDS_CUR_NEXT  = 1
	TDS_CUR_PREV  = 2
	TDS_CUR_FIRST = 3
	TDS_CUR_LAST  = 4
	TDS_CUR_ABS   = 5
	TDS_CUR_REL   = 6
)

// TDS_CURCLOSE options.
const (
	TDS_CUR_COPT_UNUSED  = 0x00
	TDS_CUR_COPT_DEALLOC = 0x01
)

// TDS_OPTIONCMD commands and a few options.
const (
	TDS_OPT_SET     = 1
	TDS_OPT_DEFAULT = 2
	TDS_OPT_LIST    = 3
	TDS_OPT_INFO    = 4

	TDS_OPT_DATEFIRST      = 1
	TDS_OPT_TEXTSIZE       = 2
	TDS_OPT_ROWCOUNT       = 5
	TDS_OPT_NATLANG        = 6
	TDS_OPT_ISOLATION      = 8
	TDS_OPT_NOEXEC         = 14
	TDS_OPT_CHAINXACTS     = 23
	TDS_OPT_CLIENTAPPLNAME = 40
)

// cursorRef writes the cursor reference shared by all cursor command
// tokens but TDS_CURDECLARE: CursorId(4) and, only when the id is 0,
// NameLen(1) Name.
func (w *buf) cursorRef(cursorID int32, name string) {
	w.u32(uint32(cursorID))
	if cursorID == 0 {
		w.str8(name)
	}
}

// len16 prepends the token and a two byte length to body.
func len16(token uint8, body *buf) []byte {
	w := &buf{}
	w.u8(token)
	w.u16(uint16(len(body.b)))
	w.raw(body.b)
	return w.b
}

// CurDeclare encodes TDS_CURDECLARE (wide=false) or TDS_CURDECLARE3
// (wide=true):
//
//	TDS_CURDECLARE:  Length(2) NameLen(1) Name Options(1) Status(1)
//	                 StmtLen(2) Stmt NumColumns(1) {ColLen(1) Col}
//	TDS_CURDECLARE3: Length(4) NameLen(1) Name Options(4) Status(1)
//	                 StmtLen(4) Stmt NumColumns(2) {ColLen(1) Col}
//
// The columns are the "for update of" column list; without one the count
// is 0. Length counts everything after the length field.
//
// The width of NumColumns in TDS_CURDECLARE3 (two bytes) is taken from
// what tds.CurDeclarePackage.ReadFrom consumes; go-dblib sends this
// layout to real servers. In TDS_CURDECLARE the count is one byte, which
// go-dblib's decoder does not honour (it reads two bytes for both
// tokens), see addCursor.
func CurDeclare(wide bool, name string, options uint32, status uint8, stmt string, updateCols ...string) []byte {
	body := &buf{}
	body.str8(name)
	if wide {
		body.u32(options)
	} else {
		body.u8(uint8(options))
	}
	body.u8(status)
	if wide {
		body.u32(uint32(len(stmt)))
	} else {
		body.u16(uint16(len(stmt)))
	}
	body.str(stmt)
	if wide {
		body.u16(uint16(len(updateCols)))
	} else {
		body.u8(uint8(len(updateCols)))
	}
	for _, c := range updateCols {
		body.str8(c)
	}

	if !wide {
		return len16(TDS_CURDECLARE, body)
	}
	w := &buf{}
	w.u8(TDS_CURDECLARE3)
	w.u32(uint32(len(body.b)))
	w.raw(body.b)
	return w.b
}

// CurOpen encodes TDS_CUROPEN:
// Length(2) CursorId(4) [NameLen(1) Name] Status(1).
// The name is only present when cursorID is 0.
func CurOpen(cursorID int32, name string, status uint8) []byte {
	body := &buf{}
	body.cursorRef(cursorID, name)
	body.u8(status)
	return len16(TDS_CUROPEN, body)
}

// CurFetch encodes TDS_CURFETCH:
// Length(2) CursorId(4) [NameLen(1) Name] FetchType(1) [RowNum(4)].
// The name is only present when cursorID is 0, the row number only for
// the fetch types TDS_CUR_ABS and TDS_CUR_REL.
func CurFetch(cursorID int32, name string, fetchType uint8, rowNum int32) []byte {
	body := &buf{}
	body.cursorRef(cursorID, name)
	body.u8(fetchType)
	if fetchType == TDS_CUR_ABS || fetchType == TDS_CUR_REL {
		body.u32(uint32(rowNum))
	}
	return len16(TDS_CURFETCH, body)
}

// CurUpdate encodes TDS_CURUPDATE:
// Length(2) CursorId(4) [NameLen(1) Name] Status(1) TableLen(1) Table
// StmtLen(2) Stmt.
// The name is only present when cursorID is 0.
func CurUpdate(cursorID int32, name string, status uint8, table, stmt string) []byte {
	body := &buf{}
	body.cursorRef(cursorID, name)
	body.u8(status)
	body.str8(table)
	body.str16(stmt)
	return len16(TDS_CURUPDATE, body)
}

// CurDelete encodes TDS_CURDELETE:
// Length(2) CursorId(4) [NameLen(1) Name] Status(1) TableLen(1) Table.
// The name is only present when cursorID is 0.
func CurDelete(cursorID int32, name string, status uint8, table string) []byte {
	body := &buf{}
	body.cursorRef(cursorID, name)
	body.u8(status)
	body.str8(table)
	return len16(TDS_CURDELETE, body)
}

// CurClose encodes TDS_CURCLOSE:
// Length(2) CursorId(4) [NameLen(1) Name] Options(1).
// The name is only present when cursorID is 0.
func CurClose(cursorID int32, name string, options uint8) []byte {
	body := &buf{}
	body.cursorRef(cursorID, name)
	body.u8(options)
	return len16(TDS_CURCLOSE, body)
}

// OptionCmd encodes TDS_OPTIONCMD:
// Length(2) Command(1) Option(1) ArgLen(1) Arg.
func OptionCmd(command, option uint8, arg []byte) []byte {
	body := &buf{}
	body.u8(command)
	body.u8(option)
	body.u8(uint8(len(arg)))
	body.raw(arg)
	return len16(TDS_OPTIONCMD, body)
}

// colNames returns n distinct two letter column names.
func colNames(n int) []string {
	cols := make([]string, n)
	for i := range cols {
		cols[i] = string([]byte{byte('a' + i/26), byte('a' + i%26)})
	}
	return cols
}

// addCursor adds the cursor command tokens and TDS_OPTIONCMD.
//
// Disputed are
//
//   - all TDS_CURDECLARE entries: the token has a one byte column count,
//     go-dblib's decoder reads two bytes (the width of TDS_CURDECLARE3) and
//     runs out of data or takes the first column's length for the high
//     byte of the count;
//   - all TDS_CURCLOSE and TDS_OPTIONCMD entries: go-dblib has decoders
//     for them (tds.CurClosePackage, tds.OptionCmdPackage) that read
//     exactly these bytes, but tds.LookupPackage does not know the tokens
//     and swallows them and everything behind them as a token-less blob.
func (z *zooBuilder) addCursor() {
	const (
		selTitles = "select title_id, title, price from titles"
		updTitles = "select title_id, title, price from titles for update of price, title"
	)

	type decl struct {
		tag     string
		name    string
		options uint32
		status  uint8
		stmt    string
		cols    []string
	}
	addDecl := func(wide bool, ds []decl) {
		prefix, kind := "curdeclare", "CURDECLARE"
		if wide {
			prefix, kind = "curdeclare3", "CURDECLARE3"
		}
		for _, x := range ds {
			cols := x.cols
			if cols == nil {
				cols = []string{}
			}
			colSpec := fmt.Sprintf("%q", cols)
			if len(cols) > 4 {
				colSpec = fmt.Sprintf("%q...(%d columns)", cols[:2], len(cols))
			} else if len(colSpec) > 40 {
				colSpec = fmt.Sprintf("(%d columns, %d bytes)", len(cols), len(colSpec))
			}
			// Only the wide token is decoded as intended.
			z.put(!wide, Entry{
				Name:    prefix + "/" + x.tag,
				Kind:    kind,
				Bytes:   CurDeclare(wide, x.name, x.options, x.status, x.stmt, cols...),
				Visible: true,
				Spec: fmt.Sprintf("%s name=%s options=0x%03x status=0x%02x stmt=%s cols=%s",
					kind, abbrev(x.name), x.options, x.status, abbrev(x.stmt), colSpec),
				Values: []interface{}{wide, x.name, x.options, x.status, x.stmt, cols},
			})
		}
	}
	addDecl(false, []decl{
		{"minimal", "", TDS_CUR_DOPT_UNUSED, TDS_CUR_DSTAT_UNUSED, "", nil},
		{"rdonly", "titles_crsr", TDS_CUR_DOPT_RDONLY, TDS_CUR_DSTAT_UNUSED, selTitles, nil},
		{"hasargs", "c1", TDS_CUR_DOPT_RDONLY, TDS_CUR_DSTAT_HASARGS, "select title from titles where price > @p", nil},
		{"updatable", "titles_crsr", TDS_CUR_DOPT_UPDATABLE, TDS_CUR_DSTAT_UNUSED, selTitles + " for update", nil},
		{"updatable/cols", "titles_crsr", TDS_CUR_DOPT_UPDATABLE, TDS_CUR_DSTAT_UNUSED, updTitles, []string{"price", "title"}},
		{"updatable/onecol", "c", TDS_CUR_DOPT_UPDATABLE | TDS_CUR_DOPT_DYNAMIC, TDS_CUR_DSTAT_HASARGS, "select price from titles where pub_id = @p for update of price", []string{"price"}},
		{"alloptions", "c", TDS_CUR_DOPT_RDONLY | TDS_CUR_DOPT_UPDATABLE | TDS_CUR_DOPT_SENSITIVE | TDS_CUR_DOPT_DYNAMIC | TDS_CUR_DOPT_IMPLICIT, TDS_CUR_DSTAT_UNUSED, selTitles, nil},
		{"longname", pattern(255), TDS_CUR_DOPT_RDONLY, TDS_CUR_DSTAT_UNUSED, selTitles, nil},
		{"longcols", "c", TDS_CUR_DOPT_UPDATABLE, TDS_CUR_DSTAT_UNUSED, selTitles, []string{pattern(255), "", pattern(200)}},
		{"longstmt", "c", TDS_CUR_DOPT_RDONLY, TDS_CUR_DSTAT_UNUSED, "select '" + pattern(700) + "'", nil},
		{"manycols", "c", TDS_CUR_DOPT_UPDATABLE, TDS_CUR_DSTAT_UNUSED, selTitles, colNames(255)},
	})
	addDecl(true, []decl{
		{"minimal", "", TDS_CUR_DOPT_UNUSED, TDS_CUR_DSTAT_UNUSED, "", nil},
		{"rdonly", "titles_crsr", TDS_CUR_DOPT_RDONLY, TDS_CUR_DSTAT_UNUSED, selTitles, nil},
		{"hasargs", "c1", TDS_CUR_DOPT_RDONLY, TDS_CUR_DSTAT_HASARGS, "select title from titles where price > @p", nil},
		{"updatable", "titles_crsr", TDS_CUR_DOPT_UPDATABLE, TDS_CUR_DSTAT_UNUSED, selTitles + " for update", nil},
		{"updatable/cols", "titles_crsr", TDS_CUR_DOPT_UPDATABLE, TDS_CUR_DSTAT_UNUSED, updTitles, []string{"price", "title"}},
		{"updatable/onecol", "c", TDS_CUR_DOPT_UPDATABLE | TDS_CUR_DOPT_DYNAMIC, TDS_CUR_DSTAT_HASARGS, "select price from titles where pub_id = @p for update of price", []string{"price"}},
		{"scrollable", "scroll_crsr", TDS_CUR_DOPT_RDONLY | TDS_CUR_DOPT_INSENSITIVE | TDS_CUR_DOPT_SCROLLABLE, TDS_CUR_DSTAT_UNUSED, selTitles, nil},
		{"semisensitive", "scroll_crsr", TDS_CUR_DOPT_RDONLY | TDS_CUR_DOPT_SEMISENSITIVE | TDS_CUR_DOPT_SCROLLABLE | TDS_CUR_DOPT_RELLOCKSONCLOSE, TDS_CUR_DSTAT_HASARGS, "select title from titles where price > @p", nil},
		{"alloptions", "c", 0x3ff, TDS_CUR_DSTAT_UNUSED, selTitles, nil},
		{"highoptions", "c", 0x80000000 | TDS_CUR_DOPT_KEYSETDRIVEN, TDS_CUR_DSTAT_UNUSED, selTitles, nil},
		{"longname", pattern(255), TDS_CUR_DOPT_RDONLY, TDS_CUR_DSTAT_UNUSED, selTitles, nil},
		{"longcols", "c", TDS_CUR_DOPT_UPDATABLE, TDS_CUR_DSTAT_UNUSED, selTitles, []string{pattern(255), "", pattern(200)}},
		{"longstmt", "c", TDS_CUR_DOPT_RDONLY, TDS_CUR_DSTAT_UNUSED, "select '" + pattern(1100) + "'", nil},
		// More columns than a one byte count can hold.
		{"manycols", "c", TDS_CUR_DOPT_UPDATABLE, TDS_CUR_DSTAT_UNUSED, selTitles, colNames(300)},
	})

	type open struct {
		tag    string
		id     int32
		name   string
		status uint8
	}
	for _, x := range []open{
		{"byid", 1, "", TDS_CUR_OSTAT_UNUSED},
		{"byid/hasargs", 65537, "", TDS_CUR_OSTAT_HASARGS},
		{"byid/max", math.MaxInt32, "", TDS_CUR_OSTAT_UNUSED},
		{"byid/negative", -2, "", TDS_CUR_OSTAT_UNUSED},
		{"byname", 0, "titles_crsr", TDS_CUR_OSTAT_UNUSED},
		{"byname/hasargs", 0, "titles_crsr", TDS_CUR_OSTAT_HASARGS},
		{"byname/empty", 0, "", TDS_CUR_OSTAT_UNUSED},
		{"byname/long", 0, pattern(255), TDS_CUR_OSTAT_HASARGS},
	} {
		z.pkg("curopen/"+x.tag, "CUROPEN", CurOpen(x.id, x.name, x.status),
			fmt.Sprintf("CUROPEN id=%d name=%s status=0x%02x", x.id, abbrev(x.name), x.status),
			x.id, x.name, x.status)
	}

	type fetch struct {
		tag    string
		id     int32
		name   string
		typ    uint8
		rowNum int32
	}
	for _, x := range []fetch{
		{"next", 1, "", TDS_CUR_NEXT, 0},
		{"prev", 1, "", TDS_CUR_PREV, 0},
		{"first", 1, "", TDS_CUR_FIRST, 0},
		{"last", 1, "", TDS_CUR_LAST, 0},
		{"abs", 1, "", TDS_CUR_ABS, 10},
		{"rel", 1, "", TDS_CUR_REL, -3},
		{"abs/zero", 65537, "", TDS_CUR_ABS, 0},
		{"abs/max", 65537, "", TDS_CUR_ABS, math.MaxInt32},
		{"rel/min", 65537, "", TDS_CUR_REL, math.MinInt32},
		{"byname/next", 0, "titles_crsr", TDS_CUR_NEXT, 0},
		{"byname/last", 0, "titles_crsr", TDS_CUR_LAST, 0},
		{"byname/abs", 0, "titles_crsr", TDS_CUR_ABS, 7},
		{"byname/rel", 0, "titles_crsr", TDS_CUR_REL, 250},
		{"byname/empty", 0, "", TDS_CUR_NEXT, 0},
		{"byname/empty/rel", 0, "", TDS_CUR_REL, -1},
		{"byname/long", 0, pattern(255), TDS_CUR_PREV, 0},
		{"byname/long/abs", 0, pattern(255), TDS_CUR_ABS, 65536},
	} {
		z.pkg("curfetch/"+x.tag, "CURFETCH", CurFetch(x.id, x.name, x.typ, x.rowNum),
			fmt.Sprintf("CURFETCH id=%d name=%s type=%d rownum=%d", x.id, abbrev(x.name), x.typ, x.rowNum),
			x.id, x.name, x.typ, x.rowNum)
	}

	type update struct {
		tag    string
		id     int32
		name   string
		status uint8
		table  string
		stmt   string
	}
	for _, x := range []update{
		{"minimal", 1, "", TDS_CUR_USTAT_UNUSED, "", ""},
		{"byid", 1, "", TDS_CUR_USTAT_UNUSED, "titles", "update titles set price = price * 2"},
		{"byid/hasargs", 65537, "", TDS_CUR_USTAT_HASARGS, "titles", "update titles set price = @p"},
		{"byid/consec", 1, "", TDS_CUR_USTAT_CONSEC_UPDS, "titles", "update titles set price = price * 2"},
		{"byid/nostmt", 1, "", TDS_CUR_USTAT_HASARGS, "pubs2.dbo.titles", ""},
		{"byname", 0, "titles_crsr", TDS_CUR_USTAT_UNUSED, "titles", "update titles set price = price * 2"},
		{"byname/hasargs+consec", 0, "titles_crsr", TDS_CUR_USTAT_HASARGS | TDS_CUR_USTAT_CONSEC_UPDS, "titles", "update titles set price = @p"},
		{"byname/empty", 0, "", TDS_CUR_USTAT_UNUSED, "", ""},
		{"byname/long", 0, pattern(255), TDS_CUR_USTAT_UNUSED, pattern(255), "update t set a = 1"},
		{"longstmt", 1, "", TDS_CUR_USTAT_UNUSED, "titles", "update titles set notes = '" + pattern(900) + "'"},
	} {
		z.pkg("curupdate/"+x.tag, "CURUPDATE", CurUpdate(x.id, x.name, x.status, x.table, x.stmt),
			fmt.Sprintf("CURUPDATE id=%d name=%s status=0x%02x table=%s stmt=%s", x.id, abbrev(x.name), x.status, abbrev(x.table), abbrev(x.stmt)),
			x.id, x.name, x.status, x.table, x.stmt)
	}

	type del struct {
		tag    string
		id     int32
		name   string
		status uint8
		table  string
	}
	for _, x := range []del{
		{"minimal", 1, "", TDS_CUR_DELSTAT_UNUSED, ""},
		{"byid", 1, "", TDS_CUR_DELSTAT_UNUSED, "titles"},
		{"byid/qualified", 65537, "", TDS_CUR_DELSTAT_UNUSED, "pubs2.dbo.titles"},
		{"byid/longtable", math.MaxInt32, "", TDS_CUR_DELSTAT_UNUSED, pattern(255)},
		{"byname", 0, "titles_crsr", TDS_CUR_DELSTAT_UNUSED, "titles"},
		{"byname/empty", 0, "", TDS_CUR_DELSTAT_UNUSED, ""},
		{"byname/notable", 0, "titles_crsr", TDS_CUR_DELSTAT_UNUSED, ""},
		{"byname/long", 0, pattern(255), TDS_CUR_DELSTAT_UNUSED, pattern(255)},
	} {
		z.pkg("curdelete/"+x.tag, "CURDELETE", CurDelete(x.id, x.name, x.status, x.table),
			fmt.Sprintf("CURDELETE id=%d name=%s status=0x%02x table=%s", x.id, abbrev(x.name), x.status, abbrev(x.table)),
			x.id, x.name, x.status, x.table)
	}

	type cl struct {
		tag     string
		id      int32
		name    string
		options uint8
	}
	for _, x := range []cl{
		{"byid", 1, "", TDS_CUR_COPT_UNUSED},
		{"byid/dealloc", 65537, "", TDS_CUR_COPT_DEALLOC},
		{"byname", 0, "titles_crsr", TDS_CUR_COPT_UNUSED},
		{"byname/dealloc", 0, "titles_crsr", TDS_CUR_COPT_DEALLOC},
		{"byname/empty", 0, "", TDS_CUR_COPT_UNUSED},
		{"byname/long", 0, pattern(255), TDS_CUR_COPT_DEALLOC},
	} {
		z.put(true, Entry{
			Name:    "curclose/" + x.tag,
			Kind:    "CURCLOSE",
			Bytes:   CurClose(x.id, x.name, x.options),
			Visible: true,
			Spec:    fmt.Sprintf("CURCLOSE id=%d name=%s options=0x%02x", x.id, abbrev(x.name), x.options),
			Values:  []interface{}{x.id, x.name, x.options},
		})
	}

	type opt struct {
		tag    string
		cmd    uint8
		option uint8
		arg    []byte
	}
	for _, x := range []opt{
		{"set/rowcount", TDS_OPT_SET, TDS_OPT_ROWCOUNT, RawInt4(100)},
		{"set/textsize", TDS_OPT_SET, TDS_OPT_TEXTSIZE, RawInt4(math.MaxInt32)},
		{"set/isolation", TDS_OPT_SET, TDS_OPT_ISOLATION, []byte{3}},
		{"set/noexec", TDS_OPT_SET, TDS_OPT_NOEXEC, []byte{1}},
		{"set/natlang", TDS_OPT_SET, TDS_OPT_NATLANG, []byte("us_english")},
		{"set/clientapplname/long", TDS_OPT_SET, TDS_OPT_CLIENTAPPLNAME, []byte(pattern(255))},
		{"default/datefirst", TDS_OPT_DEFAULT, TDS_OPT_DATEFIRST, []byte{}},
		{"list/chainxacts", TDS_OPT_LIST, TDS_OPT_CHAINXACTS, []byte{}},
		{"info/chainxacts", TDS_OPT_INFO, TDS_OPT_CHAINXACTS, []byte{0}},
		{"info/rowcount", TDS_OPT_INFO, TDS_OPT_ROWCOUNT, RawInt4(0)},
	} {
		z.put(true, Entry{
			Name:    "optioncmd/" + x.tag,
			Kind:    "OPTIONCMD",
			Bytes:   OptionCmd(x.cmd, x.option, x.arg),
			Visible: true,
			Spec:    fmt.Sprintf("OPTIONCMD cmd=%d option=%d arg=%s", x.cmd, x.option, abbrev(x.arg)),
			Values:  []interface{}{x.cmd, x.option, x.arg},
		})
	}
}
