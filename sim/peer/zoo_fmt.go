package peer

// This file holds the builders for the format tokens (TDS_ROWFMT,
// TDS_ROWFMT2, TDS_PARAMFMT, TDS_PARAMFMT2) and the data tokens
// (TDS_ROW, TDS_PARAMS).

// Col describes one column or parameter of a format token.
type Col struct {
	Name     string
	Type     uint8  // TDS data type code
	Status   uint32 // TDS_ROW_* / TDS_PARAM_* bits; one byte on the wire unless wide
	UserType int32
	// MaxLen is the maximum length announced in the format. It is
	// transmitted as one byte for the nullable and variable length
	// types, as four bytes for LONGCHAR, LONGBINARY, TEXT, IMAGE,
	// UNITEXT and XML, and not at all for fixed length types and BLOB.
	MaxLen           int64
	Precision, Scale uint8  // DECN, NUMN (both); BIGDATETIMEN, BIGTIMEN (Scale only)
	Locale           string // locale information, usually empty

	// Only transmitted in TDS_ROWFMT2.
	Label, Catalogue, Schema, Table string

	// ObjName is the object name of TEXT, IMAGE, UNITEXT and XML columns.
	ObjName string

	// BlobType and ClassID are used by TDS_BLOB columns. ClassID is only
	// transmitted for TDS_BLOB_FULLCLASSNAME and TDS_BLOB_DBID_CLASSDEF.
	BlobType uint8
	ClassID  string
}

// Val is the value of one column or parameter in a data token.
type Val struct {
	// Null marks the value as NULL. For types with a length prefix a
	// length of zero is sent, for the TEXT family a text pointer length
	// of zero and nothing else. Fixed length types cannot express NULL
	// without a column status byte.
	Null bool
	// Raw holds the value bytes without any length prefix.
	Raw []byte

	// TextPtr and TimeStamp are used by TEXT, IMAGE, UNITEXT and XML.
	// A nil TextPtr is sent as 16 bytes 0x01..0x10, a nil TimeStamp as
	// eight bytes 0xA1..0xA8. TimeStamp must be eight bytes long.
	TextPtr   []byte
	TimeStamp []byte

	// ColStatus is or'ed into the column status byte, which is only sent
	// if the column format has the COLUMNSTATUS bit (0x08). Null sets
	// TDS_DATA_NULL in it. If the resulting status byte is non-zero
	// neither length nor data follow, unless StatusWithBody is set.
	ColStatus      uint8
	StatusWithBody bool

	// TDS_BLOB only: serialization type, sub class id (class blob
	// types) or locator (locator blob types). The data is sent as
	// Chunks; if Chunks is nil Raw is sent as a single chunk. All chunks
	// but the last get the high bit set in their four byte length.
	Serialization uint8
	SubClassID    string
	Locator       string
	Chunks        [][]byte
}

type typeClass int

const (
	classUnknown  typeClass = iota
	classFixed              // no format bytes, no length prefix
	classLen1               // one byte max length, one byte length prefix
	classLen4               // four byte max length, four byte length prefix
	classDecimal            // classLen1 plus precision and scale in the format
	classBigTime            // classLen1 plus scale in the format
	classText               // four byte max length, object name; text pointer layout
	classBlobType           // blob type and class id; chunked data
)

func classOf(typ uint8) (typeClass, int) {
	switch typ {
	case TDS_INT1, TDS_BIT, TDS_SINT1:
		return classFixed, 1
	case TDS_INT2, TDS_UINT2:
		return classFixed, 2
	case TDS_INT4, TDS_UINT4, TDS_FLT4, TDS_SHORTMONEY, TDS_DATE, TDS_TIME, TDS_SHORTDATE:
		return classFixed, 4
	case TDS_INT8, TDS_UINT8, TDS_FLT8, TDS_MONEY, TDS_DATETIME, TDS_INTERVAL:
		return classFixed, 8
	case TDS_INTN, TDS_UINTN, TDS_FLTN, TDS_MONEYN, TDS_DATETIMEN, TDS_DATEN, TDS_TIMEN,
		TDS_CHAR, TDS_VARCHAR, TDS_BINARY, TDS_VARBINARY, TDS_SENSITIVITY, TDS_BOUNDARY:
		return classLen1, 0
	case TDS_LONGCHAR, TDS_LONGBINARY:
		return classLen4, 0
	case TDS_DECN, TDS_NUMN:
		return classDecimal, 0
	case TDS_BIGDATETIMEN, TDS_BIGTIMEN:
		return classBigTime, 0
	case TDS_TEXT, TDS_IMAGE, TDS_UNITEXT, TDS_XML:
		return classText, 0
	case TDS_BLOB:
		return classBlobType, 0
	}
	return classUnknown, 0
}

// FixedSize returns the number of data bytes of a fixed length data
// type and 0 for all other types.
func FixedSize(typ uint8) int {
	_, n := classOf(typ)
	return n
}

func blobHasClass(blobType uint8) bool {
	return blobType == TDS_BLOB_FULLCLASSNAME || blobType == TDS_BLOB_DBID_CLASSDEF
}

func blobHasLocator(blobType uint8) bool {
	return blobType == TDS_LOBLOC_CHAR || blobType == TDS_LOBLOC_BINARY || blobType == TDS_LOBLOC_UNICHAR
}

// typeFmt writes the data type code and its type dependent format
// information.
func (w *buf) typeFmt(c Col) {
	w.u8(c.Type)
	class, _ := classOf(c.Type)
	switch class {
	case classLen1:
		w.u8(uint8(c.MaxLen))
	case classLen4:
		w.u32(uint32(c.MaxLen))
	case classDecimal:
		w.u8(uint8(c.MaxLen))
		w.u8(c.Precision)
		w.u8(c.Scale)
	case classBigTime:
		w.u8(uint8(c.MaxLen))
		w.u8(c.Scale)
	case classText:
		w.u32(uint32(c.MaxLen))
		w.str16(c.ObjName)
	case classBlobType:
		w.u8(c.BlobType)
		if blobHasClass(c.BlobType) {
			w.str16(c.ClassID)
		}
	}
}

// ParamFmt encodes TDS_PARAMFMT (wide=false) or TDS_PARAMFMT2
// (wide=true):
//
//	Length(2|4) NumParams(2) then per parameter
//	NameLen(1) Name Status(1|4) UserType(4) DataType(1) [type info]
//	LocaleLen(1) Locale
func ParamFmt(wide bool, cols ...Col) []byte {
	body := &buf{}
	body.u16(uint16(len(cols)))
	for _, c := range cols {
		body.str8(c.Name)
		if wide {
			body.u32(c.Status)
		} else {
			body.u8(uint8(c.Status))
		}
		body.u32(uint32(c.UserType))
		body.typeFmt(c)
		body.str8(c.Locale)
	}

	w := &buf{}
	if wide {
		w.u8(TDS_PARAMFMT2)
		w.u32(uint32(len(body.b)))
	} else {
		w.u8(TDS_PARAMFMT)
		w.u16(uint16(len(body.b)))
	}
	w.raw(body.b)
	return w.b
}

// RowFmt encodes TDS_ROWFMT (wide=false):
//
//	Length(2) NumCols(2) then per column
//	NameLen(1) Name Status(1) UserType(4) DataType(1) [type info]
//	LocaleLen(1) Locale
//
// or TDS_ROWFMT2 (wide=true):
//
//	Length(4) NumCols(2) then per column
//	LabelLen(1) Label CatalogueLen(1) Catalogue SchemaLen(1) Schema
//	TableLen(1) Table NameLen(1) Name Status(4) UserType(4)
//	DataType(1) [type info] LocaleLen(1) Locale
func RowFmt(wide bool, cols ...Col) []byte {
	body := &buf{}
	body.u16(uint16(len(cols)))
	for _, c := range cols {
		if wide {
			body.str8(c.Label)
			body.str8(c.Catalogue)
			body.str8(c.Schema)
			body.str8(c.Table)
		}
		body.str8(c.Name)
		if wide {
			body.u32(c.Status)
		} else {
			body.u8(uint8(c.Status))
		}
		body.u32(uint32(c.UserType))
		body.typeFmt(c)
		body.str8(c.Locale)
	}

	w := &buf{}
	if wide {
		w.u8(TDS_ROWFMT2)
		w.u32(uint32(len(body.b)))
	} else {
		w.u8(TDS_ROWFMT)
		w.u16(uint16(len(body.b)))
	}
	w.raw(body.b)
	return w.b
}

var (
	defaultTextPtr   = []byte{1, 2, 3, 4, 5, 6, 7, 8, 9, 10, 11, 12, 13, 14, 15, 16}
	defaultTimeStamp = []byte{0xA1, 0xA2, 0xA3, 0xA4, 0xA5, 0xA6, 0xA7, 0xA8}
)

const blobMoreChunks = 0x80000000

// value writes one column value according to the column format.
func (w *buf) value(c Col, v Val) {
	if c.Status&TDS_ROW_COLUMNSTATUS != 0 {
		st := v.ColStatus
		if v.Null {
			st |= TDS_DATA_NULL
		}
		w.u8(st)
		if st != 0 && !v.StatusWithBody {
			return
		}
	}

	class, _ := classOf(c.Type)
	switch class {
	case classLen1, classDecimal, classBigTime:
		if v.Null {
			w.u8(0)
			return
		}
		w.u8(uint8(len(v.Raw)))
		w.raw(v.Raw)
	case classLen4:
		if v.Null {
			w.u32(0)
			return
		}
		w.u32(uint32(len(v.Raw)))
		w.raw(v.Raw)
	case classText:
		if v.Null {
			w.u8(0)
			return
		}
		ptr, ts := v.TextPtr, v.TimeStamp
		if ptr == nil {
			ptr = defaultTextPtr
		}
		if ts == nil {
			ts = defaultTimeStamp
		}
		w.u8(uint8(len(ptr)))
		w.raw(ptr)
		w.raw(ts)
		w.u32(uint32(len(v.Raw)))
		w.raw(v.Raw)
	case classBlobType:
		w.u8(v.Serialization)
		if blobHasClass(c.BlobType) {
			w.str16(v.SubClassID)
		} else if blobHasLocator(c.BlobType) {
			w.str16(v.Locator)
		}
		chunks := v.Chunks
		if chunks == nil {
			chunks = [][]byte{v.Raw}
		}
		for i, chunk := range chunks {
			n := uint32(len(chunk))
			if i < len(chunks)-1 {
				n |= blobMoreChunks
			}
			w.u32(n)
			w.raw(chunk)
		}
	default:
		// Fixed length and unknown types: the raw bytes as they are.
		w.raw(v.Raw)
	}
}

func data(token uint8, cols []Col, vals []Val) []byte {
	w := &buf{}
	w.u8(token)
	for i, c := range cols {
		var v Val
		if i < len(vals) {
			v = vals[i]
		} else {
			v = Val{Null: true}
		}
		w.value(c, v)
	}
	return w.b
}

// Row encodes TDS_ROW: the values of all columns one after the other,
// each laid out according to its column format:
//
//	[ColumnStatus(1)] [Length(1|4)] Data
//
// Missing values are sent as NULL.
func Row(cols []Col, vals []Val) []byte {
	return data(TDS_ROW, cols, vals)
}

// Params encodes TDS_PARAMS, same layout as TDS_ROW.
func Params(cols []Col, vals []Val) []byte {
	return data(TDS_PARAMS, cols, vals)
}
