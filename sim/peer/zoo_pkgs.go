package peer

// This file holds the builders for all tokens that are not format or
// data tokens.

func done(token uint8, status, tranState uint16, count int32) []byte {
	w := &buf{}
	w.u8(token)
	w.u16(status)
	w.u16(tranState)
	w.u32(uint32(count))
	return w.b
}

// Done encodes TDS_DONE: Status(2) TranState(2) Count(4).
func Done(status uint16, tranState uint16, count int32) []byte {
	return done(TDS_DONE, status, tranState, count)
}

// DoneProc encodes TDS_DONEPROC, same layout as TDS_DONE.
func DoneProc(status uint16, tranState uint16, count int32) []byte {
	return done(TDS_DONEPROC, status, tranState, count)
}

// DoneInProc encodes TDS_DONEINPROC, same layout as TDS_DONE.
func DoneInProc(status uint16, tranState uint16, count int32) []byte {
	return done(TDS_DONEINPROC, status, tranState, count)
}

// EED encodes TDS_EED:
//
//	Length(2) MsgNumber(4) State(1) Class(1) SQLStateLen(1) SQLState
//	Status(1) TranState(2) MsgLen(2) Msg ServerLen(1) Server
//	ProcLen(1) Proc LineNum(2)
//
// Length counts everything after the length field.
func EED(msgNumber int32, state, class uint8, sqlState string, status uint8, tranState uint16, msg, server, proc string, line uint16) []byte {
	body := &buf{}
	body.u32(uint32(msgNumber))
	body.u8(state)
	body.u8(class)
	body.str8(sqlState)
	body.u8(status)
	body.u16(tranState)
	body.str16(msg)
	body.str8(server)
	body.str8(proc)
	body.u16(line)

	w := &buf{}
	w.u8(TDS_EED)
	w.u16(uint16(len(body.b)))
	w.raw(body.b)
	return w.b
}

// ErrorPkg encodes the classic TDS_ERROR token:
//
//	Length(2) MsgNumber(4) State(1) Class(1) MsgLen(2) Msg
//	ServerLen(1) Server ProcLen(1) Proc LineNum(2)
func ErrorPkg(msgNumber int32, state, class uint8, msg, server, proc string, line uint16) []byte {
	return errorInfo(TDS_ERROR, msgNumber, state, class, msg, server, proc, line)
}

// InfoPkg encodes the classic TDS_INFO token, same layout as TDS_ERROR.
func InfoPkg(msgNumber int32, state, class uint8, msg, server, proc string, line uint16) []byte {
	return errorInfo(TDS_INFO, msgNumber, state, class, msg, server, proc, line)
}

func errorInfo(token uint8, msgNumber int32, state, class uint8, msg, server, proc string, line uint16) []byte {
	body := &buf{}
	body.u32(uint32(msgNumber))
	body.u8(state)
	body.u8(class)
	body.str16(msg)
	body.str8(server)
	body.str8(proc)
	body.u16(line)

	w := &buf{}
	w.u8(token)
	w.u16(uint16(len(body.b)))
	w.raw(body.b)
	return w.b
}

// EnvMember is one environment change of a TDS_ENVCHANGE token.
type EnvMember struct {
	Type     uint8
	New, Old string
}

// EnvChange encodes TDS_ENVCHANGE: Length(2) then per member
// Type(1) NewLen(1) New OldLen(1) Old.
func EnvChange(members ...EnvMember) []byte {
	body := &buf{}
	for _, m := range members {
		body.u8(m.Type)
		body.str8(m.New)
		body.str8(m.Old)
	}

	w := &buf{}
	w.u8(TDS_ENVCHANGE)
	w.u16(uint16(len(body.b)))
	w.raw(body.b)
	return w.b
}

// LoginAck encodes TDS_LOGINACK:
// Length(2) Status(1) TDSVersion(4) NameLen(1) ProgName ProgVersion(4).
func LoginAck(status uint8, tdsVersion [4]byte, progName string, progVersion [4]byte) []byte {
	body := &buf{}
	body.u8(status)
	body.raw(tdsVersion[:])
	body.str8(progName)
	body.raw(progVersion[:])

	w := &buf{}
	w.u8(TDS_LOGINACK)
	w.u16(uint16(len(body.b)))
	w.raw(body.b)
	return w.b
}

// Msg encodes TDS_MSG: Length(1)=3 Status(1) MsgId(2).
func Msg(status uint8, msgId uint16) []byte {
	w := &buf{}
	w.u8(TDS_MSG)
	w.u8(3)
	w.u8(status)
	w.u16(msgId)
	return w.b
}

// CapMask builds a capability value mask of nbytes bytes with the given
// capability numbers set. Capability n lives in bit n%8 of byte
// nbytes-1-n/8, i.e. the last byte of the mask holds capabilities 0..7.
// Capabilities that do not fit are ignored.
func CapMask(nbytes int, caps ...int) []byte {
	m := make([]byte, nbytes)
	for _, c := range caps {
		i := nbytes - 1 - c/8
		if c < 0 || i < 0 {
			continue
		}
		m[i] |= 1 << uint(c%8)
	}
	return m
}

// Capability encodes TDS_CAPABILITY with a request and a response value
// mask: Length(2) then per mask Type(1) MaskLen(1) Mask.
func Capability(req, resp []byte) []byte {
	return CapabilityFull(req, resp, nil)
}

// CapabilityFull is Capability with an additional third value mask of
// type 3 (security). A nil mask is left out, an empty non-nil mask is
// emitted with length 0.
func CapabilityFull(req, resp, sec []byte) []byte {
	body := &buf{}
	for i, m := range [][]byte{req, resp, sec} {
		if m == nil {
			continue
		}
		body.u8(uint8(TDS_CAP_REQUEST + i))
		body.u8(uint8(len(m)))
		body.raw(m)
	}

	w := &buf{}
	w.u8(TDS_CAPABILITY)
	w.u16(uint16(len(body.b)))
	w.raw(body.b)
	return w.b
}

// ReturnStatus encodes TDS_RETURNSTATUS: Value(4).
func ReturnStatus(v int32) []byte {
	w := &buf{}
	w.u8(TDS_RETURNSTATUS)
	w.u32(uint32(v))
	return w.b
}

// OrderBy encodes TDS_ORDERBY: Count(2) then one byte per column.
func OrderBy(cols ...uint8) []byte {
	w := &buf{}
	w.u8(TDS_ORDERBY)
	w.u16(uint16(len(cols)))
	w.raw(cols)
	return w.b
}

// OrderBy2 encodes TDS_ORDERBY2: Length(4) Count(2) then two bytes per
// column.
func OrderBy2(cols ...uint16) []byte {
	w := &buf{}
	w.u8(TDS_ORDERBY2)
	w.u32(uint32(2 + 2*len(cols)))
	w.u16(uint16(len(cols)))
	for _, c := range cols {
		w.u16(c)
	}
	return w.b
}

// Dynamic encodes TDS_DYNAMIC (wide=false) or TDS_DYNAMIC2 (wide=true):
//
//	Length(2|4) Type(1) Status(1) IdLen(1) Id [StmtLen(2|4) Stmt]
//
// The statement is only present when typ has TDS_DYN_PREPARE or
// TDS_DYN_EXEC_IMMED set.
func Dynamic(wide bool, typ, status uint8, id string, stmt string) []byte {
	body := &buf{}
	body.u8(typ)
	body.u8(status)
	body.str8(id)
	if typ&TDS_DYN_PREPARE != 0 || typ&TDS_DYN_EXEC_IMMED != 0 {
		if wide {
			body.u32(uint32(len(stmt)))
		} else {
			body.u16(uint16(len(stmt)))
		}
		body.str(stmt)
	}

	w := &buf{}
	if wide {
		w.u8(TDS_DYNAMIC2)
		w.u32(uint32(len(body.b)))
	} else {
		w.u8(TDS_DYNAMIC)
		w.u16(uint16(len(body.b)))
	}
	w.raw(body.b)
	return w.b
}

// DynamicAck is Dynamic; the server acknowledges with typ TDS_DYN_ACK,
// in which case stmt is not transmitted.
func DynamicAck(wide bool, typ, status uint8, id string, stmt string) []byte {
	return Dynamic(wide, typ, status, id, stmt)
}

// CurInfo encodes TDS_CURINFO (wide=false) or TDS_CURINFO3 (wide=true):
//
//	Length(2) CursorId(4) [NameLen(1) Name] Command(1) Status(2|4)
//	[RowNum(4) TotalRows(4)] [RowCount(4)]
//
// The name is only present when cursorID is 0, RowNum and TotalRows
// only in TDS_CURINFO3 and RowCount only when status has
// TDS_CUR_ISTAT_ROWCNT set.
func CurInfo(wide bool, cursorID int32, name string, command uint8, status uint32, rowNum, totalRows, rowCount int32) []byte {
	body := &buf{}
	body.u32(uint32(cursorID))
	if cursorID == 0 {
		body.str8(name)
	}
	body.u8(command)
	if wide {
		body.u32(status)
		body.u32(uint32(rowNum))
		body.u32(uint32(totalRows))
	} else {
		body.u16(uint16(status))
	}
	if status&TDS_CUR_ISTAT_ROWCNT != 0 {
		body.u32(uint32(rowCount))
	}

	w := &buf{}
	if wide {
		w.u8(TDS_CURINFO3)
	} else {
		w.u8(TDS_CURINFO)
	}
	w.u16(uint16(len(body.b)))
	w.raw(body.b)
	return w.b
}

// Language encodes the client-side TDS_LANGUAGE token:
// Length(4) Status(1) Query.
func Language(status uint8, query string) []byte {
	w := &buf{}
	w.u8(TDS_LANGUAGE)
	w.u32(uint32(1 + len(query)))
	w.u8(status)
	w.str(query)
	return w.b
}

// Logout encodes the client-side TDS_LOGOUT token: Options(1).
func Logout(options uint8) []byte {
	return []byte{TDS_LOGOUT, options}
}
