package peer

import (
	"encoding/binary"
	"math"
	"math/big"
	"strings"
	"time"
	"unicode/utf16"
)

// This file holds helpers that turn Go values into the raw value bytes
// (without length prefix) of the TDS data types.

// RawInt1 encodes INT1 (unsigned tinyint) and one byte INTN/UINTN.
func RawInt1(v uint8) []byte { return []byte{v} }

// RawSint1 encodes SINT1 (signed one byte integer).
func RawSint1(v int8) []byte { return []byte{uint8(v)} }

// RawInt2 encodes INT2 and two byte INTN.
func RawInt2(v int16) []byte { return RawUint2(uint16(v)) }

// RawInt4 encodes INT4 and four byte INTN.
func RawInt4(v int32) []byte { return RawUint4(uint32(v)) }

// RawInt8 encodes INT8 and eight byte INTN.
func RawInt8(v int64) []byte { return RawUint8(uint64(v)) }

// RawUint2 encodes UINT2 and two byte UINTN.
func RawUint2(v uint16) []byte { return binary.LittleEndian.AppendUint16(nil, v) }

// RawUint4 encodes UINT4 and four byte UINTN.
func RawUint4(v uint32) []byte { return binary.LittleEndian.AppendUint32(nil, v) }

// RawUint8 encodes UINT8 and eight byte UINTN.
func RawUint8(v uint64) []byte { return binary.LittleEndian.AppendUint64(nil, v) }

// RawFlt4 encodes FLT4 and four byte FLTN (IEEE 754 single).
func RawFlt4(v float32) []byte { return RawUint4(math.Float32bits(v)) }

// RawFlt8 encodes FLT8 and eight byte FLTN (IEEE 754 double).
func RawFlt8(v float64) []byte { return RawUint8(math.Float64bits(v)) }

// RawBit encodes BIT.
func RawBit(v bool) []byte {
	if v {
		return []byte{1}
	}
	return []byte{0}
}

// RawMoney encodes MONEY and eight byte MONEYN. v is the amount in
// 1/10000 units; the high four bytes are sent before the low four
// bytes, each little-endian.
func RawMoney(v int64) []byte {
	b := RawUint4(uint32(uint64(v) >> 32))
	return append(b, RawUint4(uint32(uint64(v)))...)
}

// RawShortMoney encodes SHORTMONEY and four byte MONEYN. v is the
// amount in 1/10000 units.
func RawShortMoney(v int32) []byte { return RawInt4(v) }

// DecimalSize returns the number of value bytes (including the sign
// byte) ASE uses for DECN/NUMN values of the given precision.
func DecimalSize(precision uint8) int {
	// One sign byte plus the bytes needed for 10^precision - 1.
	max := new(big.Int).Exp(big.NewInt(10), big.NewInt(int64(precision)), nil)
	max.Sub(max, big.NewInt(1))
	return 1 + (max.BitLen()+7)/8
}

// RawDecimal encodes DECN/NUMN: a sign byte (0 positive, 1 negative)
// followed by the magnitude of the unscaled value as big-endian
// unsigned integer, left padded with zero bytes to size bytes in total.
// If size is too small the minimum number of bytes is used.
func RawDecimal(unscaled *big.Int, size int) []byte {
	mag := new(big.Int).Abs(unscaled).Bytes()
	n := len(mag) + 1
	if size > n {
		n = size
	}
	b := make([]byte, n)
	if unscaled.Sign() < 0 {
		b[0] = 1
	}
	copy(b[n-len(mag):], mag)
	return b
}

// RawDecimalString is RawDecimal for a decimal literal such as
// "-123.4500"; the decimal point is simply dropped, i.e. the literal
// must have exactly scale digits after the point. The result has
// DecimalSize(precision) bytes.
func RawDecimalString(s string, precision uint8) []byte {
	i, ok := new(big.Int).SetString(strings.Replace(s, ".", "", 1), 10)
	if !ok {
		panic("peer: invalid decimal literal " + s)
	}
	return RawDecimal(i, DecimalSize(precision))
}

// DaysSince1900 returns the number of days from 1900-01-01 to the given
// proleptic Gregorian date (negative before 1900).
func DaysSince1900(year, month, day int) int32 {
	return int32(daysFromCivil(year, month, day) - daysFromCivil(1900, 1, 1))
}

// daysFromCivil returns the number of days since 1970-01-01.
func daysFromCivil(y, m, d int) int64 {
	if m <= 2 {
		y--
	}
	era := y / 400
	if y < 0 {
		era = (y - 399) / 400
	}
	yoe := y - era*400
	mp := (m + 9) % 12
	doy := (153*mp+2)/5 + d - 1
	doe := yoe*365 + yoe/4 - yoe/100 + doy
	return int64(era)*146097 + int64(doe) - 719468
}

// Ticks returns a time of day in 1/300 s units, rounded to the nearest
// tick.
func Ticks(hour, min, sec, nsec int) int32 {
	ns := int64(hour)*3600e9 + int64(min)*60e9 + int64(sec)*1e9 + int64(nsec)
	return int32((ns*300 + 5e8) / 1e9)
}

// RawDate encodes DATE and DATEN: days since 1900-01-01 as four byte
// signed integer.
func RawDate(days int32) []byte { return RawInt4(days) }

// RawTime encodes TIME and TIMEN: 1/300 s ticks since midnight as four
// byte signed integer.
func RawTime(ticks int32) []byte { return RawInt4(ticks) }

// RawDateTime encodes DATETIME and eight byte DATETIMEN: days since
// 1900-01-01 (signed, four bytes) followed by 1/300 s ticks since
// midnight (four bytes).
func RawDateTime(days int32, ticks int32) []byte {
	return append(RawInt4(days), RawInt4(ticks)...)
}

// RawShortDate encodes SHORTDATE (smalldatetime) and four byte
// DATETIMEN: days since 1900-01-01 (unsigned, two bytes) followed by
// minutes since midnight (two bytes).
func RawShortDate(days uint16, minutes uint16) []byte {
	return append(RawUint2(days), RawUint2(minutes)...)
}

// bigDateTimeDays1900 is the day number of 1900-01-01 counted from
// 0000-01-01 (day 0) in the proleptic Gregorian calendar.
const bigDateTimeDays1900 = 693961

// BigDateTimeMicros returns the BIGDATETIME value of a point in time:
// microseconds since 0000-01-01 00:00:00.
func BigDateTimeMicros(year, month, day, hour, min, sec, usec int) uint64 {
	days := uint64(int64(DaysSince1900(year, month, day)) + bigDateTimeDays1900)
	return days*86400e6 + BigTimeMicros(hour, min, sec, usec)
}

// BigTimeMicros returns the BIGTIME value of a time of day:
// microseconds since midnight.
func BigTimeMicros(hour, min, sec, usec int) uint64 {
	return uint64(hour)*3600e6 + uint64(min)*60e6 + uint64(sec)*1e6 + uint64(usec)
}

// RawBigDateTime encodes BIGDATETIMEN: microseconds since 0000-01-01 as
// eight byte unsigned integer.
func RawBigDateTime(usec uint64) []byte { return RawUint8(usec) }

// RawBigTime encodes BIGTIMEN: microseconds since midnight as eight
// byte unsigned integer.
func RawBigTime(usec uint64) []byte { return RawUint8(usec) }

// RawInterval encodes INTERVAL: an eight byte signed integer.
func RawInterval(v int64) []byte { return RawInt8(v) }

// RawUniText encodes a string as UTF-16LE, as used by UNITEXT (and
// unichar/univarchar data sent as BINARY with a user type).
func RawUniText(s string) []byte {
	units := utf16.Encode([]rune(s))
	b := make([]byte, 0, 2*len(units))
	for _, u := range units {
		b = binary.LittleEndian.AppendUint16(b, u)
	}
	return b
}

// RawTimeOf returns the raw bytes of t for the given date/time data
// type code and value length (4 or 8 for DATETIMEN, ignored otherwise).
// The location of t is ignored, its wall clock reading is encoded.
func RawTimeOf(typ uint8, length int, t time.Time) []byte {
	y, mo, d := t.Date()
	h, mi, s := t.Clock()
	days := DaysSince1900(y, int(mo), d)
	switch typ {
	case TDS_DATE, TDS_DATEN:
		return RawDate(days)
	case TDS_TIME, TDS_TIMEN:
		return RawTime(Ticks(h, mi, s, t.Nanosecond()))
	case TDS_SHORTDATE:
		return RawShortDate(uint16(days), uint16(h*60+mi))
	case TDS_DATETIME:
		return RawDateTime(days, Ticks(h, mi, s, t.Nanosecond()))
	case TDS_DATETIMEN:
		if length == 4 {
			return RawShortDate(uint16(days), uint16(h*60+mi))
		}
		return RawDateTime(days, Ticks(h, mi, s, t.Nanosecond()))
	case TDS_BIGDATETIMEN:
		return RawBigDateTime(BigDateTimeMicros(y, int(mo), d, h, mi, s, t.Nanosecond()/1000))
	case TDS_BIGTIMEN:
		return RawBigTime(BigTimeMicros(h, mi, s, t.Nanosecond()/1000))
	}
	panic("peer: not a date/time data type")
}
