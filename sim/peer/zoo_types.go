package peer

import (
	"fmt"
	"math"
	"time"
)

// This file holds the per data type part of the zoo.

// tval is one value variant of a type case.
type tval struct {
	tag  string
	v    Val
	want interface{}
	// disputed is non-empty if go-dblib cannot decode this value; the
	// text is appended to the Spec of the entry.
	disputed string
}

// tcase is one data type (or one length variant of a nullable type).
type tcase struct {
	id   string
	desc string // SQL-ish type description for Spec
	col  Col
	vals []tval
	// wideParams also emits a PARAMFMT2/PARAMS pair.
	wideParams bool
	// secondary marks additional length or precision variants of a
	// type that has a primary case; they get no parameter side.
	secondary bool
	// dataDisputed marks all rows of the case as disputed (the format
	// itself decodes fine).
	dataDisputed string
	// fmtDisputed marks the formats and with them everything else of
	// the case as disputed.
	fmtDisputed string
}

func tv(tag string, raw []byte, want interface{}) tval {
	return tval{tag: tag, v: Val{Raw: raw}, want: want}
}

func tnull() tval { return tval{tag: "null", v: Val{Null: true}, want: nil} }

func money(v int64) Dec           { return Dec{Unscaled: fmt.Sprintf("%d", v), Scale: 4} }
func dec(s string, p, sc int) Dec { return Dec{Unscaled: s, Precision: p, Scale: sc} }

// timeOfDay is the value go-dblib style consumers get for TIME types.
func timeOfDay(h, mi, s, ns int) time.Time { return utc(1, 1, 1, h, mi, s, ns) }

func typeCases() []tcase {
	const maxTicks = 25919999 // 23:59:59.996

	text300 := pattern(300)
	text600 := pattern(600)
	bin255 := binPattern(255)
	bin700 := binPattern(700)
	uni := "héllo ☺ \U0001F600"

	return []tcase{
		// Fixed length types.
		{id: "int1", desc: "INT1", col: Col{Type: TDS_INT1}, vals: []tval{
			tv("typ", RawInt1(7), uint8(7)),
			tv("max", RawInt1(255), uint8(255)),
		}},
		{id: "int2", desc: "INT2", col: Col{Type: TDS_INT2}, vals: []tval{
			tv("typ", RawInt2(1234), int16(1234)),
			tv("min", RawInt2(math.MinInt16), int16(math.MinInt16)),
		}},
		{id: "int4", desc: "INT4", col: Col{Type: TDS_INT4}, wideParams: true, vals: []tval{
			tv("typ", RawInt4(123456789), int32(123456789)),
			tv("min", RawInt4(math.MinInt32), int32(math.MinInt32)),
			tv("max", RawInt4(math.MaxInt32), int32(math.MaxInt32)),
		}},
		{id: "int8", desc: "INT8", col: Col{Type: TDS_INT8}, vals: []tval{
			tv("typ", RawInt8(1234567890123456789), int64(1234567890123456789)),
			tv("min", RawInt8(math.MinInt64), int64(math.MinInt64)),
		}},
		{id: "uint2", desc: "UINT2", col: Col{Type: TDS_UINT2}, vals: []tval{
			tv("typ", RawUint2(40000), uint16(40000)),
			tv("max", RawUint2(math.MaxUint16), uint16(math.MaxUint16)),
		}},
		{id: "uint4", desc: "UINT4", col: Col{Type: TDS_UINT4}, vals: []tval{
			tv("typ", RawUint4(3000000000), uint32(3000000000)),
			tv("max", RawUint4(math.MaxUint32), uint32(math.MaxUint32)),
		}},
		{id: "uint8", desc: "UINT8", col: Col{Type: TDS_UINT8}, vals: []tval{
			tv("typ", RawUint8(1<<63+5), uint64(1<<63+5)),
			tv("max", RawUint8(math.MaxUint64), uint64(math.MaxUint64)),
		}},
		{id: "flt4", desc: "FLT4", col: Col{Type: TDS_FLT4}, vals: []tval{
			tv("typ", RawFlt4(1.5), float32(1.5)),
			tv("max", RawFlt4(math.MaxFloat32), float32(math.MaxFloat32)),
		}},
		{id: "flt8", desc: "FLT8", col: Col{Type: TDS_FLT8}, vals: []tval{
			tv("typ", RawFlt8(3.141592653589793), float64(3.141592653589793)),
			tv("max", RawFlt8(-math.MaxFloat64), float64(-math.MaxFloat64)),
			tv("inf", RawFlt8(math.Inf(1)), math.Inf(1)),
		}},
		{id: "bit", desc: "BIT", col: Col{Type: TDS_BIT}, vals: []tval{
			tv("typ", RawBit(true), true),
			tv("false", RawBit(false), false),
		}},
		{id: "money", desc: "MONEY", col: Col{Type: TDS_MONEY}, vals: []tval{
			tv("typ", RawMoney(1234567890), money(1234567890)),
			tv("neg", RawMoney(-15000), money(-15000)),
			tv("min", RawMoney(math.MinInt64), money(math.MinInt64)),
			tv("lowword-highbit", RawMoney(0x80000000), money(0x80000000)),
		}},
		{id: "shortmoney", desc: "SHORTMONEY", col: Col{Type: TDS_SHORTMONEY}, vals: []tval{
			tv("typ", RawShortMoney(123400), money(123400)),
			tv("min", RawShortMoney(math.MinInt32), money(math.MinInt32)),
		}},
		{id: "date", desc: "DATE", col: Col{Type: TDS_DATE}, vals: []tval{
			tv("typ", RawDate(DaysSince1900(2024, 2, 29)), utc(2024, 2, 29, 0, 0, 0, 0)),
			tv("min", RawDate(DaysSince1900(1, 1, 1)), utc(1, 1, 1, 0, 0, 0, 0)),
			tv("max", RawDate(DaysSince1900(9999, 12, 31)), utc(9999, 12, 31, 0, 0, 0, 0)),
		}},
		{id: "time", desc: "TIME", col: Col{Type: TDS_TIME}, vals: []tval{
			tv("typ", RawTime(Ticks(12, 34, 56, 780e6)), timeOfDay(12, 34, 56, 780e6)),
			tv("max", RawTime(maxTicks), timeOfDay(23, 59, 59, 996666666)),
		}},
		{id: "datetime", desc: "DATETIME", col: Col{Type: TDS_DATETIME}, wideParams: true, vals: []tval{
			tv("typ", RawDateTime(DaysSince1900(2024, 2, 29), Ticks(12, 34, 56, 780e6)), utc(2024, 2, 29, 12, 34, 56, 780e6)),
			tv("epoch", RawDateTime(0, 0), utc(1900, 1, 1, 0, 0, 0, 0)),
			tv("min", RawDateTime(DaysSince1900(1753, 1, 1), 0), utc(1753, 1, 1, 0, 0, 0, 0)),
			tv("max", RawDateTime(DaysSince1900(9999, 12, 31), maxTicks), utc(9999, 12, 31, 23, 59, 59, 996666666)),
		}},
		{id: "shortdate", desc: "SHORTDATE", col: Col{Type: TDS_SHORTDATE}, vals: []tval{
			tv("typ", RawShortDate(uint16(DaysSince1900(2024, 2, 29)), 12*60+34), utc(2024, 2, 29, 12, 34, 0, 0)),
			tv("max", RawShortDate(65535, 1439), utc(2079, 6, 6, 23, 59, 0, 0)),
		}},
		{id: "sint1", desc: "SINT1", col: Col{Type: TDS_SINT1},
			dataDisputed: "go-dblib has a field codec for SINT1 but asetypes.GoValue cannot convert it",
			vals: []tval{
				tv("typ", RawSint1(-5), int8(-5)),
			}},
		{id: "interval", desc: "INTERVAL", col: Col{Type: TDS_INTERVAL},
			dataDisputed: "go-dblib has a field codec for INTERVAL but asetypes.GoValue cannot convert it",
			vals: []tval{
				tv("typ", RawInterval(86400000000), int64(86400000000)),
			}},

		// Nullable fixed length types.
		{id: "intn1", desc: "INTN(1)", col: Col{Type: TDS_INTN, MaxLen: 1}, secondary: true, vals: []tval{
			tv("typ", RawInt1(200), uint8(200)),
		}},
		{id: "intn2", desc: "INTN(2)", col: Col{Type: TDS_INTN, MaxLen: 2}, secondary: true, vals: []tval{
			tv("typ", RawInt2(-2), int16(-2)),
		}},
		{id: "intn4", desc: "INTN(4)", col: Col{Type: TDS_INTN, MaxLen: 4}, wideParams: true, vals: []tval{
			tnull(),
			tv("typ", RawInt4(42), int32(42)),
			tv("min", RawInt4(math.MinInt32), int32(math.MinInt32)),
		}},
		{id: "intn8", desc: "INTN(8)", col: Col{Type: TDS_INTN, MaxLen: 8}, secondary: true, vals: []tval{
			tv("typ", RawInt8(-9000000000), int64(-9000000000)),
		}},
		{id: "uintn2", desc: "UINTN(2)", col: Col{Type: TDS_UINTN, MaxLen: 2}, secondary: true, vals: []tval{
			tv("typ", RawUint2(65000), uint16(65000)),
		}},
		{id: "uintn4", desc: "UINTN(4)", col: Col{Type: TDS_UINTN, MaxLen: 4}, vals: []tval{
			tnull(),
			tv("typ", RawUint4(4000000000), uint32(4000000000)),
		}},
		{id: "uintn8", desc: "UINTN(8)", col: Col{Type: TDS_UINTN, MaxLen: 8}, secondary: true, vals: []tval{
			tv("typ", RawUint8(18000000000000000000), uint64(18000000000000000000)),
		}},
		{id: "fltn4", desc: "FLTN(4)", col: Col{Type: TDS_FLTN, MaxLen: 4}, secondary: true, vals: []tval{
			tv("typ", RawFlt4(-2.25), float32(-2.25)),
		}},
		{id: "fltn8", desc: "FLTN(8)", col: Col{Type: TDS_FLTN, MaxLen: 8}, vals: []tval{
			tnull(),
			tv("typ", RawFlt8(6.02214076e23), float64(6.02214076e23)),
		}},
		{id: "moneyn4", desc: "MONEYN(4)", col: Col{Type: TDS_MONEYN, MaxLen: 4}, secondary: true, vals: []tval{
			tv("typ", RawShortMoney(-99900), money(-99900)),
		}},
		{id: "moneyn8", desc: "MONEYN(8)", col: Col{Type: TDS_MONEYN, MaxLen: 8}, vals: []tval{
			tnull(),
			tv("typ", RawMoney(199900), money(199900)),
			tv("neg", RawMoney(-50000000000000), money(-50000000000000)),
		}},
		{id: "daten", desc: "DATEN", col: Col{Type: TDS_DATEN, MaxLen: 4}, vals: []tval{
			tnull(),
			tv("typ", RawDate(DaysSince1900(1999, 12, 31)), utc(1999, 12, 31, 0, 0, 0, 0)),
			tv("pre1900", RawDate(DaysSince1900(1815, 6, 18)), utc(1815, 6, 18, 0, 0, 0, 0)),
		}},
		{id: "timen", desc: "TIMEN", col: Col{Type: TDS_TIMEN, MaxLen: 4}, vals: []tval{
			tnull(),
			tv("typ", RawTime(Ticks(6, 7, 8, 90e6)), timeOfDay(6, 7, 8, 90e6)),
		}},
		{id: "datetimen4", desc: "DATETIMEN(4)", col: Col{Type: TDS_DATETIMEN, MaxLen: 4}, secondary: true, vals: []tval{
			tv("typ", RawShortDate(uint16(DaysSince1900(2001, 9, 9)), 1*60+46), utc(2001, 9, 9, 1, 46, 0, 0)),
		}},
		{id: "datetimen8", desc: "DATETIMEN(8)", col: Col{Type: TDS_DATETIMEN, MaxLen: 8}, vals: []tval{
			tnull(),
			tv("typ", RawDateTime(DaysSince1900(2001, 9, 9), Ticks(1, 46, 40, 10e6)), utc(2001, 9, 9, 1, 46, 40, 10e6)),
			tv("pre1900", RawDateTime(DaysSince1900(1815, 6, 18), Ticks(11, 30, 0, 0)), utc(1815, 6, 18, 11, 30, 0, 0)),
		}},
		{id: "bigdatetimen", desc: "BIGDATETIMEN", col: Col{Type: TDS_BIGDATETIMEN, MaxLen: 8, Scale: 6}, wideParams: true, vals: []tval{
			tnull(),
			tv("typ", RawBigDateTime(BigDateTimeMicros(2024, 2, 29, 12, 34, 56, 123456)), utc(2024, 2, 29, 12, 34, 56, 123456000)),
			tv("min", RawBigDateTime(BigDateTimeMicros(1, 1, 1, 0, 0, 0, 0)), utc(1, 1, 1, 0, 0, 0, 0)),
			tv("max", RawBigDateTime(BigDateTimeMicros(9999, 12, 31, 23, 59, 59, 999999)), utc(9999, 12, 31, 23, 59, 59, 999999000)),
		}},
		{id: "bigtimen", desc: "BIGTIMEN", col: Col{Type: TDS_BIGTIMEN, MaxLen: 8, Scale: 6}, vals: []tval{
			tnull(),
			tv("typ", RawBigTime(BigTimeMicros(12, 34, 56, 123456)), timeOfDay(12, 34, 56, 123456000)),
			tv("midnight", RawBigTime(0), timeOfDay(0, 0, 0, 0)),
			tv("max", RawBigTime(BigTimeMicros(23, 59, 59, 999999)), timeOfDay(23, 59, 59, 999999000)),
		}},
		{id: "decn", desc: "DECN(10,2)", col: Col{Type: TDS_DECN, MaxLen: int64(DecimalSize(10)), Precision: 10, Scale: 2}, wideParams: true, vals: []tval{
			tnull(),
			tv("typ", RawDecimalString("12345.67", 10), dec("1234567", 10, 2)),
			tv("neg", RawDecimalString("-0.01", 10), dec("-1", 10, 2)),
			tv("zero", RawDecimalString("0.00", 10), dec("0", 10, 2)),
			tv("max", RawDecimalString("99999999.99", 10), dec("9999999999", 10, 2)),
		}},
		{id: "decn38", desc: "DECN(38,10)", col: Col{Type: TDS_DECN, MaxLen: int64(DecimalSize(38)), Precision: 38, Scale: 10}, secondary: true, vals: []tval{
			tv("typ", RawDecimalString("3.1415926535", 38), dec("31415926535", 38, 10)),
			tv("max", RawDecimalString("9999999999999999999999999999.9999999999", 38), dec("99999999999999999999999999999999999999", 38, 10)),
			tv("min", RawDecimalString("-9999999999999999999999999999.9999999999", 38), dec("-99999999999999999999999999999999999999", 38, 10)),
		}},
		{id: "numn", desc: "NUMN(18,0)", col: Col{Type: TDS_NUMN, MaxLen: int64(DecimalSize(18)), Precision: 18, Scale: 0}, vals: []tval{
			tnull(),
			tv("typ", RawDecimalString("123456789012345678", 18), dec("123456789012345678", 18, 0)),
			tv("neg", RawDecimalString("-42", 18), dec("-42", 18, 0)),
		}},
		{id: "numn5", desc: "NUMN(5,5)", col: Col{Type: TDS_NUMN, MaxLen: int64(DecimalSize(5)), Precision: 5, Scale: 5, Status: TDS_ROW_IDENTITY}, secondary: true, vals: []tval{
			tv("typ", RawDecimalString("0.12345", 5), dec("12345", 5, 5)),
		}},

		// Variable length types with one byte length.
		{id: "char", desc: "CHAR(255)", col: Col{Type: TDS_CHAR, MaxLen: 255}, vals: []tval{
			tnull(),
			tv("typ", []byte("hello     "), "hello     "),
			tv("max", []byte(text300[:255]), text300[:255]),
		}},
		{id: "varchar", desc: "VARCHAR(255)", col: Col{Type: TDS_VARCHAR, MaxLen: 255}, wideParams: true, vals: []tval{
			tnull(),
			tv("typ", []byte("hello"), "hello"),
			tv("space", []byte(" "), " "),
			tv("utf8", []byte("héllo wörld €"), "héllo wörld €"),
			tv("max", []byte(text300[:255]), text300[:255]),
		}},
		{id: "binary", desc: "BINARY(255)", col: Col{Type: TDS_BINARY, MaxLen: 255}, vals: []tval{
			tnull(),
			tv("typ", []byte{0xde, 0xad, 0xbe, 0xef}, []byte{0xde, 0xad, 0xbe, 0xef}),
			tv("max", bin255, bin255),
		}},
		{id: "varbinary", desc: "VARBINARY(255)", col: Col{Type: TDS_VARBINARY, MaxLen: 255}, wideParams: true, vals: []tval{
			tnull(),
			tv("typ", []byte{0x00, 0x01, 0xfe, 0xff}, []byte{0x00, 0x01, 0xfe, 0xff}),
			tv("max", bin255, bin255),
		}},
		{id: "sensitivity", desc: "SENSITIVITY(16)", col: Col{Type: TDS_SENSITIVITY, MaxLen: 16},
			dataDisputed: "go-dblib has a field codec for SENSITIVITY but asetypes.GoValue cannot convert it",
			vals: []tval{
				tv("typ", []byte("secret"), "secret"),
			}},
		{id: "boundary", desc: "BOUNDARY(16)", col: Col{Type: TDS_BOUNDARY, MaxLen: 16},
			dataDisputed: "go-dblib has a field codec for BOUNDARY but asetypes.GoValue cannot convert it",
			vals: []tval{
				tv("typ", []byte("bound"), "bound"),
			}},

		// Variable length types with four byte length.
		{id: "longchar", desc: "LONGCHAR(16384)", col: Col{Type: TDS_LONGCHAR, MaxLen: 16384}, wideParams: true, vals: []tval{
			tnull(),
			tv("typ", []byte("a longer string"), "a longer string"),
			tv("long", []byte(text600), text600),
		}},
		{id: "longbinary", desc: "LONGBINARY(16384)", col: Col{Type: TDS_LONGBINARY, MaxLen: 16384}, vals: []tval{
			tnull(),
			tv("typ", []byte{1, 2, 3, 4, 5, 6, 7, 8, 9}, []byte{1, 2, 3, 4, 5, 6, 7, 8, 9}),
			tv("long", bin700, bin700),
		}},
		{id: "univarchar", desc: "LONGBINARY(510) usertype=35 (univarchar)", col: Col{Type: TDS_LONGBINARY, MaxLen: 510, UserType: 35}, secondary: true, vals: []tval{
			tv("typ", RawUniText(uni), RawUniText(uni)),
		}},

		// Text pointer types.
		{id: "text", desc: "TEXT", col: Col{Type: TDS_TEXT, MaxLen: 32768, ObjName: "pubs2.dbo.blurbs"}, wideParams: true, vals: []tval{
			{tag: "null", v: Val{Null: true}, want: nil,
				disputed: "a NULL text value is a text pointer length of 0 with nothing after it; go-dblib always reads timestamp and data length"},
			tv("typ", []byte("some text"), []byte("some text")),
			tv("empty", []byte{}, []byte{}),
			tv("long", []byte(text600), []byte(text600)),
			{tag: "shortptr", v: Val{Raw: []byte("abc"), TextPtr: []byte{9, 8, 7, 6}, TimeStamp: []byte{0, 0, 0, 0, 0, 0, 0, 1}}, want: []byte("abc")},
		}},
		{id: "image", desc: "IMAGE", col: Col{Type: TDS_IMAGE, MaxLen: 2147483647, ObjName: "pubs2.dbo.au_pix"}, vals: []tval{
			{tag: "null", v: Val{Null: true}, want: nil,
				disputed: "a NULL image value is a text pointer length of 0 with nothing after it; go-dblib always reads timestamp and data length"},
			tv("typ", []byte{0x89, 'P', 'N', 'G', 0x0d, 0x0a, 0x1a, 0x0a}, []byte{0x89, 'P', 'N', 'G', 0x0d, 0x0a, 0x1a, 0x0a}),
			tv("empty", []byte{}, []byte{}),
			tv("long", bin700[:300], bin700[:300]),
		}},
		{id: "unitext", desc: "UNITEXT", col: Col{Type: TDS_UNITEXT, MaxLen: 32768, ObjName: "db.dbo.u"}, vals: []tval{
			tv("typ", RawUniText(uni), RawUniText(uni)),
			tv("empty", []byte{}, []byte{}),
		}},
		{id: "xml", desc: "XML", col: Col{Type: TDS_XML, MaxLen: 32768, ObjName: ""}, vals: []tval{
			tv("typ", []byte("<a b=\"1\">x</a>"), []byte("<a b=\"1\">x</a>")),
			tv("empty", []byte{}, []byte{}),
		}},
	}
}

// wide returns the column with the TDS_ROWFMT2-only members filled in.
func wideCol(c Col, id string) Col {
	c.Name = "c_" + id
	c.Label = "l_" + id
	c.Catalogue = "db"
	c.Schema = "dbo"
	c.Table = "t_" + id
	return c
}

func narrowCol(c Col, id string) Col {
	c.Name = "c_" + id
	return c
}

func paramCol(c Col, id string) Col {
	c.Name = "@p_" + id
	// Identity and friends are meaningless for parameters.
	c.Status = 0
	return c
}

func (z *zooBuilder) addTypes() {
	const narrowRowFmt = "TDS_ROWFMT has a two byte length; go-dblib reads four bytes for TDS_ROWFMT as well as for TDS_ROWFMT2"

	for _, tc := range typeCases() {
		fmtDisputed := tc.fmtDisputed != ""
		note := func(s string) string {
			if s == "" {
				return ""
			}
			return " -- DISPUTED: " + s
		}

		// ROWFMT2 + ROW
		wc := wideCol(tc.col, tc.id)
		z.put(fmtDisputed, Entry{Name: "rowfmt2/" + tc.id, Kind: "ROWFMT2", Bytes: RowFmt(true, wc), Visible: true,
			Spec: fmt.Sprintf("ROWFMT2 %s %s status=0x%x usertype=%d", wc.Name, tc.desc, wc.Status, wc.UserType) + note(tc.fmtDisputed),
			Cols: []Col{wc}})
		for _, v := range tc.vals {
			why := v.disputed
			if why == "" {
				why = tc.dataDisputed
			}
			if why == "" {
				why = tc.fmtDisputed
			}
			z.put(why != "", Entry{Name: "row/" + tc.id + "/" + v.tag, Kind: "ROW", Needs: "rowfmt2/" + tc.id,
				Bytes: Row([]Col{wc}, []Val{v.v}), Visible: true,
				Spec:   fmt.Sprintf("ROW %s=%s", tc.desc, abbrev(v.want)) + note(why),
				Cols:   []Col{wc},
				Values: []interface{}{v.want}})
		}

		// ROWFMT (narrow): disputed for every type. The rows above are
		// just as valid after this format.
		nc := narrowCol(tc.col, tc.id)
		why := narrowRowFmt
		if fmtDisputed {
			why += "; " + tc.fmtDisputed
		}
		z.put(true, Entry{Name: "rowfmt/" + tc.id, Kind: "ROWFMT", Bytes: RowFmt(false, nc), Visible: true,
			Spec: fmt.Sprintf("ROWFMT %s %s status=0x%x usertype=%d", nc.Name, tc.desc, nc.Status, nc.UserType) + note(why),
			Cols: []Col{nc}})

		// PARAMFMT + PARAMS
		if tc.secondary {
			continue
		}
		pc := paramCol(tc.col, tc.id)
		z.put(fmtDisputed, Entry{Name: "paramfmt/" + tc.id, Kind: "PARAMFMT", Bytes: ParamFmt(false, pc), Visible: true,
			Spec: fmt.Sprintf("PARAMFMT %s %s", pc.Name, tc.desc) + note(tc.fmtDisputed),
			Cols: []Col{pc}})
		for _, v := range tc.vals {
			// One value is enough on the parameter side, plus NULL for
			// the types that also get a wide parameter format.
			if v.tag != "typ" && !(v.tag == "null" && tc.wideParams) {
				continue
			}
			why := v.disputed
			if why == "" {
				why = tc.dataDisputed
			}
			if why == "" {
				why = tc.fmtDisputed
			}
			z.put(why != "", Entry{Name: "params/" + tc.id + "/" + v.tag, Kind: "PARAMS", Needs: "paramfmt/" + tc.id,
				Bytes: Params([]Col{pc}, []Val{v.v}), Visible: true,
				Spec:   fmt.Sprintf("PARAMS %s=%s", tc.desc, abbrev(v.want)) + note(why),
				Cols:   []Col{pc},
				Values: []interface{}{v.want}})
		}

		// PARAMFMT2 + PARAMS for a subset
		if !tc.wideParams {
			continue
		}
		pc.Status = TDS_PARAM_RETURN
		z.put(fmtDisputed, Entry{Name: "paramfmt2/" + tc.id, Kind: "PARAMFMT2", Bytes: ParamFmt(true, pc), Visible: true,
			Spec: fmt.Sprintf("PARAMFMT2 %s %s status=0x1", pc.Name, tc.desc) + note(tc.fmtDisputed),
			Cols: []Col{pc}})
		for _, v := range tc.vals {
			if v.tag != "typ" {
				continue
			}
			z.put(fmtDisputed, Entry{Name: "params2/" + tc.id + "/" + v.tag, Kind: "PARAMS", Needs: "paramfmt2/" + tc.id,
				Bytes: Params([]Col{pc}, []Val{v.v}), Visible: true,
				Spec:   fmt.Sprintf("PARAMS %s=%s", tc.desc, abbrev(v.want)) + note(tc.fmtDisputed),
				Cols:   []Col{pc},
				Values: []interface{}{v.want}})
		}
	}
}

// addMulti adds multi column formats and rows as well as a few format
// oddities.
func (z *zooBuilder) addMulti() {
	row := func(disputed string, name, needs, kind string, cols []Col, vals []Val, want ...interface{}) {
		var b []byte
		if kind == "ROW" {
			b = Row(cols, vals)
		} else {
			b = Params(cols, vals)
		}
		spec := kind
		for i, w := range want {
			spec += fmt.Sprintf(" %s=%s", cols[i].Name, abbrev(w))
		}
		if disputed != "" {
			spec += " -- DISPUTED: " + disputed
		}
		z.put(disputed != "", Entry{Name: name, Kind: kind, Needs: needs, Bytes: b, Visible: true, Spec: spec, Cols: cols, Values: want})
	}

	// rowfmt2/multi itself is added in addMisc, before the ORDERBY
	// entries.
	mc := multiCols()
	z.put(true, Entry{Name: "rowfmt/multi", Kind: "ROWFMT", Bytes: RowFmt(false, mc...), Visible: true,
		Spec: "ROWFMT id INT4, title VARCHAR(80), price MONEYN(8), pubdate DATETIMEN(8), contract BIT, hash VARBINARY(16), notes TEXT" +
			" -- DISPUTED: TDS_ROWFMT has a two byte length; go-dblib reads four bytes for TDS_ROWFMT as well as for TDS_ROWFMT2",
		Cols: mc})
	row("", "row/multi/typ", "rowfmt2/multi", "ROW", mc, []Val{
		{Raw: RawInt4(1001)},
		{Raw: []byte("The Busy Executive's Database Guide")},
		{Raw: RawMoney(199900)},
		{Raw: RawDateTime(DaysSince1900(1986, 6, 12), 0)},
		{Raw: RawBit(true)},
		{Raw: []byte{0xca, 0xfe, 0xba, 0xbe}},
		{Raw: []byte("An overview of available database systems.")},
	}, int32(1001), "The Busy Executive's Database Guide", money(199900), utc(1986, 6, 12, 0, 0, 0, 0), true,
		[]byte{0xca, 0xfe, 0xba, 0xbe}, []byte("An overview of available database systems."))
	row("", "row/multi/nulls", "rowfmt2/multi", "ROW", mc, []Val{
		{Raw: RawInt4(1002)},
		{Null: true},
		{Null: true},
		{Null: true},
		{Raw: RawBit(false)},
		{Null: true},
		{Raw: []byte{}},
	}, int32(1002), nil, nil, nil, false, nil, []byte{})
	row("a NULL text value is a text pointer length of 0 with nothing after it; go-dblib always reads timestamp and data length",
		"row/multi/nulltext", "rowfmt2/multi", "ROW", mc, []Val{
			{Raw: RawInt4(1003)},
			{Raw: []byte("t")},
			{Raw: RawMoney(10000)},
			{Raw: RawDateTime(0, 300)},
			{Raw: RawBit(true)},
			{Raw: []byte{1}},
			{Null: true},
		}, int32(1003), "t", money(10000), utc(1900, 1, 1, 0, 0, 1, 0), true, []byte{1}, nil)

	// Numbers only.
	nums := []Col{
		{Name: "a", Type: TDS_INTN, MaxLen: 4, Status: TDS_ROW_NULLALLOWED},
		{Name: "b", Type: TDS_NUMN, MaxLen: int64(DecimalSize(18)), Precision: 18, Scale: 0, Status: TDS_ROW_IDENTITY},
		{Name: "c", Type: TDS_DECN, MaxLen: int64(DecimalSize(10)), Precision: 10, Scale: 2, Status: TDS_ROW_NULLALLOWED},
		{Name: "d", Type: TDS_FLTN, MaxLen: 8, Status: TDS_ROW_NULLALLOWED},
		{Name: "e", Type: TDS_UINTN, MaxLen: 8, Status: TDS_ROW_NULLALLOWED},
		{Name: "f", Type: TDS_INT8},
		{Name: "g", Type: TDS_INT1},
		{Name: "h", Type: TDS_SHORTMONEY},
	}
	z.put(false, Entry{Name: "rowfmt2/nums", Kind: "ROWFMT2", Bytes: RowFmt(true, nums...), Visible: true,
		Spec: "ROWFMT2 a INTN(4), b NUMN(18,0), c DECN(10,2), d FLTN(8), e UINTN(8), f INT8, g INT1, h SHORTMONEY (no labels)", Cols: nums})
	row("", "row/nums/typ", "rowfmt2/nums", "ROW", nums, []Val{
		{Raw: RawInt4(-7)},
		{Raw: RawDecimalString("1", 18)},
		{Raw: RawDecimalString("-123.45", 10)},
		{Raw: RawFlt8(0.5)},
		{Raw: RawUint8(1 << 40)},
		{Raw: RawInt8(-1)},
		{Raw: RawInt1(9)},
		{Raw: RawShortMoney(5)},
	}, int32(-7), dec("1", 18, 0), dec("-12345", 10, 2), float64(0.5), uint64(1<<40), int64(-1), uint8(9), money(5))
	row("", "row/nums/nulls", "rowfmt2/nums", "ROW", nums, []Val{
		{Null: true},
		{Raw: RawDecimalString("2", 18)},
		{Null: true},
		{Null: true},
		{Null: true},
		{Raw: RawInt8(0)},
		{Raw: RawInt1(0)},
		{Raw: RawShortMoney(0)},
	}, nil, dec("2", 18, 0), nil, nil, nil, int64(0), uint8(0), money(0))

	// Date and time types only.
	times := []Col{
		{Name: "d", Type: TDS_DATEN, MaxLen: 4},
		{Name: "t", Type: TDS_TIMEN, MaxLen: 4},
		{Name: "dt", Type: TDS_DATETIME},
		{Name: "sdt", Type: TDS_DATETIMEN, MaxLen: 4},
		{Name: "bdt", Type: TDS_BIGDATETIMEN, MaxLen: 8, Scale: 6},
		{Name: "bt", Type: TDS_BIGTIMEN, MaxLen: 8, Scale: 6},
	}
	z.put(false, Entry{Name: "rowfmt2/times", Kind: "ROWFMT2", Bytes: RowFmt(true, times...), Visible: true,
		Spec: "ROWFMT2 d DATEN, t TIMEN, dt DATETIME, sdt DATETIMEN(4), bdt BIGDATETIMEN, bt BIGTIMEN (no labels)", Cols: times})
	ts := utc(2010, 10, 10, 10, 10, 10, 990e6)
	row("", "row/times/typ", "rowfmt2/times", "ROW", times, []Val{
		{Raw: RawTimeOf(TDS_DATEN, 4, ts)},
		{Raw: RawTimeOf(TDS_TIMEN, 4, ts)},
		{Raw: RawTimeOf(TDS_DATETIME, 8, ts)},
		{Raw: RawTimeOf(TDS_DATETIMEN, 4, ts)},
		{Raw: RawTimeOf(TDS_BIGDATETIMEN, 8, ts)},
		{Raw: RawTimeOf(TDS_BIGTIMEN, 8, ts)},
	}, utc(2010, 10, 10, 0, 0, 0, 0), timeOfDay(10, 10, 10, 990e6), ts, utc(2010, 10, 10, 10, 10, 0, 0), ts, timeOfDay(10, 10, 10, 990e6))

	// Many small columns.
	var many []Col
	var manyVals []Val
	var manyWant []interface{}
	for i := 0; i < 24; i++ {
		many = append(many, Col{Name: fmt.Sprintf("c%02d", i), Type: TDS_INT2})
		manyVals = append(manyVals, Val{Raw: RawInt2(int16(i*1000 - 12000))})
		manyWant = append(manyWant, int16(i*1000-12000))
	}
	z.put(false, Entry{Name: "rowfmt2/many", Kind: "ROWFMT2", Bytes: RowFmt(true, many...), Visible: true,
		Spec: "ROWFMT2 c00..c23 INT2 (no labels)", Cols: many})
	row("", "row/many/typ", "rowfmt2/many", "ROW", many, manyVals, manyWant...)

	// No columns at all.
	z.put(false, Entry{Name: "rowfmt2/nocols", Kind: "ROWFMT2", Bytes: RowFmt(true), Visible: true, Spec: "ROWFMT2 without columns", Cols: []Col{}})
	row("", "row/nocols", "rowfmt2/nocols", "ROW", []Col{}, nil)
	z.put(false, Entry{Name: "paramfmt/nocols", Kind: "PARAMFMT", Bytes: ParamFmt(false), Visible: true, Spec: "PARAMFMT without parameters", Cols: []Col{}})
	row("", "params/nocols", "paramfmt/nocols", "PARAMS", []Col{}, nil)

	// Format oddities: all status bits, user type, locale, unnamed column,
	// maximum name lengths.
	odd := []Col{
		{Name: "", Type: TDS_INT4},
		{Name: "hidden_key", Type: TDS_INT4, Status: TDS_ROW_HIDDEN | TDS_ROW_KEY},
		{Name: "version", Type: TDS_VARBINARY, MaxLen: 8, Status: TDS_ROW_VERSION | TDS_ROW_HIDDEN, UserType: 80},
		{Name: "padded", Type: TDS_CHAR, MaxLen: 5, Status: TDS_ROW_PADCHAR | TDS_ROW_UPDATABLE | TDS_ROW_NULLALLOWED, UserType: 1, Locale: "en_US"},
		{Name: pattern(255), Type: TDS_INT1, Label: pattern(255), Catalogue: pattern(30), Schema: pattern(30), Table: pattern(30), UserType: -1},
	}
	z.put(false, Entry{Name: "rowfmt2/odd", Kind: "ROWFMT2", Bytes: RowFmt(true, odd...), Visible: true,
		Spec: "ROWFMT2 unnamed INT4, hidden_key INT4 status=0x3, version VARBINARY(8) status=0x5 usertype=80, padded CHAR(5) status=0xb0 usertype=1 locale=en_US, <255 byte name> INT1 usertype=-1 with 255 byte label",
		Cols: odd})
	row("", "row/odd/typ", "rowfmt2/odd", "ROW", odd, []Val{
		{Raw: RawInt4(1)}, {Raw: RawInt4(2)}, {Raw: []byte{0, 0, 0, 0, 0, 0, 0x12, 0x34}}, {Raw: []byte("ab   ")}, {Raw: RawInt1(3)},
	}, int32(1), int32(2), []byte{0, 0, 0, 0, 0, 0, 0x12, 0x34}, "ab   ", uint8(3))

	// Parameters: return value plus output parameters.
	params := []Col{
		{Name: "@ret", Type: TDS_INT4, Status: TDS_PARAM_RETURN},
		{Name: "@name", Type: TDS_VARCHAR, MaxLen: 30, Status: TDS_PARAM_RETURN | TDS_PARAM_NULLALLOWED},
		{Name: "", Type: TDS_DATETIMEN, MaxLen: 8, Status: TDS_PARAM_NULLALLOWED, Locale: "us_english"},
		{Name: "@amount", Type: TDS_DECN, MaxLen: int64(DecimalSize(10)), Precision: 10, Scale: 2, UserType: 26},
	}
	z.put(false, Entry{Name: "paramfmt/multi", Kind: "PARAMFMT", Bytes: ParamFmt(false, params...), Visible: true,
		Spec: "PARAMFMT @ret INT4 status=0x1, @name VARCHAR(30) status=0x21, unnamed DATETIMEN(8) status=0x20 locale=us_english, @amount DECN(10,2) usertype=26", Cols: params})
	z.put(false, Entry{Name: "paramfmt2/multi", Kind: "PARAMFMT2", Bytes: ParamFmt(true, params...), Visible: true,
		Spec: "PARAMFMT2 @ret INT4 status=0x1, @name VARCHAR(30) status=0x21, unnamed DATETIMEN(8) status=0x20 locale=us_english, @amount DECN(10,2) usertype=26", Cols: params})
	for _, f := range []string{"paramfmt", "paramfmt2"} {
		p := "params"
		if f == "paramfmt2" {
			p = "params2"
		}
		row("", p+"/multi/typ", f+"/multi", "PARAMS", params, []Val{
			{Raw: RawInt4(0)}, {Raw: []byte("out")}, {Raw: RawDateTime(DaysSince1900(2020, 1, 2), Ticks(3, 4, 5, 0))}, {Raw: RawDecimalString("10.50", 10)},
		}, int32(0), "out", utc(2020, 1, 2, 3, 4, 5, 0), dec("1050", 10, 2))
		row("", p+"/multi/nulls", f+"/multi", "PARAMS", params, []Val{
			{Raw: RawInt4(-6)}, {Null: true}, {Null: true}, {Null: true},
		}, int32(-6), nil, nil, nil)
	}

	// Column status bytes.
	cs := []Col{
		{Name: "i", Type: TDS_INT4, Status: TDS_ROW_COLUMNSTATUS},
		{Name: "v", Type: TDS_VARCHAR, MaxLen: 20, Status: TDS_ROW_COLUMNSTATUS | TDS_ROW_NULLALLOWED},
		{Name: "plain", Type: TDS_INT2},
		{Name: "t", Type: TDS_TEXT, MaxLen: 32768, ObjName: "db.dbo.t", Status: TDS_ROW_COLUMNSTATUS | TDS_ROW_NULLALLOWED},
		{Name: "n", Type: TDS_INTN, MaxLen: 4, Status: TDS_ROW_COLUMNSTATUS | TDS_ROW_NULLALLOWED},
	}
	z.put(false, Entry{Name: "rowfmt2/colstatus", Kind: "ROWFMT2", Bytes: RowFmt(true, cs...), Visible: true,
		Spec: "ROWFMT2 i INT4 status=0x8, v VARCHAR(20) status=0x28, plain INT2, t TEXT status=0x28, n INTN(4) status=0x28", Cols: cs})
	row("", "row/colstatus/nonnull", "rowfmt2/colstatus", "ROW", cs, []Val{
		{Raw: RawInt4(5)}, {Raw: []byte("five")}, {Raw: RawInt2(55)}, {Raw: []byte("FIVE")}, {Raw: RawInt4(555)},
	}, int32(5), "five", int16(55), []byte("FIVE"), int32(555))
	const statusOnly = "per spec a non-zero column status byte (TDS_DATA_NULL, TDS_DATA_ZEROLENGTHNONNULL) is not followed by length or data; go-dblib always reads length and data after the status byte (medium confidence in this reading of the spec)"
	row(statusOnly, "row/colstatus/null", "rowfmt2/colstatus", "ROW", cs, []Val{
		{Null: true}, {Null: true}, {Raw: RawInt2(56)}, {Null: true}, {Null: true},
	}, nil, nil, int16(56), nil, nil)
	row(statusOnly, "row/colstatus/zerolength", "rowfmt2/colstatus", "ROW", cs, []Val{
		{Raw: RawInt4(6)}, {ColStatus: TDS_DATA_ZEROLENGTHNONNULL}, {Raw: RawInt2(57)}, {ColStatus: TDS_DATA_ZEROLENGTHNONNULL}, {Raw: RawInt4(7)},
	}, int32(6), "", int16(57), []byte{}, int32(7))
	pcs := []Col{
		{Name: "@i", Type: TDS_INTN, MaxLen: 4, Status: TDS_PARAM_COLUMNSTATUS | TDS_PARAM_NULLALLOWED},
		{Name: "@v", Type: TDS_LONGCHAR, MaxLen: 100, Status: TDS_PARAM_COLUMNSTATUS | TDS_PARAM_RETURN},
	}
	z.put(false, Entry{Name: "paramfmt/colstatus", Kind: "PARAMFMT", Bytes: ParamFmt(false, pcs...), Visible: true,
		Spec: "PARAMFMT @i INTN(4) status=0x28, @v LONGCHAR(100) status=0x9", Cols: pcs})
	row("", "params/colstatus/nonnull", "paramfmt/colstatus", "PARAMS", pcs, []Val{
		{Raw: RawInt4(8)}, {Raw: []byte("eight")},
	}, int32(8), "eight")
	row(statusOnly, "params/colstatus/null", "paramfmt/colstatus", "PARAMS", pcs, []Val{
		{Null: true}, {Null: true},
	}, nil, nil)
}

// addBlob adds TDS_BLOB formats and values. All of them are disputed.
func (z *zooBuilder) addBlob() {
	const fmtWhy = "the TDS_BLOB format is BlobType(1) [ClassIdLen(2) ClassId]; go-dblib reads an additional length byte before the blob type and counts it as -1 bytes, so that its length checks fail for every TDS_BLOB column"
	const dataWhy = "the high bit of a TDS_BLOB chunk length means that more chunks follow and the last chunk has it cleared; go-dblib stops at the first chunk length with the high bit set (without reading its data) and keeps reading chunks otherwise"

	type b struct {
		id   string
		desc string
		col  Col
		vals []tval
	}
	bs := []b{
		{"blob-char", "BLOB(TDS_BLOB_CHAR)", Col{Type: TDS_BLOB, BlobType: TDS_BLOB_CHAR}, []tval{
			tv("typ", []byte("character lob"), []byte("character lob")),
			{tag: "chunks", v: Val{Chunks: [][]byte{[]byte("abc"), []byte("defg"), {}, []byte("h")}}, want: []byte("abcdefgh")},
			tv("empty", []byte{}, []byte{}),
		}},
		{"blob-binary", "BLOB(TDS_BLOB_BINARY)", Col{Type: TDS_BLOB, BlobType: TDS_BLOB_BINARY}, []tval{
			tv("typ", []byte{1, 2, 3}, []byte{1, 2, 3}),
		}},
		{"blob-unichar", "BLOB(TDS_BLOB_UNICHAR)", Col{Type: TDS_BLOB, BlobType: TDS_BLOB_UNICHAR}, []tval{
			tv("typ", RawUniText("uni"), RawUniText("uni")),
			{tag: "utf8", v: Val{Serialization: 1, Raw: []byte("uni")}, want: []byte("uni")},
		}},
		{"blob-class", "BLOB(TDS_BLOB_FULLCLASSNAME java.lang.String)", Col{Type: TDS_BLOB, BlobType: TDS_BLOB_FULLCLASSNAME, ClassID: "java.lang.String"}, []tval{
			{tag: "typ", v: Val{SubClassID: "", Raw: []byte{0xac, 0xed, 0x00, 0x05}}, want: []byte{0xac, 0xed, 0x00, 0x05}},
			{tag: "subclass", v: Val{SubClassID: "my.Sub", Raw: []byte{0xac, 0xed}}, want: []byte{0xac, 0xed}},
		}},
		{"blob-locator", "BLOB(TDS_LOBLOC_CHAR)", Col{Type: TDS_BLOB, BlobType: TDS_LOBLOC_CHAR}, []tval{
			{tag: "typ", v: Val{Locator: "LOC0001", Raw: []byte{}}, want: []byte{}},
		}},
	}
	for _, x := range bs {
		wc := wideCol(x.col, x.id)
		z.put(true, Entry{Name: "rowfmt2/" + x.id, Kind: "ROWFMT2", Bytes: RowFmt(true, wc), Visible: true,
			Spec: fmt.Sprintf("ROWFMT2 %s %s -- DISPUTED: %s", wc.Name, x.desc, fmtWhy), Cols: []Col{wc}})
		nc := narrowCol(x.col, x.id)
		z.put(true, Entry{Name: "rowfmt/" + x.id, Kind: "ROWFMT", Bytes: RowFmt(false, nc), Visible: true,
			Spec: fmt.Sprintf("ROWFMT %s %s -- DISPUTED: %s (and TDS_ROWFMT length)", nc.Name, x.desc, fmtWhy), Cols: []Col{nc}})
		pc := paramCol(x.col, x.id)
		z.put(true, Entry{Name: "paramfmt/" + x.id, Kind: "PARAMFMT", Bytes: ParamFmt(false, pc), Visible: true,
			Spec: fmt.Sprintf("PARAMFMT %s %s -- DISPUTED: %s", pc.Name, x.desc, fmtWhy), Cols: []Col{pc}})
		for _, v := range x.vals {
			z.put(true, Entry{Name: "row/" + x.id + "/" + v.tag, Kind: "ROW", Needs: "rowfmt2/" + x.id,
				Bytes: Row([]Col{wc}, []Val{v.v}), Visible: true,
				Spec:   fmt.Sprintf("ROW %s=%s -- DISPUTED: %s; %s", x.desc, abbrev(v.want), fmtWhy, dataWhy),
				Cols:   []Col{wc},
				Values: []interface{}{v.want}})
		}
	}
}
