// Package peer is an independent encoder for the TDS 5.0 tokens a Sybase
// ASE server sends to a client. It deliberately imports nothing but the
// Go standard library so that it can serve as a reference against which
// the decoders of github.com/SAP/go-dblib/tds are checked.
//
// All multi-byte integers are little-endian (the byte order go-dblib
// announces in its login record), all strings are emitted as the raw
// bytes of the Go string.
package peer

import "encoding/binary"

// TDS 5.0 token values (names as in the TDS 5.0 functional
// specification).
const (
	TDS_CURDECLARE3  = 0x10
	TDS_PARAMFMT2    = 0x20
	TDS_LANGUAGE     = 0x21
	TDS_ORDERBY2     = 0x22
	TDS_ROWFMT2      = 0x61
	TDS_DYNAMIC2     = 0x62
	TDS_MSG          = 0x65
	TDS_LOGOUT       = 0x71
	TDS_RETURNSTATUS = 0x79
	TDS_CURINFO      = 0x83
	TDS_CURINFO2     = 0x87
	TDS_CURINFO3     = 0x88
	TDS_ORDERBY      = 0xA9
	TDS_ERROR        = 0xAA
	TDS_INFO         = 0xAB
	TDS_LOGINACK     = 0xAD
	TDS_ROW          = 0xD1
	TDS_PARAMS       = 0xD7
	TDS_CAPABILITY   = 0xE2
	TDS_ENVCHANGE    = 0xE3
	TDS_EED          = 0xE5
	TDS_DYNAMIC      = 0xE7
	TDS_PARAMFMT     = 0xEC
	TDS_ROWFMT       = 0xEE
	TDS_DONE         = 0xFD
	TDS_DONEPROC     = 0xFE
	TDS_DONEINPROC   = 0xFF
)

// TDS 5.0 data type codes.
const (
	TDS_VOID         = 0x1F
	TDS_IMAGE        = 0x22
	TDS_TEXT         = 0x23
	TDS_BLOB         = 0x24
	TDS_VARBINARY    = 0x25
	TDS_INTN         = 0x26
	TDS_VARCHAR      = 0x27
	TDS_BINARY       = 0x2D
	TDS_INTERVAL     = 0x2E
	TDS_CHAR         = 0x2F
	TDS_INT1         = 0x30
	TDS_DATE         = 0x31
	TDS_BIT          = 0x32
	TDS_TIME         = 0x33
	TDS_INT2         = 0x34
	TDS_INT4         = 0x38
	TDS_SHORTDATE    = 0x3A
	TDS_FLT4         = 0x3B
	TDS_MONEY        = 0x3C
	TDS_DATETIME     = 0x3D
	TDS_FLT8         = 0x3E
	TDS_UINT2        = 0x41
	TDS_UINT4        = 0x42
	TDS_UINT8        = 0x43
	TDS_UINTN        = 0x44
	TDS_SENSITIVITY  = 0x67
	TDS_BOUNDARY     = 0x68
	TDS_DECN         = 0x6A
	TDS_NUMN         = 0x6C
	TDS_FLTN         = 0x6D
	TDS_MONEYN       = 0x6E
	TDS_DATETIMEN    = 0x6F
	TDS_SHORTMONEY   = 0x7A
	TDS_DATEN        = 0x7B
	TDS_TIMEN        = 0x93
	TDS_XML          = 0xA3
	TDS_UNITEXT      = 0xAE
	TDS_LONGCHAR     = 0xAF
	TDS_SINT1        = 0xB0
	TDS_BIGDATETIMEN = 0xBB
	TDS_BIGTIMEN     = 0xBC
	TDS_INT8         = 0xBF
	TDS_LONGBINARY   = 0xE1
)

// TDS_DONE / TDS_DONEPROC / TDS_DONEINPROC status bits.
const (
	TDS_DONE_FINAL      = 0x00
	TDS_DONE_MORE       = 0x01
	TDS_DONE_ERROR      = 0x02
	TDS_DONE_INXACT     = 0x04
	TDS_DONE_PROC       = 0x08
	TDS_DONE_COUNT      = 0x10
	TDS_DONE_ATTN       = 0x20
	TDS_DONE_EVENT      = 0x40
	TDS_DONE_CUMULATIVE = 0x80
)

// Transaction states (TDS_DONE*, TDS_EED).
const (
	TDS_NOT_IN_TRAN      = 0
	TDS_TRAN_IN_PROGRESS = 1
	TDS_TRAN_COMPLETED   = 2
	TDS_TRAN_FAIL        = 3
	TDS_TRAN_STMT_FAIL   = 4
)

// TDS_EED status bits.
const (
	TDS_NO_EED      = 0x00
	TDS_EED_FOLLOWS = 0x01
	TDS_EED_INFO    = 0x02
)

// TDS_ENVCHANGE member types.
const (
	TDS_ENV_DB       = 1
	TDS_ENV_LANG     = 2
	TDS_ENV_CHARSET  = 3
	TDS_ENV_PACKSIZE = 4
)

// TDS_LOGINACK status values.
const (
	TDS_LOG_SUCCEED   = 5
	TDS_LOG_FAIL      = 6
	TDS_LOG_NEGOTIATE = 7
)

// TDS_CAPABILITY types.
const (
	TDS_CAP_REQUEST  = 1
	TDS_CAP_RESPONSE = 2
	TDS_CAP_SECURITY = 3
)

// TDS_MSG status values and a few message ids.
const (
	TDS_MSG_HASNOARGS = 0
	TDS_MSG_HASARGS   = 1

	TDS_MSG_SEC_ENCRYPT   = 1
	TDS_MSG_SEC_LOGPWD    = 2
	TDS_MSG_SEC_CHALLENGE = 4
	TDS_MSG_SEC_OPAQUE    = 11
	TDS_MSG_HAFAILOVER    = 12
	TDS_MSG_SEC_ENCRYPT2  = 14
	TDS_MSG_SEC_ENCRYPT3  = 30
	TDS_MSG_SEC_ENCRYPT4  = 35
)

// TDS_ROWFMT* / TDS_PARAMFMT* column status bits.
const (
	TDS_ROW_HIDDEN       = 0x01
	TDS_ROW_KEY          = 0x02
	TDS_ROW_VERSION      = 0x04
	TDS_ROW_COLUMNSTATUS = 0x08
	TDS_ROW_UPDATABLE    = 0x10
	TDS_ROW_NULLALLOWED  = 0x20
	TDS_ROW_IDENTITY     = 0x40
	TDS_ROW_PADCHAR      = 0x80

	TDS_PARAM_RETURN       = 0x01
	TDS_PARAM_COLUMNSTATUS = 0x08
	TDS_PARAM_NULLALLOWED  = 0x20
)

// Column status byte values in TDS_ROW / TDS_PARAMS (only present when
// the format has the COLUMNSTATUS bit).
const (
	TDS_DATA_NONNULL           = 0x00
	TDS_DATA_NULL              = 0x01
	TDS_DATA_ZEROLENGTHNONNULL = 0x02
)

// TDS_BLOB blob types.
const (
	TDS_BLOB_FULLCLASSNAME = 1
	TDS_BLOB_DBID_CLASSDEF = 2
	TDS_BLOB_CHAR          = 3
	TDS_BLOB_BINARY        = 4
	TDS_BLOB_UNICHAR       = 5
	TDS_LOBLOC_CHAR        = 6
	TDS_LOBLOC_BINARY      = 7
	TDS_LOBLOC_UNICHAR     = 8
)

// TDS_DYNAMIC operation types and status bits.
const (
	TDS_DYN_PREPARE    = 0x01
	TDS_DYN_EXEC       = 0x02
	TDS_DYN_DEALLOC    = 0x04
	TDS_DYN_EXEC_IMMED = 0x08
	TDS_DYN_PROCNAME   = 0x10
	TDS_DYN_ACK        = 0x20
	TDS_DYN_DESCIN     = 0x40
	TDS_DYN_DESCOUT    = 0x80

	TDS_DYNAMIC_HASARGS      = 0x01
	TDS_DYNAMIC_SUPPRESS_FMT = 0x02
)

// TDS_CURINFO commands and status bits.
const (
	TDS_CUR_CMD_SETCURROWS = 1
	TDS_CUR_CMD_INQUIRE    = 2
	TDS_CUR_CMD_INFORM     = 3
	TDS_CUR_CMD_LISTALL    = 4

	TDS_CUR_ISTAT_DECLARED   = 0x01
	TDS_CUR_ISTAT_OPEN       = 0x02
	TDS_CUR_ISTAT_CLOSED     = 0x04
	TDS_CUR_ISTAT_RDONLY     = 0x08
	TDS_CUR_ISTAT_UPDATABLE  = 0x10
	TDS_CUR_ISTAT_ROWCNT     = 0x20
	TDS_CUR_ISTAT_DEALLOC    = 0x40
	TDS_CUR_ISTAT_SCROLLABLE = 0x80
)

// buf is a tiny append-only little-endian byte writer.
type buf struct{ b []byte }

func (w *buf) u8(v uint8)   { w.b = append(w.b, v) }
func (w *buf) u16(v uint16) { w.b = binary.LittleEndian.AppendUint16(w.b, v) }
func (w *buf) u32(v uint32) { w.b = binary.LittleEndian.AppendUint32(w.b, v) }
func (w *buf) u64(v uint64) { w.b = binary.LittleEndian.AppendUint64(w.b, v) }
func (w *buf) raw(v []byte) { w.b = append(w.b, v...) }
func (w *buf) str(v string) { w.b = append(w.b, v...) }

// str8 writes a string preceded by a one-byte length.
func (w *buf) str8(v string) {
	w.u8(uint8(len(v)))
	w.str(v)
}

// str16 writes a string preceded by a two-byte length.
func (w *buf) str16(v string) {
	w.u16(uint16(len(v)))
	w.str(v)
}
