package peer

import (
	"fmt"
	"math"
	"strings"
	"time"
)

// Entry is one server-side package in wire form.
type Entry struct {
	Name    string // unique id, e.g. "row/int4/typ", "done/final", "eed/info"
	Kind    string // token family: "DONE", "EED", "ROWFMT2", "ROW", ...
	Needs   string // Name of the Entry that must have been delivered before this one ("" if none)
	Bytes   []byte // the complete encoding including the leading token byte
	Visible bool   // false for ENVCHANGE and for EED with the INFO status bit
	Spec    string // short human-readable description of the field values

	// Cols holds the column descriptions of format entries (ROWFMT,
	// ROWFMT2, PARAMFMT, PARAMFMT2) and, for ROW and PARAMS entries, of
	// the format the entry was built for.
	Cols []Col

	// Values holds the intended field values.
	//
	// For ROW and PARAMS entries: one Go value per column; nil for
	// NULL (and for zero length CHAR/BINARY family values, which TDS
	// cannot tell from NULL), uint8 for INT1, int16/int32/int64 for
	// INT2/4/8, uint16/uint32/uint64 for UINT2/4/8 (the N types follow
	// the value length), float32/float64, bool, string for CHAR,
	// VARCHAR and LONGCHAR, []byte for BINARY, VARBINARY, LONGBINARY,
	// TEXT, IMAGE, UNITEXT and XML (raw bytes), time.Time in UTC for
	// the date/time types (time-of-day types use the date 0001-01-01)
	// and Dec for DECN, NUMN, MONEY, SHORTMONEY and MONEYN.
	//
	// For all other kinds: the field values in the order of the
	// arguments of the builder function, e.g. uint16 status, uint16
	// tranState, int32 count for DONE; members of ENVCHANGE are
	// flattened to type, new, old triples; CAPABILITY holds the up to
	// three value masks as []byte (nil if absent).
	Values []interface{}
}

// Dec is the intended value of a decimal or money column: the unscaled
// integer value as decimal string plus precision and scale. Precision is
// zero for the money types.
type Dec struct {
	Unscaled  string
	Precision int
	Scale     int
}

type zooBuilder struct {
	list     []Entry
	disputed []Entry
	names    map[string]bool
}

func (z *zooBuilder) put(disputed bool, e Entry) {
	if z.names[e.Name] {
		panic("peer: duplicate zoo entry " + e.Name)
	}
	z.names[e.Name] = true
	if disputed {
		z.disputed = append(z.disputed, e)
	} else {
		z.list = append(z.list, e)
	}
}

// pkg adds an entry of a non-data kind.
func (z *zooBuilder) pkg(name, kind string, b []byte, spec string, values ...interface{}) {
	z.put(false, Entry{Name: name, Kind: kind, Bytes: b, Visible: true, Spec: spec, Values: values})
}

func abbrev(v interface{}) string {
	switch x := v.(type) {
	case nil:
		return "NULL"
	case string:
		if len(x) > 24 {
			return fmt.Sprintf("%q...(%d bytes)", x[:12], len(x))
		}
		return fmt.Sprintf("%q", x)
	case []byte:
		if len(x) > 12 {
			return fmt.Sprintf("0x%x...(%d bytes)", x[:8], len(x))
		}
		return fmt.Sprintf("0x%x", x)
	case time.Time:
		return x.Format("2006-01-02T15:04:05.000000")
	case Dec:
		return fmt.Sprintf("dec(%s p=%d s=%d)", x.Unscaled, x.Precision, x.Scale)
	}
	return fmt.Sprintf("%v", v)
}

// pattern returns n deterministic printable bytes.
func pattern(n int) string {
	const alphabet = "abcdefghijklmnopqrstuvwxyz0123456789 ABCDEFGHIJKLMNOPQRSTUVWXYZ"
	var sb strings.Builder
	for i := 0; i < n; i++ {
		sb.WriteByte(alphabet[(i*7+i/len(alphabet))%len(alphabet)])
	}
	return sb.String()
}

// binPattern returns n deterministic bytes covering all byte values.
func binPattern(n int) []byte {
	b := make([]byte, n)
	for i := range b {
		b[i] = byte(i*13 + 5)
	}
	return b
}

func utc(y, mo, d, h, mi, s, ns int) time.Time {
	return time.Date(y, time.Month(mo), d, h, mi, s, ns, time.UTC)
}

// Zoo returns the collection of reference encodings. Order and content
// are deterministic.
func Zoo() []Entry {
	z := buildZoo()
	return z.list
}

// ZooDisputed returns reference encodings that follow the TDS 5.0
// specification but that the decoders of go-dblib do not accept or
// cannot turn into a value.
func ZooDisputed() []Entry {
	z := buildZoo()
	return z.disputed
}

func buildZoo() *zooBuilder {
	z := &zooBuilder{names: map[string]bool{}}
	z.addDone()
	z.addEED()
	z.addError()
	z.addEnvChange()
	z.addLoginAck()
	z.addMsg()
	z.addCapability()
	z.addMisc()
	z.addTypes()
	z.addMulti()
	z.addBlob()
	z.addCursor() // zoo_cursor.go; new entries go after all existing ones
	return z
}

func (z *zooBuilder) addDone() {
	type d struct {
		tag    string
		status uint16
		tran   uint16
		count  int32
	}
	add := func(prefix, kind string, f func(uint16, uint16, int32) []byte, ds []d) {
		for _, x := range ds {
			z.pkg(prefix+"/"+x.tag, kind, f(x.status, x.tran, x.count),
				fmt.Sprintf("%s status=0x%02x tran=%d count=%d", kind, x.status, x.tran, x.count),
				x.status, x.tran, x.count)
		}
	}
	add("done", "DONE", Done, []d{
		{"final", TDS_DONE_FINAL, TDS_NOT_IN_TRAN, 0},
		{"more", TDS_DONE_MORE, TDS_NOT_IN_TRAN, 0},
		{"error", TDS_DONE_ERROR, TDS_TRAN_FAIL, 0},
		{"inxact", TDS_DONE_INXACT, TDS_TRAN_IN_PROGRESS, 0},
		{"proc", TDS_DONE_PROC, TDS_NOT_IN_TRAN, 0},
		{"count", TDS_DONE_COUNT, TDS_NOT_IN_TRAN, 7},
		{"attn", TDS_DONE_ATTN, TDS_NOT_IN_TRAN, 0},
		{"event", TDS_DONE_EVENT, TDS_NOT_IN_TRAN, 0},
		{"more+count", TDS_DONE_MORE | TDS_DONE_COUNT, TDS_NOT_IN_TRAN, 3},
		{"more+error+inxact", TDS_DONE_MORE | TDS_DONE_ERROR | TDS_DONE_INXACT, TDS_TRAN_STMT_FAIL, 0},
		{"inxact+count", TDS_DONE_INXACT | TDS_DONE_COUNT, TDS_TRAN_IN_PROGRESS, 1},
		{"count/max", TDS_DONE_COUNT, TDS_NOT_IN_TRAN, math.MaxInt32},
		{"count/negative", TDS_DONE_COUNT, TDS_NOT_IN_TRAN, -1},
		{"count+cumulative", TDS_DONE_COUNT | TDS_DONE_CUMULATIVE, TDS_NOT_IN_TRAN, 12},
		{"tran-completed", TDS_DONE_FINAL, TDS_TRAN_COMPLETED, 0},
	})
	add("doneproc", "DONEPROC", DoneProc, []d{
		{"final", TDS_DONE_FINAL, TDS_NOT_IN_TRAN, 0},
		{"more", TDS_DONE_MORE, TDS_NOT_IN_TRAN, 0},
		{"proc", TDS_DONE_PROC, TDS_NOT_IN_TRAN, 0},
		{"proc+count", TDS_DONE_PROC | TDS_DONE_COUNT, TDS_NOT_IN_TRAN, 5},
		{"error", TDS_DONE_ERROR | TDS_DONE_PROC, TDS_TRAN_FAIL, 0},
		{"more+count+inxact", TDS_DONE_MORE | TDS_DONE_COUNT | TDS_DONE_INXACT, TDS_TRAN_IN_PROGRESS, 2},
	})
	add("doneinproc", "DONEINPROC", DoneInProc, []d{
		{"final", TDS_DONE_FINAL, TDS_NOT_IN_TRAN, 0},
		{"count", TDS_DONE_COUNT, TDS_NOT_IN_TRAN, 1},
		{"more+count", TDS_DONE_MORE | TDS_DONE_COUNT, TDS_NOT_IN_TRAN, 250},
		{"error", TDS_DONE_ERROR, TDS_TRAN_STMT_FAIL, 0},
		{"event", TDS_DONE_EVENT | TDS_DONE_MORE, TDS_NOT_IN_TRAN, 0},
	})
}

func (z *zooBuilder) addEED() {
	type e struct {
		tag      string
		num      int32
		state    uint8
		class    uint8
		sqlState string
		status   uint8
		tran     uint16
		msg      string
		server   string
		proc     string
		line     uint16
	}
	es := []e{
		{"info", 5701, 2, 10, "ZZZZZ", TDS_EED_INFO, TDS_NOT_IN_TRAN, "Changed database context to 'master'.\n", "ASE160", "", 1},
		{"info/nosqlstate", 5703, 1, 10, "", TDS_EED_INFO, TDS_NOT_IN_TRAN, "Changed language setting to 'us_english'.\n", "ASE160", "", 0},
		{"info+follows", 3621, 0, 10, "01000", TDS_EED_INFO | TDS_EED_FOLLOWS, TDS_NOT_IN_TRAN, "Command has been aborted.\n", "ASE160", "", 1},
		{"error", 102, 181, 15, "42000", TDS_NO_EED, TDS_NOT_IN_TRAN, "Incorrect syntax near 'frm'.\n", "ASE160", "", 1},
		{"error/nosqlstate", 208, 1, 16, "", TDS_NO_EED, TDS_NOT_IN_TRAN, "nosuchtable not found. Specify owner.objectname or use sp_help to check whether the object exists (sp_help may produce lots of output).\n", "ASE160", "", 1},
		{"error/emptymsg", 50000, 0, 16, "ZZZZZ", TDS_NO_EED, TDS_NOT_IN_TRAN, "", "", "", 0},
		{"error/emptymsg/nosqlstate", 50001, 0, 16, "", TDS_NO_EED, TDS_NOT_IN_TRAN, "", "", "", 0},
		{"error/longmsg", 20001, 1, 16, "ZZZZZ", TDS_NO_EED, TDS_TRAN_FAIL, pattern(600), "ASE160", "", 17},
		{"error/proc", 2601, 6, 14, "23000", TDS_NO_EED, TDS_TRAN_STMT_FAIL, "Attempt to insert duplicate key row in object 't' with unique index 'pk'\n", "ASE160", "sp_insert_t", 42},
		{"error/follows", 547, 1, 16, "23000", TDS_EED_FOLLOWS, TDS_TRAN_IN_PROGRESS, "Foreign key constraint violation occurred, dbname = 'pubs2', table name = 'titles'.\n", "ASE160", "", 1},
		{"error/maxnames", 1205, 2, 13, "40001", TDS_NO_EED, TDS_TRAN_FAIL, "deadlock", pattern(255), pattern(255), 65535},
		{"error/highnum", math.MaxInt32, 255, 255, "ZZZZZ", TDS_NO_EED, TDS_NOT_IN_TRAN, "x", "s", "p", 1},
		{"error/multiline", 7412, 3, 10, "", TDS_NO_EED, TDS_NOT_IN_TRAN, "line one\nline two\n", "ASE160", "", 2},
	}
	for _, x := range es {
		ent := Entry{
			Name:    "eed/" + x.tag,
			Kind:    "EED",
			Bytes:   EED(x.num, x.state, x.class, x.sqlState, x.status, x.tran, x.msg, x.server, x.proc, x.line),
			Visible: x.status&TDS_EED_INFO == 0,
			Spec: fmt.Sprintf("EED num=%d state=%d class=%d sqlstate=%q status=0x%02x tran=%d msg=%s server=%s proc=%s line=%d",
				x.num, x.state, x.class, x.sqlState, x.status, x.tran, abbrev(x.msg), abbrev(x.server), abbrev(x.proc), x.line),
			Values: []interface{}{x.num, x.state, x.class, x.sqlState, x.status, x.tran, x.msg, x.server, x.proc, x.line},
		}
		z.put(false, ent)
	}
}

// addError adds classic TDS_ERROR tokens. All of them are disputed:
// go-dblib's decoder does not read the State and Class bytes.
func (z *zooBuilder) addError() {
	type e struct {
		tag    string
		num    int32
		state  uint8
		class  uint8
		msg    string
		server string
		proc   string
		line   uint16
	}
	es := []e{
		{"typ", 102, 1, 15, "Incorrect syntax near 'frm'.\n", "ASE160", "", 1},
		{"proc", 2601, 6, 14, "Attempt to insert duplicate key row\n", "ASE160", "sp_insert_t", 42},
		{"emptymsg", 50000, 0, 0, "", "", "", 0},
		{"longmsg", 20001, 1, 16, pattern(400), "ASE160", "", 3},
	}
	for _, x := range es {
		z.put(true, Entry{
			Name:    "error/" + x.tag,
			Kind:    "ERROR",
			Bytes:   ErrorPkg(x.num, x.state, x.class, x.msg, x.server, x.proc, x.line),
			Visible: true,
			Spec: fmt.Sprintf("ERROR num=%d state=%d class=%d msg=%s server=%s proc=%s line=%d",
				x.num, x.state, x.class, abbrev(x.msg), abbrev(x.server), abbrev(x.proc), x.line),
			Values: []interface{}{x.num, x.state, x.class, x.msg, x.server, x.proc, x.line},
		})
	}
}

func (z *zooBuilder) addEnvChange() {
	db := EnvMember{TDS_ENV_DB, "pubs2", "master"}
	lang := EnvMember{TDS_ENV_LANG, "us_english", ""}
	charset := EnvMember{TDS_ENV_CHARSET, "utf8", "iso_1"}
	packsize := EnvMember{TDS_ENV_PACKSIZE, "2048", "512"}
	type e struct {
		tag     string
		members []EnvMember
	}
	es := []e{
		{"none", nil},
		{"db", []EnvMember{db}},
		{"lang", []EnvMember{lang}},
		{"charset", []EnvMember{charset}},
		{"packsize", []EnvMember{packsize}},
		{"db/noold", []EnvMember{{TDS_ENV_DB, "tempdb", ""}}},
		{"db/empty", []EnvMember{{TDS_ENV_DB, "", ""}}},
		{"db/maxlen", []EnvMember{{TDS_ENV_DB, pattern(255), pattern(255)}}},
		{"three", []EnvMember{db, lang, charset}},
		{"four", []EnvMember{db, lang, charset, packsize}},
	}
	for _, x := range es {
		var specs []string
		var values []interface{}
		for _, m := range x.members {
			specs = append(specs, fmt.Sprintf("{type=%d new=%s old=%s}", m.Type, abbrev(m.New), abbrev(m.Old)))
			values = append(values, m.Type, m.New, m.Old)
		}
		z.put(false, Entry{
			Name:    "envchange/" + x.tag,
			Kind:    "ENVCHANGE",
			Bytes:   EnvChange(x.members...),
			Visible: false,
			Spec:    fmt.Sprintf("ENVCHANGE members=%d %s", len(x.members), strings.Join(specs, " ")),
			Values:  values,
		})
	}
}

func (z *zooBuilder) addLoginAck() {
	type e struct {
		tag     string
		status  uint8
		tdsVers [4]byte
		name    string
		vers    [4]byte
	}
	es := []e{
		{"succeed", TDS_LOG_SUCCEED, [4]byte{5, 0, 0, 0}, "Adaptive Server Enterprise", [4]byte{16, 0, 0, 4}},
		{"fail", TDS_LOG_FAIL, [4]byte{5, 0, 0, 0}, "Adaptive Server Enterprise", [4]byte{16, 0, 0, 4}},
		{"negotiate", TDS_LOG_NEGOTIATE, [4]byte{5, 0, 0, 0}, "Adaptive Server Enterprise", [4]byte{16, 0, 0, 4}},
		{"succeed/sqlserver", TDS_LOG_SUCCEED, [4]byte{5, 0, 0, 0}, "sql server", [4]byte{12, 5, 4, 0}},
		{"succeed/noname", TDS_LOG_SUCCEED, [4]byte{5, 0, 0, 0}, "", [4]byte{0, 0, 0, 0}},
		{"succeed/tds42", TDS_LOG_SUCCEED, [4]byte{4, 2, 0, 0}, "OpenServer", [4]byte{255, 254, 253, 252}},
	}
	for _, x := range es {
		z.pkg("loginack/"+x.tag, "LOGINACK", LoginAck(x.status, x.tdsVers, x.name, x.vers),
			fmt.Sprintf("LOGINACK status=%d tds=%v name=%q version=%v", x.status, x.tdsVers, x.name, x.vers),
			x.status, x.tdsVers, x.name, x.vers)
	}
}

func (z *zooBuilder) addMsg() {
	type e struct {
		tag    string
		status uint8
		id     uint16
	}
	es := []e{
		{"sec-encrypt", TDS_MSG_HASARGS, TDS_MSG_SEC_ENCRYPT},
		{"sec-challenge", TDS_MSG_HASARGS, TDS_MSG_SEC_CHALLENGE},
		{"sec-opaque", TDS_MSG_HASARGS, TDS_MSG_SEC_OPAQUE},
		{"hafailover", TDS_MSG_HASNOARGS, TDS_MSG_HAFAILOVER},
		{"sec-encrypt3", TDS_MSG_HASARGS, TDS_MSG_SEC_ENCRYPT3},
		{"sec-encrypt4", TDS_MSG_HASARGS, TDS_MSG_SEC_ENCRYPT4},
		{"user-defined", TDS_MSG_HASNOARGS, 32768},
		{"id-max", TDS_MSG_HASARGS, 65535},
	}
	for _, x := range es {
		z.pkg("msg/"+x.tag, "MSG", Msg(x.status, x.id),
			fmt.Sprintf("MSG status=%d id=%d", x.status, x.id), x.status, x.id)
	}
}

func (z *zooBuilder) addCapability() {
	// A typical ASE 16 answer: 14 byte request mask, 14 byte response
	// mask.
	req := CapMask(14, 1, 2, 3, 4, 5, 6, 7, 8, 9, 10, 11, 12, 13, 14, 15, 16, 17, 18, 19, 20, 21, 22, 23,
		24, 25, 26, 27, 28, 29, 30, 31, 32, 42, 43, 47, 48, 49, 51, 58, 59, 61, 62, 63, 64, 71, 72, 80, 85, 93, 94, 108)
	resp := CapMask(14, 2, 33, 40, 53, 64, 66)
	type e struct {
		tag            string
		req, resp, sec []byte
	}
	es := []e{
		{"typ", req, resp, nil},
		{"short", CapMask(2, 1, 9), CapMask(1, 1), nil},
		{"none", nil, nil, nil},
		{"req-only", CapMask(3, 1, 12, 20), nil, nil},
		{"zero-length-masks", []byte{}, []byte{}, nil},
		{"all-ones", []byte{0xff, 0xff, 0xff, 0xff, 0xff, 0xff, 0xff, 0xff, 0xff, 0xff, 0xff, 0xff, 0xff, 0xfe}, []byte{0xff, 0xff, 0xfe}, nil},
		{"security", req, resp, CapMask(1, 1, 2)},
	}
	for _, x := range es {
		z.pkg("capability/"+x.tag, "CAPABILITY", CapabilityFull(x.req, x.resp, x.sec),
			fmt.Sprintf("CAPABILITY req=%x resp=%x sec=%x", x.req, x.resp, x.sec),
			x.req, x.resp, x.sec)
	}
}

// multiCols is the column set of "rowfmt2/multi"; it is also used by
// the ORDERBY entries.
func multiCols() []Col {
	return []Col{
		{Name: "id", Type: TDS_INT4, Status: TDS_ROW_KEY | TDS_ROW_IDENTITY, Label: "id", Catalogue: "pubs2", Schema: "dbo", Table: "titles"},
		{Name: "title", Type: TDS_VARCHAR, MaxLen: 80, Status: TDS_ROW_UPDATABLE | TDS_ROW_NULLALLOWED, Label: "title", Catalogue: "pubs2", Schema: "dbo", Table: "titles"},
		{Name: "price", Type: TDS_MONEYN, MaxLen: 8, Status: TDS_ROW_UPDATABLE | TDS_ROW_NULLALLOWED, Label: "price", Catalogue: "pubs2", Schema: "dbo", Table: "titles"},
		{Name: "pubdate", Type: TDS_DATETIMEN, MaxLen: 8, Status: TDS_ROW_UPDATABLE | TDS_ROW_NULLALLOWED, Label: "pubdate", Catalogue: "pubs2", Schema: "dbo", Table: "titles"},
		{Name: "contract", Type: TDS_BIT, Status: TDS_ROW_UPDATABLE, Label: "contract", Catalogue: "pubs2", Schema: "dbo", Table: "titles"},
		{Name: "hash", Type: TDS_VARBINARY, MaxLen: 16, Status: TDS_ROW_NULLALLOWED, Label: "hash", Catalogue: "pubs2", Schema: "dbo", Table: "titles"},
		{Name: "notes", Type: TDS_TEXT, MaxLen: 32768, ObjName: "pubs2.dbo.titles", Status: TDS_ROW_NULLALLOWED, Label: "notes", Catalogue: "pubs2", Schema: "dbo", Table: "titles"},
	}
}

func (z *zooBuilder) addMisc() {
	for _, v := range []int32{0, 1, -6, math.MaxInt32, math.MinInt32} {
		z.pkg(fmt.Sprintf("returnstatus/%d", v), "RETURNSTATUS", ReturnStatus(v),
			fmt.Sprintf("RETURNSTATUS value=%d", v), v)
	}

	// ORDERBY/ORDERBY2 follow a row format.
	z.put(false, Entry{Name: "rowfmt2/multi", Kind: "ROWFMT2", Bytes: RowFmt(true, multiCols()...), Visible: true,
		Spec: "ROWFMT2 id INT4, title VARCHAR(80), price MONEYN(8), pubdate DATETIMEN(8), contract BIT, hash VARBINARY(16), notes TEXT", Cols: multiCols()})
	for _, cols := range [][]uint8{{}, {1}, {3, 1, 2}, {7, 6, 5, 4, 3, 2, 1}} {
		tag := fmt.Sprintf("%d", len(cols))
		vals := make([]interface{}, len(cols))
		for i, c := range cols {
			vals[i] = c
		}
		z.put(false, Entry{Name: "orderby/" + tag, Kind: "ORDERBY", Needs: "rowfmt2/multi", Bytes: OrderBy(cols...), Visible: true,
			Spec: fmt.Sprintf("ORDERBY cols=%v", cols), Values: vals})
	}
	many := make([]uint16, 40)
	for i := range many {
		many[i] = uint16(300 + i)
	}
	for _, cols := range [][]uint16{{}, {1}, {3, 1, 2}, many} {
		tag := fmt.Sprintf("%d", len(cols))
		vals := make([]interface{}, len(cols))
		for i, c := range cols {
			vals[i] = c
		}
		z.put(false, Entry{Name: "orderby2/" + tag, Kind: "ORDERBY2", Needs: "rowfmt2/multi", Bytes: OrderBy2(cols...), Visible: true,
			Spec: fmt.Sprintf("ORDERBY2 cols=%v", cols), Values: vals})
	}

	type dyn struct {
		tag    string
		wide   bool
		typ    uint8
		status uint8
		id     string
		stmt   string
	}
	for _, x := range []dyn{
		{"ack", false, TDS_DYN_ACK, 0, "stmt1", ""},
		{"ack/hasargs", false, TDS_DYN_ACK, TDS_DYNAMIC_HASARGS, "stmt1", ""},
		{"ack/emptyid", false, TDS_DYN_ACK, 0, "", ""},
		{"ack/maxid", false, TDS_DYN_ACK, 0, pattern(255), ""},
		{"prepare", false, TDS_DYN_PREPARE, 0, "stmt1", "create proc stmt1 as select * from t where a = ?"},
		{"exec-immed", false, TDS_DYN_EXEC_IMMED, 0, "", "delete from t"},
		{"exec", false, TDS_DYN_EXEC, TDS_DYNAMIC_HASARGS, "stmt1", ""},
		{"dealloc", false, TDS_DYN_DEALLOC, 0, "stmt1", ""},
	} {
		z.pkg("dynamic/"+x.tag, "DYNAMIC", Dynamic(x.wide, x.typ, x.status, x.id, x.stmt),
			fmt.Sprintf("DYNAMIC type=0x%02x status=0x%02x id=%s stmt=%s", x.typ, x.status, abbrev(x.id), abbrev(x.stmt)),
			x.wide, x.typ, x.status, x.id, x.stmt)
	}
	for _, x := range []dyn{
		{"ack", true, TDS_DYN_ACK, 0, "stmt2", ""},
		{"ack/suppressfmt", true, TDS_DYN_ACK, TDS_DYNAMIC_SUPPRESS_FMT, "stmt2", ""},
		{"prepare", true, TDS_DYN_PREPARE, 0, "stmt2", "create proc stmt2 as " + pattern(400)},
		{"dealloc", true, TDS_DYN_DEALLOC, 0, "stmt2", ""},
	} {
		z.pkg("dynamic2/"+x.tag, "DYNAMIC2", Dynamic(x.wide, x.typ, x.status, x.id, x.stmt),
			fmt.Sprintf("DYNAMIC2 type=0x%02x status=0x%02x id=%s stmt=%s", x.typ, x.status, abbrev(x.id), abbrev(x.stmt)),
			x.wide, x.typ, x.status, x.id, x.stmt)
	}

	type cur struct {
		tag       string
		id        int32
		name      string
		cmd       uint8
		status    uint32
		rowNum    int32
		totalRows int32
		rowCount  int32
	}
	curs := []cur{
		{"declared", 1, "", TDS_CUR_CMD_INFORM, TDS_CUR_ISTAT_DECLARED, 0, 0, 0},
		{"open", 1, "", TDS_CUR_CMD_INFORM, TDS_CUR_ISTAT_OPEN | TDS_CUR_ISTAT_RDONLY, 0, -1, 0},
		{"open+rowcnt", 65537, "", TDS_CUR_CMD_INFORM, TDS_CUR_ISTAT_OPEN | TDS_CUR_ISTAT_UPDATABLE | TDS_CUR_ISTAT_ROWCNT, 3, 100, 10},
		{"closed", 1, "", TDS_CUR_CMD_INFORM, TDS_CUR_ISTAT_CLOSED, 0, 0, 0},
		{"named", 0, "authors_crsr", TDS_CUR_CMD_INQUIRE, TDS_CUR_ISTAT_DECLARED, 0, 0, 0},
		{"named+rowcnt", 0, "c", TDS_CUR_CMD_SETCURROWS, TDS_CUR_ISTAT_ROWCNT, 0, 0, 25},
	}
	for _, x := range curs {
		z.pkg("curinfo/"+x.tag, "CURINFO", CurInfo(false, x.id, x.name, x.cmd, x.status, x.rowNum, x.totalRows, x.rowCount),
			fmt.Sprintf("CURINFO id=%d name=%q cmd=%d status=0x%04x rowcount=%d", x.id, x.name, x.cmd, x.status, x.rowCount),
			false, x.id, x.name, x.cmd, x.status, x.rowNum, x.totalRows, x.rowCount)
	}
	for _, x := range curs {
		z.pkg("curinfo3/"+x.tag, "CURINFO3", CurInfo(true, x.id, x.name, x.cmd, x.status, x.rowNum, x.totalRows, x.rowCount),
			fmt.Sprintf("CURINFO3 id=%d name=%q cmd=%d status=0x%08x rownum=%d totalrows=%d rowcount=%d", x.id, x.name, x.cmd, x.status, x.rowNum, x.totalRows, x.rowCount),
			true, x.id, x.name, x.cmd, x.status, x.rowNum, x.totalRows, x.rowCount)
	}
	z.pkg("curinfo3/scrollable", "CURINFO3", CurInfo(true, 7, "", TDS_CUR_CMD_INFORM, 0x400|TDS_CUR_ISTAT_SCROLLABLE|TDS_CUR_ISTAT_OPEN, 12, 1000, 0),
		"CURINFO3 id=7 name=\"\" cmd=3 status=0x00000482 rownum=12 totalrows=1000 rowcount=0",
		true, int32(7), "", uint8(TDS_CUR_CMD_INFORM), uint32(0x482), int32(12), int32(1000), int32(0))

	type lang struct {
		tag    string
		status uint8
		query  string
	}
	for _, x := range []lang{
		{"select", 0, "select * from sysobjects"},
		{"hasargs", 1, "select @a"},
		{"empty", 0, ""},
		{"long", 0, "select '" + pattern(500) + "'"},
	} {
		z.pkg("language/"+x.tag, "LANGUAGE", Language(x.status, x.query),
			fmt.Sprintf("LANGUAGE status=%d query=%s", x.status, abbrev(x.query)), x.status, x.query)
	}
	z.pkg("logout/0", "LOGOUT", Logout(0), "LOGOUT options=0", uint8(0))
}
