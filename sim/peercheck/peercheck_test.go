// Package peercheck validates the independent TDS encoder in package
// peer against the decoders of github.com/SAP/go-dblib/tds.
//
// It is a development-time gate: every entry of peer.Zoo() must be
// decoded by the library completely and to the intended values, every
// entry of peer.ZooDisputed() must (still) not be.
package peercheck

import (
	"bytes"
	"fmt"
	"reflect"
	"sort"
	"strings"
	"testing"
	"time"

	"github.com/SAP/go-dblib/asetypes"
	"github.com/SAP/go-dblib/tds"
	"github.com/SAP/go-dblib/zz_verif/peer"
)

// decode feeds b to the library the way Channel.tryParsePackage does.
func decode(b []byte, last tds.Package) (pkg tds.Package, err error) {
	defer func() {
		if r := recover(); r != nil {
			err = fmt.Errorf("decoder panicked: %v", r)
		}
	}()

	queue := tds.NewPacketQueue(func() int { return 65535 })
	queue.AddPacket(&tds.Packet{
		Header: tds.PacketHeader{Length: uint16(8 + len(b)), Status: tds.TDS_BUFSTAT_EOM},
		Data:   b,
	})

	tok, err := queue.Byte()
	if err != nil {
		return nil, fmt.Errorf("reading token: %w", err)
	}

	pkg, err = tds.LookupPackage(tds.Token(tok))
	if err != nil {
		return nil, fmt.Errorf("LookupPackage: %w", err)
	}
	if _, ok := pkg.(*tds.TokenlessPackage); ok {
		return nil, fmt.Errorf("no decoder for token 0x%02x", tok)
	}

	if acceptor, ok := pkg.(tds.LastPkgAcceptor); ok {
		if err := acceptor.LastPkg(last); err != nil {
			return nil, fmt.Errorf("LastPkg: %w", err)
		}
	}

	if err := pkg.ReadFrom(queue); err != nil {
		return nil, fmt.Errorf("ReadFrom: %w", err)
	}

	if !queue.IsEOM() || !queue.AllPacketsConsumed() {
		rest := 0
		for {
			if _, err := queue.Byte(); err != nil {
				break
			}
			rest++
		}
		return pkg, fmt.Errorf("%d of %d bytes were not consumed", rest, len(b))
	}

	return pkg, nil
}

type index map[string]peer.Entry

func makeIndex(lists ...[]peer.Entry) index {
	idx := index{}
	for _, l := range lists {
		for _, e := range l {
			idx[e.Name] = e
		}
	}
	return idx
}

// decodeEntry decodes the entry after its Needs entry and checks the
// decoded values.
func decodeEntry(idx index, e peer.Entry) error {
	var last tds.Package
	if e.Needs != "" {
		need, ok := idx[e.Needs]
		if !ok {
			return fmt.Errorf("needs unknown entry %q", e.Needs)
		}
		var err error
		last, err = decode(need.Bytes, nil)
		if err != nil {
			return fmt.Errorf("needed entry %s: %w", need.Name, err)
		}
	}

	pkg, err := decode(e.Bytes, last)
	if err != nil {
		return err
	}

	return check(e, pkg)
}

func check(e peer.Entry, pkg tds.Package) (err error) {
	defer func() {
		if r := recover(); r != nil {
			err = fmt.Errorf("check panicked: %v", r)
		}
	}()

	var errs []string
	eq := func(what string, got, want interface{}) {
		if !reflect.DeepEqual(got, want) {
			errs = append(errs, fmt.Sprintf("%s: got %#v, want %#v", what, got, want))
		}
	}
	v := e.Values

	switch e.Kind {
	case "DONE", "DONEPROC", "DONEINPROC":
		p := pkg.(*tds.DonePackage)
		eq("status", uint16(p.Status), v[0])
		eq("tranState", uint16(p.TranState), v[1])
		eq("count", p.Count, v[2])
	case "EED":
		p := pkg.(*tds.EEDPackage)
		eq("msgNumber", p.MsgNumber, uint32(v[0].(int32)))
		eq("state", p.State, v[1])
		eq("class", p.Class, v[2])
		eq("sqlState", string(p.SQLState), v[3])
		eq("status", uint8(p.Status), v[4])
		eq("tranState", p.TranState, v[5])
		// The library strips one trailing newline.
		eq("msg", p.Msg, strings.TrimSuffix(v[6].(string), "\n"))
		eq("server", p.ServerName, v[7])
		eq("proc", p.ProcName, v[8])
		eq("line", p.LineNr, v[9])
	case "ERROR":
		p := pkg.(*tds.ErrorPackage)
		eq("msgNumber", p.ErrorNumber, v[0])
		eq("state", p.State, v[1])
		eq("class", p.Class, v[2])
		eq("msg", p.ErrorMsg, v[3])
		eq("server", p.ServerName, v[4])
		eq("proc", p.ProcName, v[5])
		eq("line", p.LineNr, v[6])
	case "ENVCHANGE":
		members := reflect.ValueOf(pkg).Elem().FieldByName("members")
		eq("member count", members.Len(), len(v)/3)
		for i := 0; i < members.Len() && i < len(v)/3; i++ {
			m := members.Index(i)
			eq(fmt.Sprintf("member %d type", i), uint8(m.FieldByName("Type").Uint()), v[3*i])
			eq(fmt.Sprintf("member %d new", i), m.FieldByName("NewValue").String(), v[3*i+1])
			eq(fmt.Sprintf("member %d old", i), m.FieldByName("OldValue").String(), v[3*i+2])
		}
	case "LOGINACK":
		p := pkg.(*tds.LoginAckPackage)
		tdsVers, progVers := v[1].([4]byte), v[3].([4]byte)
		eq("length", int(p.Length), len(e.Bytes)-3)
		eq("status", uint8(p.Status), v[0])
		eq("tdsVersion", p.Version.Bytes(), tdsVers[:])
		eq("nameLength", int(p.NameLength), len(v[2].(string)))
		eq("progName", p.ProgramName, v[2])
		eq("progVersion", p.ProgramVersion.Bytes(), progVers[:])
	case "MSG":
		p := pkg.(*tds.MsgPackage)
		eq("status", uint8(p.Status), v[0])
		eq("msgId", uint16(p.MsgId), v[1])
	case "CAPABILITY":
		p := pkg.(*tds.CapabilityPackage)
		for i, typ := range []tds.CapabilityType{tds.CapabilityRequest, tds.CapabilityResponse, tds.CapabilitySecurity} {
			mask := v[i].([]byte)
			for c := 0; c < 128; c++ {
				want := false
				if c/8 < len(mask) {
					want = mask[len(mask)-1-c/8]&(1<<uint(c%8)) != 0
				}
				if got := p.HasCapability(typ, c); got != want {
					errs = append(errs, fmt.Sprintf("capability type %d nr %d: got %v, want %v", typ, c, got, want))
				}
			}
		}
	case "RETURNSTATUS":
		eq("value", pkg.(*tds.ReturnStatusPackage).ReturnValue, v[0])
	case "ORDERBY":
		p := pkg.(*tds.OrderByPackage)
		want := make([]int, len(v))
		for i := range v {
			want[i] = int(v[i].(uint8))
		}
		eq("columns", p.ColumnOrder, want)
	case "ORDERBY2":
		p := pkg.(*tds.OrderBy2Package)
		want := make([]int, len(v))
		for i := range v {
			want[i] = int(v[i].(uint16))
		}
		eq("columns", p.ColumnOrder, want)
	case "DYNAMIC", "DYNAMIC2":
		p := pkg.(*tds.DynamicPackage)
		typ := v[1].(uint8)
		eq("type", uint8(p.Type), typ)
		eq("status", uint8(p.Status), v[2])
		eq("id", p.ID, v[3])
		if typ&(peer.TDS_DYN_PREPARE|peer.TDS_DYN_EXEC_IMMED) != 0 {
			eq("stmt", p.Stmt, v[4])
		} else {
			eq("stmt", p.Stmt, "")
		}
	case "CURINFO", "CURINFO3":
		p := pkg.(*tds.CurInfoPackage)
		wide := v[0].(bool)
		id, status := v[1].(int32), v[4].(uint32)
		eq("cursorID", p.CursorID, id)
		if id == 0 {
			eq("name", p.Name, v[2])
		} else {
			eq("name", p.Name, "")
		}
		eq("command", uint8(p.Command), v[3])
		eq("status", uint32(p.Status), status)
		if wide {
			eq("rowNum", p.RowNum, v[5])
			eq("totalRows", p.TotalRows, v[6])
		}
		if status&peer.TDS_CUR_ISTAT_ROWCNT != 0 {
			eq("rowCount", p.RowCount, v[7])
		} else {
			eq("rowCount", p.RowCount, int32(0))
		}
	case "CURDECLARE", "CURDECLARE3":
		p := pkg.(*tds.CurDeclarePackage)
		eq("wide", reflect.ValueOf(pkg).Elem().FieldByName("wide").Bool(), v[0])
		eq("name", p.Name, v[1])
		eq("options", uint32(p.Options), v[2])
		eq("status", uint8(p.Status), v[3])
		eq("stmt", p.Stmt, v[4])
		columns := reflect.ValueOf(pkg).Elem().FieldByName("columns")
		got := []string{}
		for i := 0; i < columns.Len(); i++ {
			got = append(got, columns.Index(i).String())
		}
		eq("columns", got, v[5])
	case "CUROPEN":
		p := pkg.(*tds.CurOpenPackage)
		eq("cursorID", p.CursorID, v[0])
		eq("name", p.Name, cursorName(v))
		eq("status", uint8(p.Status), v[2])
	case "CURFETCH":
		p := pkg.(*tds.CurFetchPackage)
		eq("cursorID", p.CursorID, v[0])
		eq("name", p.Name, cursorName(v))
		eq("type", uint8(p.Type), v[2])
		// Entries of fetch types without a row number hold 0.
		eq("rowNumber", p.RowNumber, v[3])
	case "CURUPDATE":
		p := pkg.(*tds.CurUpdatePackage)
		eq("cursorID", p.CursorID, v[0])
		eq("name", p.Name, cursorName(v))
		eq("status", uint8(p.Status), v[2])
		eq("table", p.TableName, v[3])
		eq("stmt", p.Stmt, v[4])
	case "CURDELETE":
		p := pkg.(*tds.CurDeletePackage)
		eq("cursorID", p.CursorID, v[0])
		eq("name", p.Name, cursorName(v))
		eq("status", uint8(p.Status), v[2])
		eq("table", p.TableName, v[3])
	case "CURCLOSE":
		p := pkg.(*tds.CurClosePackage)
		eq("cursorID", p.CursorID, v[0])
		eq("name", p.Name, cursorName(v))
		eq("options", uint8(p.Options), v[2])
	case "OPTIONCMD":
		p := pkg.(*tds.OptionCmdPackage)
		eq("cmd", uint8(p.Cmd), v[0])
		eq("option", uint8(p.Option), v[1])
		eq("arg", append([]byte{}, p.OptionArg...), v[2])
	case "LANGUAGE":
		p := pkg.(*tds.LanguagePackage)
		eq("status", uint8(p.Status), v[0])
		eq("query", p.Cmd, v[1])
	case "LOGOUT":
		eq("options", pkg.(*tds.LogoutPackage).Options, v[0])
	case "ROWFMT", "ROWFMT2":
		errs = append(errs, checkFmts(pkg.(*tds.RowFmtPackage).Fmts, e.Cols, e.Kind == "ROWFMT2")...)
	case "PARAMFMT", "PARAMFMT2":
		errs = append(errs, checkFmts(pkg.(*tds.ParamFmtPackage).Fmts, e.Cols, false)...)
	case "ROW", "PARAMS":
		var fields []tds.FieldData
		switch p := pkg.(type) {
		case *tds.RowPackage:
			fields = p.DataFields
		case *tds.ParamsPackage:
			fields = p.DataFields
		}
		eq("field count", len(fields), len(v))
		for i := 0; i < len(fields) && i < len(v); i++ {
			if msg := sameValue(fields[i].Value(), v[i], e.Cols[i].Type); msg != "" {
				errs = append(errs, fmt.Sprintf("field %d (%s): %s", i, fields[i].Format().DataType(), msg))
			}
		}
	default:
		errs = append(errs, "no check for kind "+e.Kind)
	}

	if len(errs) > 0 {
		return fmt.Errorf("decoded values differ: %s", strings.Join(errs, "; "))
	}
	return nil
}

// cursorName returns the name the cursor command tokens transmit: v[1],
// but only when the cursor id v[0] is 0.
func cursorName(v []interface{}) interface{} {
	if v[0] == int32(0) {
		return v[1]
	}
	return ""
}

// decodeAs feeds b to pkg although LookupPackage would not choose it.
func decodeAs(pkg tds.Package, b []byte) error {
	queue := tds.NewPacketQueue(func() int { return 65535 })
	queue.AddPacket(&tds.Packet{
		Header: tds.PacketHeader{Length: uint16(8 + len(b)), Status: tds.TDS_BUFSTAT_EOM},
		Data:   b,
	})
	if _, err := queue.Byte(); err != nil {
		return fmt.Errorf("reading token: %w", err)
	}
	if err := pkg.ReadFrom(queue); err != nil {
		return fmt.Errorf("ReadFrom: %w", err)
	}
	if !queue.IsEOM() || !queue.AllPacketsConsumed() {
		return fmt.Errorf("not all of %d bytes were consumed", len(b))
	}
	return nil
}

func checkFmts(fmts []tds.FieldFmt, cols []peer.Col, wideRow bool) []string {
	var errs []string
	eq := func(i int, what string, got, want interface{}) {
		if !reflect.DeepEqual(got, want) {
			errs = append(errs, fmt.Sprintf("column %d %s: got %#v, want %#v", i, what, got, want))
		}
	}
	if len(fmts) != len(cols) {
		return []string{fmt.Sprintf("got %d columns, want %d", len(fmts), len(cols))}
	}
	for i, f := range fmts {
		c := cols[i]
		eq(i, "type", uint8(f.DataType()), c.Type)
		eq(i, "name", f.Name(), c.Name)
		eq(i, "status", uint32(f.Status()), c.Status)
		eq(i, "usertype", f.UserType(), c.UserType)
		eq(i, "locale", f.LocaleInfo(), c.Locale)
		if n := peer.FixedSize(c.Type); n != 0 {
			eq(i, "fixed length", f.MaxLength(), int64(n))
		} else if c.Type != peer.TDS_BLOB {
			eq(i, "max length", f.MaxLength(), c.MaxLen)
		}
		if wideRow {
			eq(i, "label", f.ColumnLabel(), c.Label)
			eq(i, "catalogue", f.Catalogue(), c.Catalogue)
			eq(i, "schema", f.Schema(), c.Schema)
			eq(i, "table", f.Table(), c.Table)
		}
		if p, ok := f.(interface{ Precision() uint8 }); ok {
			eq(i, "precision", p.Precision(), c.Precision)
		}
		if s, ok := f.(interface{ Scale() uint8 }); ok {
			eq(i, "scale", s.Scale(), c.Scale)
		}
		switch c.Type {
		case peer.TDS_TEXT, peer.TDS_IMAGE, peer.TDS_UNITEXT, peer.TDS_XML:
			eq(i, "object name", reflect.ValueOf(f).Elem().FieldByName("tableName").String(), c.ObjName)
		case peer.TDS_BLOB:
			eq(i, "blob type", uint8(reflect.ValueOf(f).Elem().FieldByName("blobType").Uint()), c.BlobType)
			eq(i, "class id", reflect.ValueOf(f).Elem().FieldByName("classID").String(), c.ClassID)
		}
	}
	return errs
}

// sameValue compares a value decoded by the library with the intended
// one and returns a description of the difference or "".
func sameValue(got, want interface{}, typ uint8) string {
	if d, ok := got.(*asetypes.Decimal); ok {
		if want == nil {
			if d.String() != "<nil>" {
				return fmt.Sprintf("got decimal %s, want NULL", d)
			}
			return ""
		}
		w, ok := want.(peer.Dec)
		if !ok {
			return fmt.Sprintf("got decimal %s, want %#v", d, want)
		}
		if d.String() == "<nil>" {
			return fmt.Sprintf("got NULL decimal, want %#v", w)
		}
		if d.Int().String() != w.Unscaled || d.Scale != w.Scale || (w.Precision != 0 && d.Precision != w.Precision) {
			return fmt.Sprintf("got decimal %s (p=%d s=%d), want %#v", d.Int(), d.Precision, d.Scale, w)
		}
		return ""
	}

	if g, ok := got.(time.Time); ok {
		w, ok := want.(time.Time)
		if !ok {
			return fmt.Sprintf("got %v, want %#v", g, want)
		}
		// The tick based types count 1/300 s; the library truncates
		// them to milliseconds.
		var tolerance time.Duration
		switch typ {
		case peer.TDS_TIME, peer.TDS_TIMEN, peer.TDS_DATETIME, peer.TDS_DATETIMEN:
			tolerance = time.Millisecond
		}
		diff := g.Sub(w)
		if diff < 0 {
			diff = -diff
		}
		if diff > tolerance || g.Year() != w.Year() {
			return fmt.Sprintf("got %v, want %v", g, w)
		}
		return ""
	}

	if g, ok := got.([]byte); ok {
		w, ok := want.([]byte)
		if !ok || !bytes.Equal(g, w) {
			return fmt.Sprintf("got %#v, want %#v", got, want)
		}
		return ""
	}

	if !reflect.DeepEqual(got, want) {
		return fmt.Sprintf("got %#v, want %#v", got, want)
	}
	return ""
}

func TestZoo(t *testing.T) {
	zoo := peer.Zoo()
	idx := makeIndex(zoo)

	seen := map[string]bool{}
	kinds := map[string]int{}
	total := 0
	for _, e := range zoo {
		if e.Needs != "" && !seen[e.Needs] {
			t.Errorf("%s: needs %s which does not come earlier in Zoo()", e.Name, e.Needs)
		}
		seen[e.Name] = true
		kinds[e.Kind]++
		total += len(e.Bytes)

		if err := decodeEntry(idx, e); err != nil {
			t.Errorf("%s [% x]: %v", e.Name, head(e.Bytes), err)
		}

		wantVisible := e.Kind != "ENVCHANGE"
		if e.Kind == "EED" && e.Values[4].(uint8)&peer.TDS_EED_INFO != 0 {
			wantVisible = false
		}
		if e.Visible != wantVisible {
			t.Errorf("%s: Visible is %v, want %v", e.Name, e.Visible, wantVisible)
		}
		if e.Spec == "" || len(e.Bytes) == 0 {
			t.Errorf("%s: empty Spec or Bytes", e.Name)
		}
		if len(e.Bytes) > 1200 {
			t.Errorf("%s: %d bytes is too large", e.Name, len(e.Bytes))
		}
	}

	t.Logf("Zoo: %d entries, %d bytes", len(zoo), total)
	logKinds(t, kinds)
}

// TestCheckerDetects makes sure that the checks above are not vacuous:
// a flipped data byte, a changed expectation and a trailing byte must
// all be noticed.
func TestCheckerDetects(t *testing.T) {
	zoo := peer.Zoo()
	idx := makeIndex(zoo)

	for _, e := range zoo {
		// Trailing garbage is never consumed.
		e1 := e
		e1.Bytes = append(append([]byte{}, e.Bytes...), 0)
		if e.Kind != "LANGUAGE" || len(e.Bytes) > 6 {
			if err := decodeEntry(idx, e1); err == nil {
				t.Errorf("%s: trailing byte was not detected", e.Name)
			}
		}

		// A changed expectation must be noticed.
		if len(e.Values) > 0 {
			e2 := e
			e2.Values = append([]interface{}{}, e.Values...)
			last := len(e2.Values) - 1
			switch e2.Values[last].(type) {
			case nil:
				e2.Values[last] = "not null"
			default:
				e2.Values[last] = nil
			}
			if e.Kind == "CURINFO" || e.Kind == "CURINFO3" || e.Kind == "DYNAMIC" || e.Kind == "DYNAMIC2" {
				// The last value is not always transmitted.
				e2.Values[1] = nil
			}
			if e.Kind == "CAPABILITY" {
				e2.Values[0] = []byte{0x80, 0, 0, 0, 0, 0, 0, 0, 0, 0, 0, 0, 0, 0, 0, 0}
			}
			if err := decodeEntry(idx, e2); err == nil {
				t.Errorf("%s: changed expectation was not detected", e.Name)
			}
		}

		// A flipped bit in the last byte must be noticed in data tokens
		// (it is part of the last value).
		if (e.Kind == "ROW" || e.Kind == "PARAMS") && len(e.Bytes) > 1 && e.Values[len(e.Values)-1] != nil {
			e3 := e
			e3.Bytes = append([]byte{}, e.Bytes...)
			e3.Bytes[len(e3.Bytes)-1] ^= 0x01
			if err := decodeEntry(idx, e3); err == nil {
				if v, ok := e.Values[len(e.Values)-1].(time.Time); ok && v.Nanosecond()%1e6 != 0 {
					// Sub-millisecond differences of tick based types
					// are tolerated.
					continue
				}
				t.Errorf("%s: flipped bit was not detected", e.Name)
			}
		}
	}
}

func TestZooDeterministic(t *testing.T) {
	a, b := peer.Zoo(), peer.Zoo()
	if !reflect.DeepEqual(a, b) {
		t.Error("Zoo() is not deterministic")
	}
	c, d := peer.ZooDisputed(), peer.ZooDisputed()
	if !reflect.DeepEqual(c, d) {
		t.Error("ZooDisputed() is not deterministic")
	}
	names := map[string]bool{}
	for _, e := range append(a, c...) {
		if names[e.Name] {
			t.Errorf("duplicate name %s", e.Name)
		}
		names[e.Name] = true
	}
}

// TestZooDisputed makes sure that the library really does not decode the
// disputed entries (otherwise they belong into Zoo) and logs why.
func TestZooDisputed(t *testing.T) {
	disputed := peer.ZooDisputed()
	idx := makeIndex(peer.Zoo(), disputed)

	kinds := map[string]int{}
	for _, e := range disputed {
		kinds[e.Kind]++
		err := decodeEntry(idx, e)
		if err == nil {
			t.Errorf("%s: the library decodes this entry as intended, it is not disputed", e.Name)
			continue
		}
		t.Logf("%s [% x]: %v", e.Name, head(e.Bytes), err)
	}

	t.Logf("ZooDisputed: %d entries", len(disputed))
	logKinds(t, kinds)
}

// TestDisputedEvidence shows that each disputed encoding differs from
// what the library accepts in exactly the disputed spot: after patching
// that spot the library decodes the rest as intended.
func TestDisputedEvidence(t *testing.T) {
	disputed := peer.ZooDisputed()
	idx := makeIndex(peer.Zoo(), disputed)

	for _, e := range disputed {
		switch {
		case e.Kind == "ROWFMT" && e.Cols[0].Type != peer.TDS_BLOB:
			// Widen the two byte length to four bytes.
			b := append([]byte{}, e.Bytes[:3]...)
			b = append(b, 0, 0)
			b = append(b, e.Bytes[3:]...)
			pkg, err := decode(b, nil)
			if err == nil {
				err = check(e, pkg)
			}
			if err != nil {
				t.Errorf("%s with four byte length: %v", e.Name, err)
			}
		case e.Kind == "ERROR":
			// Drop State and Class.
			b := append([]byte{}, e.Bytes[:7]...)
			b = append(b, e.Bytes[9:]...)
			length := int(b[1]) | int(b[2])<<8
			length -= 2
			b[1], b[2] = byte(length), byte(length>>8)
			pkg, err := decode(b, nil)
			if err == nil {
				e2 := e
				e2.Values = append([]interface{}{}, e.Values...)
				e2.Values[1], e2.Values[2] = uint8(0), uint8(0)
				err = check(e2, pkg)
			}
			if err != nil {
				t.Errorf("%s without state and class: %v", e.Name, err)
			}
		case e.Kind == "ROWFMT2" && e.Cols[0].Type == peer.TDS_BLOB:
			// Insert the length byte the library expects in front of
			// the blob type (and cook the total length, see
			// blobFmtForLibrary).
			pkg, err := decode(blobFmtForLibrary(e.Bytes), nil)
			if err == nil {
				err = check(e, pkg)
			}
			if err != nil {
				t.Errorf("%s with additional length byte: %v", e.Name, err)
			}
		case e.Kind == "ROW" && e.Cols[0].Type == peer.TDS_BLOB && (strings.HasSuffix(e.Name, "/typ") || strings.HasSuffix(e.Name, "/empty")):
			// Single chunk values: the library wants an additional
			// terminating chunk length with the high bit set.
			last, err := decode(blobFmtForLibrary(idx[e.Needs].Bytes), nil)
			if err != nil {
				t.Fatal(err)
			}
			b := append(append([]byte{}, e.Bytes...), 0, 0, 0, 0x80)
			pkg, err := decode(b, last)
			if err == nil {
				err = check(e, pkg)
			}
			if err != nil {
				t.Errorf("%s with terminating chunk length: %v", e.Name, err)
			}
		case e.Kind == "ROW" && strings.HasSuffix(e.Name, "/null") && (e.Cols[0].Type == peer.TDS_TEXT || e.Cols[0].Type == peer.TDS_IMAGE) && len(e.Cols) == 1:
			// Timestamp and data length after the empty text pointer.
			b := append(append([]byte{}, e.Bytes...), make([]byte, 12)...)
			last, err := decode(idx[e.Needs].Bytes, nil)
			if err != nil {
				t.Fatal(err)
			}
			pkg, err := decode(b, last)
			if err != nil {
				t.Errorf("%s with timestamp and data length: %v", e.Name, err)
				continue
			}
			if v := pkg.(*tds.RowPackage).DataFields[0].Value(); !reflect.DeepEqual(v, []byte{}) {
				t.Errorf("%s with timestamp and data length: got %#v", e.Name, v)
			}
		case e.Kind == "CURDECLARE":
			// Widen the one byte column count to the two bytes of
			// TDS_CURDECLARE3.
			at := 3 + 1 + len(e.Values[1].(string)) + 1 + 1 + 2 + len(e.Values[4].(string))
			b := append([]byte{}, e.Bytes[:at+1]...)
			b = append(b, 0)
			b = append(b, e.Bytes[at+1:]...)
			length := int(b[1]) | int(b[2])<<8
			length++
			b[1], b[2] = byte(length), byte(length>>8)
			pkg, err := decode(b, nil)
			if err == nil {
				err = check(e, pkg)
			}
			if err != nil {
				t.Errorf("%s with two byte column count: %v", e.Name, err)
			}
		case e.Kind == "CURCLOSE" || e.Kind == "OPTIONCMD":
			// The library's decoder for the token reads exactly these
			// bytes, LookupPackage just does not hand it out.
			var pkg tds.Package = &tds.CurClosePackage{}
			if e.Kind == "OPTIONCMD" {
				pkg = &tds.OptionCmdPackage{}
			}
			err := decodeAs(pkg, e.Bytes)
			if err == nil {
				err = check(e, pkg)
			}
			if err != nil {
				t.Errorf("%s read by %T: %v", e.Name, pkg, err)
			}
		}
	}
}

// blobFmtForLibrary turns a single column TDS_ROWFMT2 with a TDS_BLOB
// column into what the library accepts: a length byte between data type
// and blob type. The library counts that byte as -1 bytes (LengthBytes()
// of BLOB is -1), so the total length has to be understated by two on
// top, i.e. no correct TDS_ROWFMT2 with a TDS_BLOB column can be decoded
// at all.
func blobFmtForLibrary(b []byte) []byte {
	i := bytes.LastIndexByte(b, peer.TDS_BLOB)
	out := append([]byte{}, b[:i+1]...)
	out = append(out, 0)
	out = append(out, b[i+1:]...)
	out[1]-- // total length, low byte: +1 for the byte, -2 for the miscount
	return out
}

func head(b []byte) []byte {
	if len(b) > 48 {
		return b[:48]
	}
	return b
}

func logKinds(t *testing.T, kinds map[string]int) {
	var names []string
	for k := range kinds {
		names = append(names, k)
	}
	sort.Strings(names)
	for _, k := range names {
		t.Logf("  %-12s %d", k, kinds[k])
	}
}
