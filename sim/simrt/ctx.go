package simrt

import (
	"context"
	"errors"
	"fmt"
	"time"
	"unsafe"
)

var (
	errCanceled = context.Canceled
	errDeadline = context.DeadlineExceeded
)

// simEpoch is the wall-clock time that simulated time 0 corresponds to.
var simEpoch = time.Date(2020, 1, 1, 0, 0, 0, 0, time.UTC)

// simCtx is a context.Context whose deadline reads the simulated clock.
type simCtx struct {
	parent      context.Context
	sparent     *simCtx
	done        chan struct{}
	err         error
	hasDeadline bool
	deadline    time.Duration
	children    []*simCtx
	seq         int
	registered  bool
	// syncVar carries the happens-before edges of a real context for the race detector: cancel() -> whoever
	// observes the cancellation (Err() != nil, a receive from Done()); for a context with a deadline also its
	// creation -> whoever observes the expiry (the runtime's timer does the same). The scheduler, which closes
	// done, is not part of the program and passes nothing on.
	syncVar byte
	// afters: functions registered with context.AfterFunc (CtxAfterFunc) that have not run and were not stopped
	afters []*ctxAfter
}

// ctxAfter is one registration of CtxAfterFunc.
type ctxAfter struct {
	f       func()
	c       *simCtx
	done    bool // started or stopped
	syncVar byte
}

// CtxAfterFunc replaces context.AfterFunc: f runs in a task of its own once ctx is done (at once if it is already);
// the returned function stops that, and reports whether it did.
//
//go:norace
func CtxAfterFunc(ctx context.Context, f func()) (stop func() bool) {
	t := me()
	if t == nil {
		return context.AfterFunc(ctx, f)
	}
	c, ok := ctx.(*simCtx)
	if !ok {
		if ctx.Done() != nil {
			t.s.machineryFromTask("context.AfterFunc on a foreign cancellable context")
		}
		// never done: f never runs
		return func() bool { return true }
	}
	af := &ctxAfter{c: c}
	af.f = func() {
		// registration and cancellation both happen before f
		raceAcquire(unsafe.Pointer(&af.syncVar))
		acquireCtx(c)
		f()
	}
	raceReleaseMerge(unsafe.Pointer(&af.syncVar))
	t.req = request{kind: opCtxAfter, ctx: c, keep: af}
	t.call()
	return func() bool { return ctxAfterStop(af) }
}

//go:norace
func ctxAfterStop(af *ctxAfter) bool {
	t := me()
	if t == nil {
		return false
	}
	t.req = request{kind: opCtxAfterStop, keep: af}
	t.call()
	return t.resp.idx == 1
}

// runAfters starts the functions registered on c (scheduler side; c is done).
func (s *Sim) runAfters(c *simCtx) {
	as := c.afters
	c.afters = nil
	for _, af := range as {
		if !af.done {
			af.done = true
			s.afn++
			s.startTask(s.newTask(fmt.Sprintf("ctxafterfunc#%d", s.afn), af.f))
		}
	}
}

//go:norace
func (c *simCtx) syncAddr() unsafe.Pointer { return unsafe.Pointer(&c.syncVar) }

// acquireCtx: the calling task has observed that c is cancelled - through c itself or one of its ancestors.
//
//go:norace
func acquireCtx(c *simCtx) {
	for x := c; x != nil; x = x.sparent {
		raceAcquire(x.syncAddr())
	}
}

//go:norace
func (c *simCtx) Deadline() (time.Time, bool) {
	pd, pok := c.parent.Deadline()
	if c.hasDeadline {
		own := simEpoch.Add(c.deadline)
		if pok && pd.Before(own) {
			return pd, true
		}
		return own, true
	}
	return pd, pok
}

//go:norace
func (c *simCtx) Done() <-chan struct{} { return c.done }

// Err is a scheduling point in half of the runs (Config.CtxErrPoints): what other goroutines do between an earlier
// operation of the caller and this look at the context is decided by the schedule in real executions too.
//
//go:norace
func (c *simCtx) Err() error {
	if t := me(); t != nil && t.s.cfg.CtxErrPoints && t.state == stRunning {
		t.post(opYield, 0)
		t.call()
	}
	if c.err != nil {
		acquireCtx(c)
	}
	return c.err
}

//go:norace
func (c *simCtx) Value(key interface{}) interface{} { return c.parent.Value(key) }

//go:norace
func (c *simCtx) String() string { return "simrt.ctx#" + itoa(c.seq) }

//go:norace
func newCtx(parent context.Context, hasDeadline bool, d time.Duration) (context.Context, context.CancelFunc) {
	t := me()
	if t == nil {
		if hasDeadline {
			return context.WithTimeout(parent, d)
		}
		return context.WithCancel(parent)
	}
	if parent == nil {
		panic("cannot create context from nil parent")
	}
	c := &simCtx{parent: parent, done: make(chan struct{})}
	if sp, ok := parent.(*simCtx); ok {
		c.sparent = sp
	} else if parent.Done() != nil {
		t.s.Machinery("context derived from a foreign cancellable context")
	}
	if hasDeadline {
		c.hasDeadline = true
		c.deadline = t.s.now + d
		raceReleaseMerge(c.syncAddr())
	}
	t.req = request{kind: opNewCtx, ctx: c, cold: true}
	t.call()
	return c, func() { cancelFromTask(c) }
}

//go:norace
func cancelFromTask(c *simCtx) {
	t := me()
	if t == nil {
		return
	}
	if c.err != nil {
		return
	}
	raceReleaseMerge(c.syncAddr())
	// a real scheduling point: what other tasks do between an earlier operation of this task (closing the
	// transport, say) and this cancellation is something real executions decide too
	t.req = request{kind: opCancel, ctx: c}
	t.call()
}

// WithCancel replaces context.WithCancel.
func WithCancel(parent context.Context) (context.Context, context.CancelFunc) {
	return newCtx(parent, false, 0)
}

// WithTimeout replaces context.WithTimeout.
func WithTimeout(parent context.Context, d time.Duration) (context.Context, context.CancelFunc) {
	return newCtx(parent, true, d)
}

// WithDeadline replaces context.WithDeadline.
func WithDeadline(parent context.Context, at time.Time) (context.Context, context.CancelFunc) {
	if me() == nil {
		return context.WithDeadline(parent, at)
	}
	return newCtx(parent, true, at.Sub(simEpoch)-cur.now)
}

// scheduler side

func (s *Sim) registerCtx(c *simCtx) {
	s.ctxN++
	c.seq = s.ctxN
	c.registered = true
	s.ctxByDone[chanKey(c.done)] = c
	if c.sparent != nil {
		if c.sparent.err != nil {
			s.cancelCtx(c, c.sparent.err)
			return
		}
		c.sparent.children = append(c.sparent.children, c)
	}
	if c.hasDeadline {
		if c.deadline <= s.now {
			s.cancelCtx(c, errDeadline)
			return
		}
		s.timers = append(s.timers, c)
	}
}

func (s *Sim) cancelCtx(c *simCtx, err error) {
	if c.err != nil {
		s.dropTimer(c)
		return
	}
	c.err = err
	close(c.done)
	s.closed[chanKey(c.done)] = c.done
	s.dropTimer(c)
	s.runAfters(c)
	kids := c.children
	c.children = nil
	for _, ch := range kids {
		s.cancelCtx(ch, err)
	}
	// detach from parent
	if p := c.sparent; p != nil {
		for i, x := range p.children {
			if x == c {
				p.children = append(p.children[:i], p.children[i+1:]...)
				break
			}
		}
	}
}

func (s *Sim) dropTimer(c *simCtx) {
	for i, x := range s.timers {
		if x == c {
			s.timers = append(s.timers[:i], s.timers[i+1:]...)
			return
		}
	}
}

func chanKey(ch chan struct{}) uintptr {
	id, _ := chanID(ch)
	return id
}

// IsSimCtxErr reports whether err is one of the two context errors.
func IsSimCtxErr(err error) bool {
	return errors.Is(err, context.Canceled) || errors.Is(err, context.DeadlineExceeded)
}

// time seam (the library does not use these today; future edits might)

func Now() time.Time {
	if cur == nil {
		return time.Now()
	}
	return simEpoch.Add(cur.Now())
}

func Since(t time.Time) time.Duration { return Now().Sub(t) }
