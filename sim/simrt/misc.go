package simrt

import (
	"crypto/rand"
	"fmt"
	"io"
	"os"
	"sort"
	"strconv"
	"sync"
	"unsafe"
)

//go:norace
func (p *Pool) syncAddr() unsafe.Pointer { return unsafe.Pointer(&p.sync) }

// ---- randomness ----

// RandDraw is one recorded draw from the simulated crypto/rand.
type RandDraw struct {
	Off   uint64
	Bytes []byte
}

type randReader struct{}

// RandReader replaces crypto/rand.Reader.
var RandReader io.Reader = randReader{}

//go:norace
func (randReader) Read(b []byte) (int, error) {
	s := cur
	if s == nil || s.cur == nil {
		return rand.Read(b)
	}
	// One-byte reads (crypto/internal/randutil.MaybeReadByte, which happens or not by a coin of the runtime) do not
	// advance the stream the oracles look at. They are served from a stream of their own, which does advance: code
	// that draws single bytes until it gets one it likes (the padding of PKCS#1 v1.5) must not meet the same byte
	// for ever.
	if len(b) == 1 {
		s.randPos1++
		b[0] = randByte(s.cfg.Seed^0x5bd1e995, s.randPos1)
		return 1, nil
	}
	pos := s.randPos
	out := make([]byte, len(b))
	for i := range b {
		v := randByte(s.cfg.Seed, pos+uint64(i))
		b[i] = v
		out[i] = v
	}
	if len(b) > 1 {
		s.randPos += uint64(len(b))
		s.randLog = append(s.randLog, RandDraw{Off: pos, Bytes: out})
	}
	return len(b), nil
}

func randByte(seed, pos uint64) byte {
	var r rng
	r.seed(seed*0x100000001b3 ^ (pos/8)*0x9e3779b97f4a7c15 ^ 0xabcdef)
	v := r.next()
	return byte(v >> (8 * (pos % 8)))
}

// RandRead replaces crypto/rand.Read.
func RandRead(b []byte) (int, error) { return RandReader.Read(b) }

// RandLog returns the draws made so far.
func (s *Sim) RandLog() []RandDraw { return s.randLog }

// ---- pid / hostname ----

func Getpid() int {
	if cur == nil {
		return os.Getpid()
	}
	return 4242
}

func Hostname() (string, error) {
	if cur == nil {
		return os.Hostname()
	}
	return "simhost", nil
}

// ---- map iteration order ----

// InitSeed seeds what happens outside any simulation (package initialisation): environment SIMRT_INIT_SEED.
var InitSeed = func() uint64 {
	v, _ := strconv.ParseUint(os.Getenv("SIMRT_INIT_SEED"), 10, 64)
	return v
}()

var initDraws uint64

// MapKeys returns the keys of m in an order drawn from the choice stream.
func MapKeys[M ~map[K]V, K comparable, V any](site int, m M) []K {
	keys := make([]K, 0, len(m))
	for k := range m {
		keys = append(keys, k)
	}
	if len(keys) < 2 {
		return keys
	}
	// canonical order first: by printed form (keys are ints, strings or named ints)
	strs := make(map[K]string, len(keys))
	for _, k := range keys {
		strs[k] = fmt.Sprintf("%020v", k)
	}
	sort.Slice(keys, func(i, j int) bool { return strs[keys[i]] < strs[keys[j]] })
	if me() == nil {
		// outside a simulation - package initialisation above all: the order comes from the process's init seed
		// (InitSeed, set by the supervisor per worker process and recorded in replay files), so that code whose
		// result depends on the iteration order of a map at init time differs between processes as it would for real
		if InitSeed != 0 {
			initDraws++
			x := InitSeed*0x9E3779B97F4A7C15 + uint64(site)*0xBF58476D1CE4E5B9 + initDraws
			for i := len(keys) - 1; i > 0; i-- {
				x ^= x >> 30
				x *= 0xBF58476D1CE4E5B9
				x ^= x >> 27
				x *= 0x94D049BB133111EB
				x ^= x >> 31
				j := int(x % uint64(i+1))
				keys[i], keys[j] = keys[j], keys[i]
			}
		}
		return keys
	}
	// Fisher-Yates driven by the choice stream
	for i := len(keys) - 1; i > 0; i-- {
		j := ChooseInt(site, i+1)
		keys[i], keys[j] = keys[j], keys[i]
	}
	return keys
}

// ---- sync.Pool ----

// Pool replaces sync.Pool: a seeded model of its contract (any kept item may
// be returned, anything may be dropped at any time).
type Pool struct {
	New func() interface{}

	items []interface{}
	real  sync.Pool
	sync  byte
}

// Pool fault/choice counters of the current run.
type PoolStats struct{ Gets, Puts, Drops, GCs, News, Reuses int }

//go:norace
func (p *Pool) Get() interface{} {
	t := me()
	if t == nil {
		if p.real.New == nil {
			p.real.New = p.New
		}
		return p.real.Get()
	}
	s := t.s
	Yield(0)
	s.poolStats.Gets++
	n := len(p.items)
	if n > 0 {
		// choices: 0..n-1 take item i; n = "GC ran": drop everything
		c := ChooseInt(0, n+1)
		if c < n {
			it := p.items[c]
			p.items[c] = p.items[n-1]
			p.items[n-1] = nil
			p.items = p.items[:n-1]
			s.poolStats.Reuses++
			raceAcquire(p.syncAddr())
			return it
		}
		for i := range p.items {
			p.items[i] = nil
		}
		p.items = p.items[:0]
		s.poolStats.GCs++
	}
	s.poolStats.News++
	if p.New == nil {
		return nil
	}
	return p.New()
}

//go:norace
func (p *Pool) Put(x interface{}) {
	t := me()
	if t == nil {
		if p.real.New == nil {
			p.real.New = p.New
		}
		p.real.Put(x)
		return
	}
	if x == nil {
		return
	}
	s := t.s
	Yield(0)
	s.poolStats.Puts++
	raceReleaseMerge(p.syncAddr())
	// choices: 0 keep, 1 keep, 2 keep, 3 drop (the real pool drops 1/4 under -race)
	if ChooseInt(0, 4) == 3 {
		s.poolStats.Drops++
		return
	}
	p.items = append(p.items, x)
}

// PoolStats returns the pool counters of the run.
func (s *Sim) PoolStats() PoolStats { return s.poolStats }

// ---- sync.Map ----

// Map replaces sync.Map: the real map behind a scheduling point per operation, and Range in an order drawn from
// the choice stream (sync.Map promises none).
type Map struct {
	real sync.Map
}

func (m *Map) Load(key any) (any, bool) { Yield(0); return m.real.Load(key) }
func (m *Map) Store(key, value any)     { Yield(0); m.real.Store(key, value) }
func (m *Map) Delete(key any)           { Yield(0); m.real.Delete(key) }
func (m *Map) Clear()                   { Yield(0); m.real.Clear() }
func (m *Map) LoadOrStore(key, value any) (any, bool) {
	Yield(0)
	return m.real.LoadOrStore(key, value)
}
func (m *Map) LoadAndDelete(key any) (any, bool) { Yield(0); return m.real.LoadAndDelete(key) }
func (m *Map) Swap(key, value any) (any, bool)   { Yield(0); return m.real.Swap(key, value) }
func (m *Map) CompareAndSwap(key, old, new any) bool {
	Yield(0)
	return m.real.CompareAndSwap(key, old, new)
}
func (m *Map) CompareAndDelete(key, old any) bool { Yield(0); return m.real.CompareAndDelete(key, old) }

func (m *Map) Range(f func(key, value any) bool) {
	Yield(0)
	var keys []any
	m.real.Range(func(k, _ any) bool { keys = append(keys, k); return true })
	strs := make([]string, len(keys))
	for i, k := range keys {
		strs[i] = fmt.Sprintf("%T %020v", k, k)
	}
	idx := make([]int, len(keys))
	for i := range idx {
		idx[i] = i
	}
	sort.Slice(idx, func(a, b int) bool { return strs[idx[a]] < strs[idx[b]] })
	if me() != nil {
		for i := len(idx) - 1; i > 0; i-- {
			j := ChooseInt(0, i+1)
			idx[i], idx[j] = idx[j], idx[i]
		}
	}
	for _, i := range idx {
		v, ok := m.real.Load(keys[i])
		if !ok {
			continue
		}
		if !f(keys[i], v) {
			return
		}
	}
}
