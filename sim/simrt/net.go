package simrt

import (
	"errors"
	"fmt"
	"io"
	"net"
	"os"
	"time"
	"unsafe"
)

// PeerHandler is the simulated server. All methods run in the scheduler goroutine.
type PeerHandler interface {
	Connected(c *Conn)
	Data(c *Conn, b []byte)
	ClientClosed(c *Conn)
}

// Terminal conditions of the server->client stream.
const (
	TermNone = iota
	TermEOF
	TermReset
	TermTimeout
)

// Stall is one pause of a slow peer.
type Stall struct {
	AtByte int           `json:"at_byte"`
	Window int           `json:"window"`
	For    time.Duration `json:"for"`
}

// WriteFault makes the j-th client Write fail after accepting Accept bytes.
type WriteFault struct {
	Accept int
	// Persistent: every later write fails as well (a broken pipe), accepting nothing.
	Persistent bool
}

// Net is the simulated network of one run.
type Net struct {
	s       *Sim
	Conns   []*Conn
	Peer    PeerHandler
	DialErr error
	// Setup is applied to every new connection before the peer sees it.
	Setup func(c *Conn)
}

func newNet(s *Sim) *Net { return &Net{s: s} }

// Conn is the client's net.Conn and, at the same time, the handle through
// which the peer and the fault plan act on the connection.
type Conn struct {
	ID  int
	net *Net

	inbox        []byte
	term         int
	termWithData bool
	clientClosed bool

	// ReadSizes are the sizes successive Reads return at most (0 = as much as fits); when exhausted: as much as fits.
	ReadSizes []int
	readIdx   int
	// Transients are stream offsets (bytes read so far) at which ONE Read fails with a timeout error although the
	// stream goes on afterwards (ascending).
	Transients []int
	// TransientEOF: the failing reads return (0, io.EOF) instead of a timeout error - a reader that reports "no
	// data right now" the way the library's retry loop expects it.
	TransientEOF bool
	// TransientFor > 0 (with TransientEOF): not one read but every read during that much simulated time returns
	// (0, io.EOF) - each at the cost of an EOF poll - and then the stream goes on: a transport whose "end" was not
	// one, which the library's retry loop explicitly caters for.
	TransientFor time.Duration
	gapEnd       time.Duration
	// ZeroNil are stream offsets (ascending) at which ONE Read returns (0, nil): "nothing happened", which the
	// io.Reader contract allows (and discourages); the stream goes on.
	ZeroNil []int
	consumed     int
	// PeerStalled: the peer has stopped reading. Writes still succeed while fewer than SendWindow bytes are
	// unread (socket buffers), then they block.
	PeerStalled  bool
	SendWindow   int
	stalledBytes int
	// stalled holds what the socket buffer took while the peer was not reading; Resume hands it to the peer.
	stalled   [][]byte
	stalledAt []int // event sequence numbers at which the client's writes were accepted
	// StallPlan (ascending AtByte): once the peer has received AtByte bytes in total it stops reading for For of
	// simulated time (socket buffer: Window bytes), then reads on - a slow peer, not a dead one.
	StallPlan  []Stall
	brokenPipe bool
	// WriteFaults by index of the client's Write call.
	WriteFaults map[int]WriteFault

	Reads, Writes    int
	BytesToClient    int
	BytesFromClient  int
	Wrote            [][]byte // one entry per client Write (accepted bytes)
	WroteAt          []int    // event sequence number of each Write
	CloseCalls       int
	FirstTermAt      time.Duration
	termSet          bool
	DeliveredAt      []time.Duration
	zeroLenReadsLeft int
	// transport deadlines (simulated time)
	rdl, wdl       time.Duration
	rdlSet, wdlSet bool
	DeadlinesSet   int
}

// The transport passes no happens-before edge from a writer to a reader: a network does not either, and an edge
// here would hide races between what a sender did before its Write and what the reader goroutine does after the
// Read that returned the answer.

type simAddr struct{}

func (simAddr) Network() string { return "sim" }
func (simAddr) String() string  { return "sim" }

type netErr struct {
	msg     string
	timeout bool
}

func (e *netErr) Error() string   { return e.msg }
func (e *netErr) Timeout() bool   { return e.timeout }
func (e *netErr) Temporary() bool { return e.timeout }

var (
	ErrConnReset  = &netErr{msg: "read sim: connection reset by peer"}
	ErrIOTimeout  = &netErr{msg: "read sim: i/o timeout", timeout: true}
	ErrConnClosed = fmt.Errorf("sim: use of closed network connection: %w", net.ErrClosed)
	ErrWriteFault = &netErr{msg: "write sim: broken pipe"}
)

// Dial replaces net.Dial.
//
//go:norace
func Dial(network, addr string) (net.Conn, error) {
	t := me()
	if t == nil {
		return net.Dial(network, addr)
	}
	t.req = request{kind: opDial}
	t.call()
	if t.resp.err != nil {
		return nil, t.resp.err
	}
	return t.req.conn, nil
}

func (n *Net) grantDial(t *Task) string {
	if n.DialErr != nil {
		t.resp.err = n.DialErr
		return "error"
	}
	c := &Conn{ID: len(n.Conns), net: n}
	n.Conns = append(n.Conns, c)
	if c.ID == 0 && len(n.s.cfg.SlowPeer) > 0 {
		c.StallPlan = append([]Stall(nil), n.s.cfg.SlowPeer...)
	}
	if n.Setup != nil {
		n.Setup(c)
	}
	t.req.conn = c
	t.resp.err = nil
	if n.Peer != nil {
		n.Peer.Connected(c)
	}
	return fmt.Sprintf("conn%d", c.ID)
}

// ---- client side (task goroutine) ----

//go:norace
func (c *Conn) Read(p []byte) (int, error) {
	t := me()
	if t == nil {
		return 0, errors.New("simrt.Conn used outside a simulation")
	}
	t.req = request{kind: opRead, conn: c, buf: p, n: len(p)}
	t.call()
	if t.resp.n > 0 {
		// as internal/poll does for the detector: the read wrote p[:n]
		raceWriteRange(unsafe.Pointer(&p[0]), t.resp.n)
	}
	return t.resp.n, t.resp.err
}

//go:norace
func (c *Conn) Write(p []byte) (int, error) {
	t := me()
	if t == nil {
		return 0, errors.New("simrt.Conn used outside a simulation")
	}
	// The bytes are taken when the write is GRANTED, not when it is requested: like write(2), which reads the
	// caller's buffer when the system call runs. A buffer that another task refills in between (a recycled or
	// shared buffer) therefore goes out with the other task's bytes, as it can on a real connection.
	t.req = request{kind: opWrite, conn: c, buf: p}
	t.call()
	// as internal/poll does for the detector: the write read p
	if len(p) > 0 {
		raceReadRange(unsafe.Pointer(&p[0]), len(p))
	}
	return t.resp.n, t.resp.err
}

//go:norace
func (c *Conn) Close() error {
	t := me()
	if t == nil {
		return errors.New("simrt.Conn used outside a simulation")
	}
	t.req = request{kind: opNetClose, conn: c}
	t.call()
	return t.resp.err
}

func (c *Conn) LocalAddr() net.Addr  { return simAddr{} }
func (c *Conn) RemoteAddr() net.Addr { return simAddr{} }

// Deadlines on the transport, on the simulated clock (the library reads the clock through simrt.Now, so a deadline
// it computes from "now" lands on the same axis). As with a net.Conn: a Read or Write whose deadline has passed
// fails at once with a timeout error that matches os.ErrDeadlineExceeded; one that is blocked fails when the
// deadline comes; the zero time removes the deadline; setting a deadline affects calls already blocked.
func (c *Conn) SetDeadline(t time.Time) error {
	c.setDeadline(t, true, true)
	return nil
}
func (c *Conn) SetReadDeadline(t time.Time) error {
	c.setDeadline(t, true, false)
	return nil
}
func (c *Conn) SetWriteDeadline(t time.Time) error {
	c.setDeadline(t, false, true)
	return nil
}

//go:norace
func (c *Conn) setDeadline(t time.Time, rd, wr bool) {
	tk := me()
	if tk == nil {
		return
	}
	// a scheduling point: another goroutine's blocked Read / Write is affected from here on
	tk.post(opYield, 0)
	tk.call()
	set, at := !t.IsZero(), t.Sub(simEpoch)
	if rd {
		c.rdlSet, c.rdl = set, at
	}
	if wr {
		c.wdlSet, c.wdl = set, at
	}
	c.DeadlinesSet++
}

// allocated once, before any task exists: the scheduler hands them to tasks
var (
	errReadDeadline  = &deadlineErr{op: "read"}
	errWriteDeadline = &deadlineErr{op: "write"}
)

// deadlineErr is what a Read / Write past its deadline returns.
type deadlineErr struct{ op string }

func (e *deadlineErr) Error() string   { return e.op + " sim: i/o timeout" }
func (e *deadlineErr) Timeout() bool   { return true }
func (e *deadlineErr) Temporary() bool { return true }
func (e *deadlineErr) Is(target error) bool {
	return target == os.ErrDeadlineExceeded
}

// ---- scheduler side ----

func (n *Net) readReady(t *Task) bool {
	c := t.req.conn
	if c.clientClosed || t.req.n == 0 {
		return true
	}
	if c.inGap() {
		if t.wakeAt == 0 {
			t.wakeAt = n.s.now + time.Duration(n.s.cfg.EOFReadCostMs)*time.Millisecond
		}
		return n.s.now >= t.wakeAt
	}
	if len(c.inbox) > 0 {
		return true
	}
	if c.rdlSet && n.s.now >= c.rdl {
		return true
	}
	if len(c.Transients) > 0 && c.Transients[0] <= c.consumed {
		return true
	}
	if len(c.ZeroNil) > 0 && c.ZeroNil[0] <= c.consumed {
		return true
	}
	switch c.term {
	case TermNone:
		return false
	case TermEOF:
		if t.wakeAt == 0 {
			t.wakeAt = n.s.now + time.Duration(n.s.cfg.EOFReadCostMs)*time.Millisecond
		}
		return n.s.now >= t.wakeAt
	default:
		return true
	}
}

// inGap reports whether the stream is inside a period of (0, io.EOF) reads (TransientFor); it starts the period when
// the stream position reaches the offset and ends it - the stream goes on - when the time is over.
func (c *Conn) inGap() bool {
	if c.TransientFor <= 0 || !c.TransientEOF || len(c.Transients) == 0 || c.Transients[0] > c.consumed {
		return false
	}
	now := c.net.s.now
	if c.gapEnd == 0 {
		c.gapEnd = now + c.TransientFor
		c.net.s.Fault("read-eof-gap")
	}
	if now < c.gapEnd {
		return true
	}
	c.Transients = c.Transients[1:]
	c.gapEnd = 0
	return false
}

//go:norace
func copyNoRace(dst, src []byte, n int) {
	for i := 0; i < n; i++ {
		dst[i] = src[i]
	}
}

func (n *Net) grantRead(t *Task) string {
	c := t.req.conn
	c.Reads++
	t.resp = response{}
	if c.clientClosed {
		t.resp.err = ErrConnClosed
		return "closed"
	}
	if c.rdlSet && n.s.now >= c.rdl {
		n.s.Fault("read-deadline-expired")
		t.resp.err = errReadDeadline
		return "deadline"
	}
	if t.req.n == 0 {
		t.zeroReads++
		if t.zeroReads >= n.s.cfg.ZeroReadSpin && n.s.livelock == "" {
			n.s.livelock = fmt.Sprintf("task %s issued %d consecutive zero-length reads on conn%d", t.name, t.zeroReads, c.ID)
		}
		return "0 (zero-length buffer)"
	}
	t.zeroReads = 0
	if c.inGap() {
		t.resp.err = io.EOF
		return "EOF (for a while)"
	}
	if len(c.ZeroNil) > 0 && c.ZeroNil[0] <= c.consumed {
		c.ZeroNil = c.ZeroNil[1:]
		n.s.Fault("read-returns-zero-nil")
		return "0, nil"
	}
	if len(c.Transients) > 0 && c.Transients[0] <= c.consumed {
		// a transient failure: this one Read fails, the stream goes on afterwards
		c.Transients = c.Transients[1:]
		n.s.Fault("read-transient-error")
		if c.TransientEOF {
			t.resp.err = io.EOF
			return "transient EOF"
		}
		t.resp.err = ErrIOTimeout
		return "transient timeout"
	}
	if len(c.inbox) > 0 {
		k := len(c.inbox)
		if t.req.n < k {
			k = t.req.n
		}
		if len(c.Transients) > 0 && c.consumed+k > c.Transients[0] {
			k = c.Transients[0] - c.consumed
		}
		if len(c.ZeroNil) > 0 && c.consumed+k > c.ZeroNil[0] && c.ZeroNil[0] > c.consumed {
			k = c.ZeroNil[0] - c.consumed
		}
		if c.readIdx < len(c.ReadSizes) {
			if sz := c.ReadSizes[c.readIdx]; sz > 0 && sz < k {
				k = sz
			}
			c.readIdx++
		}
		copyNoRace(t.req.buf, c.inbox, k)
		c.inbox = c.inbox[k:]
		c.consumed += k
		t.resp.n = k
		if len(c.inbox) == 0 && c.term != TermNone && c.termWithData {
			// the io.Reader contract allows a Read to return the last bytes together with the error
			c.termWithData = false
			switch c.term {
			case TermEOF:
				t.resp.err = io.EOF
				return fmt.Sprintf("%d+EOF", k)
			case TermReset:
				t.resp.err = ErrConnReset
				return fmt.Sprintf("%d+reset", k)
			default:
				t.resp.err = ErrIOTimeout
				return fmt.Sprintf("%d+timeout", k)
			}
		}
		return fmt.Sprintf("%d", k)
	}
	switch c.term {
	case TermEOF:
		t.resp.err = io.EOF
		return "EOF"
	case TermReset:
		t.resp.err = ErrConnReset
		return "reset"
	case TermTimeout:
		t.resp.err = ErrIOTimeout
		return "timeout"
	}
	n.s.Machinery("read granted without data")
	return "?"
}

func (n *Net) grantWrite(t *Task) string {
	c := t.req.conn
	idx := c.Writes
	c.Writes++
	t.resp = response{}
	if c.clientClosed {
		t.resp.err = ErrConnClosed
		return "closed"
	}
	b := snapshotNoRace(t.req.buf)
	if c.wdlSet && n.s.now >= c.wdl {
		// what the socket buffer still takes is written, the rest is not
		k := 0
		if c.PeerStalled {
			if k = c.SendWindow - c.stalledBytes; k > len(b) {
				k = len(b)
			}
			if k < 0 {
				k = 0
			}
			c.stalledBytes += k
			c.BytesFromClient += k
			if k > 0 {
				c.stalled = append(c.stalled, b[:k])
				c.stalledAt = append(c.stalledAt, n.s.seq)
			}
		}
		n.s.Fault("write-deadline-expired")
		t.resp.n = k
		t.resp.err = errWriteDeadline
		return fmt.Sprintf("deadline after %d bytes", k)
	}
	if c.term == TermReset {
		// the peer reset the connection: writing fails as well
		t.resp.err = ErrConnReset
		return "reset"
	}
	if c.PeerStalled {
		// accepted by the socket buffer, never seen by the peer
		c.stalledBytes += len(b)
		c.stalled = append(c.stalled, b)
		c.stalledAt = append(c.stalledAt, n.s.seq)
		t.resp.n = len(b)
		c.BytesFromClient += len(b)
		return fmt.Sprintf("%d (buffered, peer stalled)", len(b))
	}
	f, ok := c.WriteFaults[idx]
	if !ok && c.brokenPipe {
		f, ok = WriteFault{Accept: 0}, true
	}
	if ok && f.Persistent {
		c.brokenPipe = true
	}
	if ok {
		acc := f.Accept
		// a failed write never reports all bytes as written
		if acc >= len(b) {
			acc = len(b) - 1
		}
		if acc < 0 {
			acc = 0
		}
		b = b[:acc]
		t.resp.n = acc
		t.resp.err = ErrWriteFault
		n.s.Fault("write-error")
	} else {
		t.resp.n = len(b)
	}
	c.BytesFromClient += len(b)
	c.Wrote = append(c.Wrote, b)
	c.WroteAt = append(c.WroteAt, n.s.seq)
	if n.Peer != nil && len(b) > 0 {
		n.Peer.Data(c, b)
	}
	if len(c.StallPlan) > 0 && c.BytesFromClient >= c.StallPlan[0].AtByte && !c.PeerStalled {
		st := c.StallPlan[0]
		c.StallPlan = c.StallPlan[1:]
		c.PeerStalled, c.SendWindow = true, st.Window
		n.s.Fault("peer-slow")
		n.s.After(st.For, fmt.Sprintf("peer of conn%d reads on", c.ID), func() { c.Resume() })
	}
	return fmt.Sprintf("%d", t.resp.n)
}

// BreakPipe: from now on every Write of the client fails (the connection is broken in the sending direction).
func (c *Conn) BreakPipe() { c.brokenPipe = true }

// Resume: the peer reads again. What the socket buffer took meanwhile reaches it now, in order.
func (c *Conn) Resume() {
	if !c.PeerStalled {
		return
	}
	c.PeerStalled = false
	for _, t := range c.net.s.tasks {
		if t.state == stWaiting && t.req.kind == opWrite && t.req.conn == c {
			c.net.s.Fault("write-blocked-until-peer-read-on")
		}
	}
	st, at := c.stalled, c.stalledAt
	c.stalled, c.stalledAt, c.stalledBytes = nil, nil, 0
	for i, b := range st {
		c.Wrote = append(c.Wrote, b)
		c.WroteAt = append(c.WroteAt, at[i]) // when the client wrote it, not when the peer read it
		if c.net.Peer != nil && len(b) > 0 {
			c.net.Peer.Data(c, b) // also after the client closed: what was written before the close arrives
		}
	}
}

// StallFor: the peer stops reading now (socket buffer: window bytes) and reads on after d.
func (c *Conn) StallFor(window int, d time.Duration) {
	c.PeerStalled, c.SendWindow = true, window
	c.net.s.Fault("peer-slow")
	c.net.s.After(d, fmt.Sprintf("peer of conn%d reads on", c.ID), func() { c.Resume() })
}

func (n *Net) grantClose(t *Task) string {
	c := t.req.conn
	c.CloseCalls++
	t.resp = response{}
	if c.clientClosed {
		t.resp.err = ErrConnClosed
		return "already closed"
	}
	c.clientClosed = true
	if n.Peer != nil {
		n.Peer.ClientClosed(c)
	}
	return "ok"
}

// Deliver makes b readable by the client now.
func (c *Conn) Deliver(b []byte) {
	if c.term != TermNone && !c.termWithData {
		return // nothing can follow a terminal condition
	}
	c.inbox = append(c.inbox, b...)
	c.BytesToClient += len(b)
	c.DeliveredAt = append(c.DeliveredAt, c.net.s.now)
}

// DeliverAfter makes b readable after d of simulated time; stream order is preserved by the event sequence.
func (c *Conn) DeliverAfter(d time.Duration, b []byte) {
	bb := append([]byte(nil), b...)
	c.net.s.After(d, fmt.Sprintf("deliver %d bytes to conn%d", len(bb), c.ID), func() { c.Deliver(bb) })
}

// End sets the terminal condition of the server->client stream. withData
// makes the Read that drains the inbox return the error together with the
// last bytes.
func (c *Conn) End(term int, withData bool) {
	if c.term != TermNone {
		return
	}
	c.term = term
	c.termWithData = withData && len(c.inbox) > 0
	c.FirstTermAt = c.net.s.now
	c.termSet = true
}

// EndAfter sets the terminal condition after d.
func (c *Conn) EndAfter(d time.Duration, term int, withData bool) {
	c.net.s.After(d, fmt.Sprintf("end(%d) conn%d", term, c.ID), func() { c.End(term, withData) })
}

// Pending returns the number of delivered but unread bytes.
func (c *Conn) Pending() int { return len(c.inbox) }

// ClientClosed reports whether the client closed the connection.
func (c *Conn) ClientClosed() bool { return c.clientClosed }

// Term returns the terminal condition and when it was set.
func (c *Conn) Term() (int, time.Duration, bool) { return c.term, c.FirstTermAt, c.termSet }

// Sim returns the simulation.
func (c *Conn) Sim() *Sim { return c.net.s }

// snapshotNoRace copies a task's buffer in the scheduler (the task is parked; the detector must not see this read).
//
//go:norace
func snapshotNoRace(p []byte) []byte {
	b := make([]byte, len(p))
	for i := 0; i < len(p); i++ {
		b[i] = p[i]
	}
	return b
}
