//go:build !race

package simrt

import "unsafe"

// RaceBuild reports whether the binary was built with -race.
const RaceBuild = false

func raceDisable()                           {}
func raceEnable()                            {}
func raceErrors() int                        { return 0 }
func raceAcquire(p unsafe.Pointer)           {}
func raceReleaseMerge(p unsafe.Pointer)      {}
func raceReadRange(p unsafe.Pointer, n int)  {}
func raceWriteRange(p unsafe.Pointer, n int) {}
