//go:build race

package simrt

import (
	"runtime"
	"unsafe"
)

// RaceBuild reports whether the binary was built with -race.
const RaceBuild = true

func raceDisable()                           { runtime.RaceDisable() }
func raceEnable()                            { runtime.RaceEnable() }
func raceErrors() int                        { return runtime.RaceErrors() }
func raceAcquire(p unsafe.Pointer)           { runtime.RaceAcquire(p) }
func raceReleaseMerge(p unsafe.Pointer)      { runtime.RaceReleaseMerge(p) }
func raceReadRange(p unsafe.Pointer, n int)  { runtime.RaceReadRange(p, n) }
func raceWriteRange(p unsafe.Pointer, n int) { runtime.RaceWriteRange(p, n) }
