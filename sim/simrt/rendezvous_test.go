package simrt

import (
	"context"
	"fmt"
	"testing"
)

// the code below is written the way the rewriter writes it: a Wait / Select call, then the real operation

func runRV(seed uint64, body func(res *[]string)) (*Outcome, []string) {
	var res []string
	s := New(Config{Seed: seed, Strategy: "uniform", MaxSteps: 10000})
	out := s.Run(func() { body(&res) })
	return out, res
}

func TestRendezvousPlain(t *testing.T) {
	for seed := uint64(1); seed <= 200; seed++ {
		out, res := runRV(seed, func(res *[]string) {
			ch := make(chan int)
			done := make(chan struct{}, 2)
			Go(1, func() {
				for i := 0; i < 3; i++ {
					SendWait(2, ch)
					ch <- i
				}
				SendWait(3, done)
				done <- struct{}{}
			})
			Go(4, func() {
				for i := 0; i < 3; i++ {
					RecvWait(5, ch)
					v := <-ch
					*res = append(*res, fmt.Sprint(v))
				}
				SendWait(6, done)
				done <- struct{}{}
			})
			RecvWait(7, done)
			<-done
			RecvWait(7, done)
			<-done
		})
		if out.Machinery != "" || len(out.Parked) > 0 || len(out.Crashes) > 0 {
			t.Fatalf("seed %d: machinery=%q parked=%v crashes=%v", seed, out.Machinery, out.Parked, out.Crashes)
		}
		if fmt.Sprint(res) != "[0 1 2]" {
			t.Fatalf("seed %d: received %v", seed, res)
		}
	}
}

func TestRendezvousSelectAndPoll(t *testing.T) {
	got := map[string]int{}
	for seed := uint64(1); seed <= 400; seed++ {
		out, res := runRV(seed, func(res *[]string) {
			ch := make(chan int)
			quit := make(chan struct{})
			done := make(chan struct{}, 1)
			sender := ""
			Go(1, func() {
				// a deliver-like select: send or give up
				switch Select(2, false, SendCase{Ch: ch}, quit) {
				case 0:
					ch <- 7
					sender = "sent"
				case 1:
					<-quit
					sender = "gave-up"
				}
				SendWait(3, done)
				done <- struct{}{}
			})
			// a poll: succeeds only if the sender is already waiting at the channel
			switch Select(4, true, ch) {
			case 0:
				v := <-ch
				*res = append(*res, fmt.Sprint("polled ", v))
			default:
				*res = append(*res, "nothing")
				PreClose(5, quit)
				close(quit)
			}
			RecvWait(6, done)
			<-done
			*res = append(*res, sender)
		})
		if out.Machinery != "" || len(out.Parked) > 0 || len(out.Crashes) > 0 {
			t.Fatalf("seed %d: machinery=%q parked=%v crashes=%v", seed, out.Machinery, out.Parked, out.Crashes)
		}
		got[fmt.Sprint(res)]++
	}
	// both outcomes of the real program must occur: the poll finds the sender waiting (either side may record
	// first), or it finds nothing and the sender gives up when quit is closed ... or still meets nobody
	for k := range got {
		switch k {
		case "[polled 7 sent]", "[nothing gave-up]":
		default:
			t.Fatalf("impossible outcome %s", k)
		}
	}
	if got["[nothing gave-up]"] == 0 || got["[polled 7 sent]"] == 0 {
		t.Fatalf("outcomes not all reached: %v", got)
	}
}

func TestRendezvousNoPartner(t *testing.T) {
	out, _ := runRV(1, func(res *[]string) {
		ch := make(chan int)
		SendWait(1, ch)
		ch <- 1
	})
	if len(out.Parked) != 1 || out.Machinery != "" {
		t.Fatalf("a send nobody receives must be reported as parked: parked=%v machinery=%q", out.Parked, out.Machinery)
	}
}

func TestRendezvousDeterministic(t *testing.T) {
	for seed := uint64(1); seed <= 50; seed++ {
		var hashes []uint64
		for k := 0; k < 3; k++ {
			out, _ := runRV(seed, func(res *[]string) {
				ch := make(chan int)
				done := make(chan struct{}, 3)
				for w := 0; w < 3; w++ {
					w := w
					Go(1, func() {
						if w == 0 {
							for i := 0; i < 4; i++ {
								SendWait(2, ch)
								ch <- i
							}
						} else {
							for i := 0; i < 2; i++ {
								RecvWait(3, ch)
								<-ch
							}
						}
						SendWait(4, done)
						done <- struct{}{}
					})
				}
				for w := 0; w < 3; w++ {
					RecvWait(5, done)
					<-done
				}
			})
			if len(out.Parked) > 0 || out.Machinery != "" {
				t.Fatalf("seed %d: parked=%v machinery=%q", seed, out.Parked, out.Machinery)
			}
			hashes = append(hashes, out.LogHash)
		}
		if hashes[0] != hashes[1] || hashes[1] != hashes[2] {
			t.Fatalf("seed %d: log hashes differ: %v", seed, hashes)
		}
	}
}

func TestCtxAfterFunc(t *testing.T) {
	for seed := uint64(1); seed <= 100; seed++ {
		out, res := runRV(seed, func(res *[]string) {
			ctx, cancel := WithCancel(context.Background())
			done := make(chan struct{}, 2)
			x := 0
			stop := CtxAfterFunc(ctx, func() {
				x++ // ordered after the cancel by the context
				SendWait(1, done)
				done <- struct{}{}
			})
			_ = stop
			ctx2, cancel2 := WithCancel(context.Background())
			stop2 := CtxAfterFunc(ctx2, func() { *res = append(*res, "must not run") })
			if !stop2() {
				*res = append(*res, "stop reported false")
			}
			cancel2()
			x = 41
			cancel()
			RecvWait(2, done)
			<-done
			*res = append(*res, fmt.Sprint(x))
		})
		if out.Machinery != "" || len(out.Parked) > 0 || len(out.Crashes) > 0 {
			t.Fatalf("seed %d: machinery=%q parked=%v crashes=%v", seed, out.Machinery, out.Parked, out.Crashes)
		}
		if fmt.Sprint(res) != "[42]" {
			t.Fatalf("seed %d: %v", seed, res)
		}
	}
}

func TestTargetNthHold(t *testing.T) {
	// task A passes the target site twice; the second arrival is held back hard: B gets (nearly) all its 30 steps in between
	late := 0
	for seed := uint64(1); seed <= 50; seed++ {
		var order []string
		s := New(Config{Seed: seed, Strategy: "target", TargetSite: 7, TargetNth: 2, MaxSteps: 10000})
		s.Run(func() {
			done := make(chan struct{}, 2)
			Go(1, func() {
				AtomicPoint(7)
				order = append(order, "a1")
				AtomicPoint(7)
				order = append(order, "a2")
				SendWait(2, done)
				done <- struct{}{}
			})
			Go(3, func() {
				for i := 0; i < 30; i++ {
					Yield(4)
				}
				order = append(order, "b-done")
				SendWait(5, done)
				done <- struct{}{}
			})
			RecvWait(6, done)
			<-done
			RecvWait(6, done)
			<-done
		})
		if fmt.Sprint(order) == "[a1 b-done a2]" {
			late++
		}
	}
	if late < 30 {
		t.Fatalf("the second arrival was held until the other task had finished in only %d of 50 runs", late)
	}
}
