// Package simrt is the deterministic simulator runtime that the rewritten
// go-dblib sources call instead of the Go primitives for locks, channels,
// goroutines, contexts, the network, randomness, sync.Pool and map iteration.
//
// Exactly one goroutine runs at any time: either the scheduler (the goroutine
// that called (*Sim).Run) or the task holding the baton.  A task hands the
// baton back to the scheduler on every simrt call ("request"); the scheduler
// decides, from one seeded choice stream (or a replay tape), who runs next.
//
// Discipline that keeps the Go race detector meaningful (DESIGN.md 3.3):
//   - baton hand-offs happen inside raceDisable()/raceEnable(), so they create
//     no happens-before edge the detector can see;
//   - everything a task and the scheduler share (the Task record) is touched
//     only in //go:norace functions through plain loads/stores - no maps, no
//     copy(), which are instrumented inside the runtime;
//   - all models (locks, closed channels, timers, transport) are private to
//     the scheduler goroutine;
//   - at the end of a run the scheduler acquires from every task (raceAcquire
//     of the per-task address each task releases on every hand-off), so the
//     oracles may read what tasks recorded.
package simrt

import (
	"fmt"
	"sort"
	"strings"
	"time"
)

// Choice is one recorded answer of the choice stream.
type Choice struct {
	N int `json:"n"`
	C int `json:"c"`
}

// Config are the simulator knobs of one run.
type Config struct {
	Seed     uint64 `json:"seed"`
	MaxSteps int    `json:"max_steps"`
	// Strategy: "sticky" (P = switch probability in percent), "pct" (D change points), "uniform".
	Strategy string `json:"strategy"`
	StickyP  int    `json:"sticky_p"`
	PCTDepth int    `json:"pct_depth"`
	// TargetSite (strategy "target"): the site in front of which other tasks are preferred.
	TargetSite int `json:"target_site,omitempty"`
	// TargetNth > 0: only the n-th arrival of any task at the target site is held back, and hard.
	TargetNth int `json:"target_nth,omitempty"`
	// ColdQueueLocks: lock operations on sites marked cold by the rewriter
	// (PacketQueue's private mutex) are not scheduling points.
	ColdQueueLocks bool `json:"cold_queue_locks"`
	// CtxErrPoints: ctx.Err() is a scheduling point.
	CtxErrPoints bool `json:"ctx_err_points,omitempty"`
	// EOFReadCostMs is the simulated cost of one Read that returns io.EOF.
	EOFReadCostMs int `json:"eof_read_cost_ms"`
	// SlowPeer: pauses of the peer of the first connection (a slow reader: writes block when its socket buffer is
	// full, and go on when it reads again).
	SlowPeer []Stall `json:"slow_peer,omitempty"`
	// Replay, if non-nil, answers the choice stream. Lenient replay answers 0 when the tape is exhausted.
	Replay  []Choice `json:"-"`
	Lenient bool     `json:"-"`
	// Cycle makes the tape wrap around when exhausted (with Lenient: choices are reduced modulo n).
	Cycle bool `json:"-"`
	// KeepLog keeps the full event log (otherwise only a hash and a tail).
	KeepLog bool `json:"-"`
	// ZeroReadSpin is the number of consecutive zero-length reads on a connection that counts as a livelock.
	ZeroReadSpin int `json:"-"`
}

// Event is one entry of the run's event log.
type Event struct {
	Seq  int           `json:"seq"`
	Now  time.Duration `json:"now"`
	Task string        `json:"task"`
	Site int           `json:"site"`
	Op   string        `json:"op"`
	Info string        `json:"info,omitempty"`
}

func (e Event) String() string {
	return fmt.Sprintf("%d t=%v %s @%d %s %s", e.Seq, e.Now, e.Task, e.Site, e.Op, e.Info)
}

// Rec is a record made by world code (client tasks, hooks) or by the peer.
type Rec struct {
	Seq  int
	Now  time.Duration
	Task string
	Kind string
	A    string
	B    string
	N    int64
}

// Park describes a task that is still waiting when a run ends.
type Park struct {
	Task string `json:"task"`
	Op   string `json:"op"`
	Site int    `json:"site"`
}

// Crash describes a task that ended by panic.
type Crash struct {
	Task  string `json:"task"`
	Value string `json:"value"`
	Stack string `json:"stack"`
}

// Outcome is what the scheduler knows at the end of a run.
type Outcome struct {
	Steps      int
	Now        time.Duration
	Parked     []Park // tasks still waiting at the end (deadlock if the workload expected them to finish)
	Crashes    []Crash
	Budget     bool   // MaxSteps exhausted
	Livelock   string // non-empty: description
	Diverged   string // replay divergence (machinery problem)
	Machinery  string // simulator cannot model something (exit 2)
	Races      int
	LogHash    uint64
	Tape       []Choice
	Log        []Event // full log if KeepLog, else the tail
	Recs       []Rec
	SiteHits   map[int]int
	Switches   int // context switches (consecutive steps by different tasks)
	SwitchAt   map[[2]int]int
	FaultFired map[string]int
	SimTime    time.Duration
	// Ended: when (simulated time) each task that finished did so.
	Ended []TaskEnd
}

// TaskEnd is the end of a task.
type TaskEnd struct {
	Task string
	At   time.Duration
}

// Sim is one simulated execution.
type Sim struct {
	cfg   Config
	rng   rng
	tape  []Choice
	rpos  int
	now   time.Duration
	steps int

	tasks []*Task
	cur   *Task
	back  chan struct{}
	// pairA, pairB: the two tasks running at once after a rendezvous (nil otherwise)
	pairA, pairB *Task
	// targeted preemption: arrivals at the target site so far, and the task being held back
	targetArrivals int
	heldTask       *Task
	lastRan        *Task

	locks  map[uintptr]*lockState
	onces  map[uintptr]*onceState
	wgs    map[uintptr]int
	wgKeep map[uintptr]interface{}
	// ctxByDone / timerByChan: whose channel is this (race detector edges for receives, see simCtx.syncVar)
	ctxByDone   map[uintptr]*simCtx
	timerByChan map[uintptr]*Timer
	closed      map[uintptr]interface{}
	timers      []*simCtx // active deadline contexts
	// library timers (time.After / NewTimer / AfterFunc / NewTicker) on the simulated clock
	ltimers []*Timer
	tseq    int
	afn     int
	evq     []*simEvent
	evseq   int
	ctxN    int

	log     []Event
	logHash uint64
	recs    []Rec
	seq     int

	siteHits   map[int]int
	switches   int
	switchAt   map[[2]int]int
	faultFired map[string]int
	lastSite   int

	// pct strategy state
	prio      map[int]int
	changeAt  []int
	nextPrio  int
	diverged  string
	machinery string
	livelock  string

	Net *Net

	randPos   uint64

	randPos1 uint64 // position of the stream that serves one-byte reads
	poolStats PoolStats
	randLog   []RandDraw
	rootDone  bool
}

var cur *Sim

// Current returns the active simulation (nil in pass-through mode).
func Current() *Sim { return cur }

// New creates a simulation. Only one may be active per process at a time.
func New(cfg Config) *Sim {
	if cfg.MaxSteps == 0 {
		cfg.MaxSteps = 20000
	}
	if cfg.ZeroReadSpin == 0 {
		cfg.ZeroReadSpin = 300
	}
	if cfg.EOFReadCostMs == 0 {
		cfg.EOFReadCostMs = 500
	}
	s := &Sim{
		cfg:         cfg,
		back:        make(chan struct{}),
		locks:       map[uintptr]*lockState{},
		onces:       map[uintptr]*onceState{},
		wgs:         map[uintptr]int{},
		wgKeep:      map[uintptr]interface{}{},
		ctxByDone:   map[uintptr]*simCtx{},
		timerByChan: map[uintptr]*Timer{},
		closed:      map[uintptr]interface{}{},
		siteHits:    map[int]int{},
		switchAt:    map[[2]int]int{},
		faultFired:  map[string]int{},
		prio:        map[int]int{},
		logHash:     1469598103934665603,
	}
	s.rng.seed(cfg.Seed ^ 0x9e3779b97f4a7c15)
	s.Net = newNet(s)
	if cfg.Strategy == "pct" {
		d := cfg.PCTDepth
		for i := 0; i < d-1; i++ {
			s.changeAt = append(s.changeAt, 1+s.rng.intn(400))
		}
		sort.Ints(s.changeAt)
		s.nextPrio = -1
	}
	return s
}

// Now returns the simulated time.
//
//go:norace
func (s *Sim) Now() time.Duration { return s.now }

// Fault counts a fault that actually fired.
func (s *Sim) Fault(kind string) { s.faultFired[kind]++ }

// Choose draws from the choice stream (scheduler goroutine only).
func (s *Sim) Choose(n int) int { return s.choose(n, nil) }

func (s *Sim) choose(n int, weights func(i int) int) int {
	if n <= 1 {
		return 0
	}
	var c int
	if s.cfg.Replay != nil {
		if s.cfg.Cycle && len(s.cfg.Replay) > 0 && s.rpos >= len(s.cfg.Replay) {
			s.rpos = 0
		}
		if s.rpos >= len(s.cfg.Replay) {
			if !s.cfg.Lenient && s.diverged == "" {
				s.diverged = fmt.Sprintf("tape exhausted at choice %d (n=%d)", s.rpos, n)
			}
			c = 0
		} else {
			e := s.cfg.Replay[s.rpos]
			if e.N != n && !s.cfg.Lenient && s.diverged == "" {
				s.diverged = fmt.Sprintf("choice %d: tape has n=%d, run asks n=%d", s.rpos, e.N, n)
			}
			c = e.C
			if c >= n || c < 0 {
				if s.cfg.Cycle {
					c = ((c % n) + n) % n
				} else {
					c = 0
				}
			}
		}
		s.rpos++
	} else if weights != nil {
		total := 0
		for i := 0; i < n; i++ {
			total += weights(i)
		}
		if total <= 0 {
			c = s.rng.intn(n)
		} else {
			r := s.rng.intn(total)
			for i := 0; i < n; i++ {
				r -= weights(i)
				if r < 0 {
					c = i
					break
				}
			}
		}
	} else {
		c = s.rng.intn(n)
	}
	s.tape = append(s.tape, Choice{n, c})
	return c
}

func (s *Sim) logEvent(t *Task, site int, op, info string) {
	name := "sched"
	if t != nil {
		name = t.name
	}
	e := Event{Seq: s.seq, Now: s.now, Task: name, Site: site, Op: op, Info: info}
	s.seq++
	// FNV-1a over the rendered event
	str := e.String()
	h := s.logHash
	for i := 0; i < len(str); i++ {
		h ^= uint64(str[i])
		h *= 1099511628211
	}
	s.logHash = h
	if s.cfg.KeepLog || len(s.log) < 400 {
		s.log = append(s.log, e)
	} else {
		// keep a tail of 200
		n := 0
		for i := len(s.log) - 199; i < len(s.log); i++ {
			s.log[n] = s.log[i]
			n++
		}
		s.log = append(s.log[:n], e)
	}
}

// Run executes root as the first task and schedules until quiescence,
// deadlock, budget exhaustion or a livelock verdict.
func (s *Sim) Run(root func()) *Outcome {
	if cur != nil {
		panic("simrt: a simulation is already active")
	}
	cur = s
	defer func() { cur = nil }()
	races0 := raceErrors()

	rt := s.newTask("root", root)
	s.startTask(rt)

	for {
		if s.steps >= s.cfg.MaxSteps || s.livelock != "" || s.machinery != "" {
			break
		}
		// collect candidates
		var cands []*Task
		for _, t := range s.tasks {
			if t.state == stWaiting && s.grantable(t) {
				cands = append(cands, t)
			}
		}
		nev := s.dueEvents()
		if len(cands)+nev == 0 {
			if !s.advanceClock() {
				break
			}
			continue
		}
		// cold fast path: the task that just ran posted a cold request that is grantable
		if lr := s.lastRan; lr != nil && lr.state == stWaiting && lr.req.cold && s.grantable(lr) {
			s.runTask(lr, false)
			continue
		}
		c := s.pick(cands, nev)
		if c < len(cands) {
			s.runTask(cands[c], true)
		} else {
			ev := s.popDueEvent(c - len(cands))
			s.steps++
			s.logEvent(nil, 0, "event", ev.name)
			ev.fn()
			s.lastRan = nil
		}
	}

	out := &Outcome{
		Steps:      s.steps,
		Now:        s.now,
		Budget:     s.steps >= s.cfg.MaxSteps,
		Livelock:   s.livelock,
		Diverged:   s.diverged,
		Machinery:  s.machinery,
		LogHash:    s.logHash,
		Tape:       s.tape,
		Log:        s.log,
		SiteHits:   s.siteHits,
		Switches:   s.switches,
		SwitchAt:   s.switchAt,
		FaultFired: s.faultFired,
		SimTime:    s.now,
	}
	for _, t := range s.tasks {
		raceAcquire(t.syncAddr())
		switch t.state {
		case stWaiting:
			out.Parked = append(out.Parked, Park{Task: t.name, Op: t.req.kind.String(), Site: t.req.site})
		case stCrashed:
			out.Crashes = append(out.Crashes, Crash{Task: t.name, Value: t.crashVal, Stack: t.crashStack})
		}
		if t.ended {
			out.Ended = append(out.Ended, TaskEnd{Task: t.name, At: t.endedAt})
		}
	}
	if s.cfg.Replay != nil && !s.cfg.Lenient && !s.cfg.Cycle && s.diverged == "" && s.rpos < len(s.cfg.Replay) && !out.Budget {
		out.Diverged = fmt.Sprintf("run used %d of %d tape entries", s.rpos, len(s.cfg.Replay))
	}
	out.Recs = s.recs
	out.Races = raceErrors() - races0
	return out
}

// pick chooses the next runnable task or due event according to the strategy.
func (s *Sim) pick(cands []*Task, nev int) int {
	n := len(cands) + nev
	if n == 1 {
		return 0
	}
	switch s.cfg.Strategy {
	case "target":
		if s.cfg.TargetNth > 0 {
			// the task that made the n-th arrival at the target site is held back hard while anything else can run:
			// the others do all they can right in front of that one operation
			held := -1
			for i, t := range cands {
				if t == s.heldTask {
					held = i
				}
			}
			return s.choose(n, func(i int) int {
				if held >= 0 && i != held {
					return 40
				}
				return 1
			})
		}
		// uniform walk, but a task that stands at the target site is held back (three times out of four) while
		// anything else can run: whatever the others were about to do lands right in front of that operation
		at := false
		for _, t := range cands {
			if t.req.site == s.cfg.TargetSite && s.cfg.TargetSite != 0 {
				at = true
			}
		}
		return s.choose(n, func(i int) int {
			if at && i < len(cands) && cands[i].req.site == s.cfg.TargetSite {
				return 1
			}
			if at {
				return 3
			}
			return 1
		})
	case "sticky":
		// keep the last task with probability 1-p
		idx := -1
		for i, t := range cands {
			if t == s.lastRan {
				idx = i
			}
		}
		p := s.cfg.StickyP
		if p <= 0 {
			p = 20
		}
		return s.choose(n, func(i int) int {
			if idx < 0 {
				return 1
			}
			if i == idx {
				return (100 - p) * (n - 1)
			}
			return p
		})
	case "pct":
		for len(s.changeAt) > 0 && s.steps >= s.changeAt[0] {
			s.changeAt = s.changeAt[1:]
			if s.lastRan != nil {
				s.prio[s.lastRan.id] = s.nextPrio
				s.nextPrio--
			}
		}
		best, bestP := 0, -1<<30
		for i, t := range cands {
			p, ok := s.prio[t.id]
			if !ok {
				p = 1 + s.rng.intn(1000)
				s.prio[t.id] = p
			}
			if p > bestP {
				best, bestP = i, p
			}
		}
		// events compete with a random priority each time
		for j := 0; j < nev; j++ {
			p := 1 + s.rng.intn(1000)
			if p > bestP {
				best, bestP = len(cands)+j, p
			}
		}
		b := best
		return s.choose(n, func(i int) int {
			if i == b {
				return 1
			}
			return 0
		})
	default:
		return s.choose(n, nil)
	}
}

func (s *Sim) runTask(t *Task, counted bool) {
	if counted {
		s.steps++
		s.siteHits[t.req.site]++
		if s.lastRan != nil && s.lastRan != t {
			s.switches++
			s.switchAt[[2]int{s.lastSite, t.req.site}]++
		}
		s.lastSite = t.req.site
	}
	if t.req.kind == opLock && !t.lockArrived {
		// the task now executes its Lock call (or, queued behind another writer, gets the writers' mutex)
		ls := s.lockOf(t.req.obj, t.req.keep)
		switch {
		case ls.writer:
			// Held by a writer: the task queues on the writers' mutex. It has NOT yet announced itself to readers -
			// in sync.RWMutex that happens only after the writers' mutex was acquired. The readers that wait for
			// the current writer are let in by its Unlock before this task can get any further.
			if !t.lockQueued {
				t.lockQueued = true
				if counted || s.cfg.KeepLog {
					s.logEvent(t, t.req.site, "lock-wait", "behind a writer")
				}
			}
			s.lastRan = t
			return
		case ls.readers > 0:
			// held by readers: the task announces itself (new readers wait from now on) and waits for them
			t.lockQueued = false
			t.lockArrived = true
			ls.pendingW++
			if counted || s.cfg.KeepLog {
				s.logEvent(t, t.req.site, "lock-wait", "")
			}
			s.lastRan = t
			return
		}
		t.lockQueued = false
	}
	info := s.grant(t)
	if counted || s.cfg.KeepLog {
		s.logEvent(t, t.req.site, t.req.kind.String(), info)
	}
	t.state = stRunning
	s.lastRan = t
	if o := t.pair; o != nil {
		// a rendezvous on an unbuffered channel: both partners go on together, meet in the real channel operation
		// and run - the only time two tasks do - until each has reached its next seam
		t.pair = nil
		if counted || s.cfg.KeepLog {
			s.logEvent(o, o.req.site, o.req.kind.String(), "rendezvous with "+t.name)
		}
		o.state = stRunning
		s.pairA, s.pairB = t, o
		s.resumePair(t, o)
		s.pairA, s.pairB = nil, nil
		s.afterRun(t)
		s.afterRun(o)
		return
	}
	s.cur = t
	s.resume(t)
	s.cur = nil
	s.afterRun(t)
}

// afterRun processes the notes the task left and classifies its new request.
func (s *Sim) afterRun(t *Task) {
	for i := 0; i < len(t.notes); i++ {
		s.applyNote(t, &t.notes[i])
	}
	if (t.state == stDone || t.state == stCrashed) && !t.ended {
		t.ended, t.endedAt = true, s.now
	}
	t.notes = t.notes[:0]
	if t == s.heldTask {
		s.heldTask = nil // it has run: the hold is over
	}
	if t.state == stWaiting {
		s.enterWait(t)
		if s.cfg.TargetNth > 0 && t.req.site == s.cfg.TargetSite && s.cfg.TargetSite != 0 {
			s.targetArrivals++
			if s.targetArrivals == s.cfg.TargetNth {
				s.heldTask = t
			}
		}
	}
}

// advanceClock jumps to the next timer, sleeper or event. Returns false if there is none.
func (s *Sim) advanceClock() bool {
	next := time.Duration(-1)
	consider := func(d time.Duration) {
		if next < 0 || d < next {
			next = d
		}
	}
	for _, c := range s.timers {
		consider(c.deadline)
	}
	for _, tm := range s.ltimers {
		consider(tm.due)
	}
	for _, e := range s.evq {
		consider(e.at)
	}
	for _, t := range s.tasks {
		if t.state == stWaiting && t.req.kind == opSleep {
			consider(t.wakeAt)
		}
		if t.state == stWaiting && t.req.kind == opRead && t.wakeAt > s.now {
			// (a poll time that has passed without making the read ready - the period of EOF reads ended while it
			// was parked - is no reason to wake up)
			consider(t.wakeAt)
		}
		if t.state == stWaiting && t.req.kind == opRead && t.req.conn.rdlSet {
			consider(t.req.conn.rdl)
		}
		if t.state == stWaiting && t.req.kind == opWrite && t.req.conn.wdlSet {
			consider(t.req.conn.wdl)
		}
	}
	if next < 0 {
		return false
	}
	if next > s.now {
		s.now = next
	}
	s.fireTimers()
	return true
}

func (s *Sim) fireTimers() {
	for {
		var best *simCtx
		for _, c := range s.timers {
			if c.deadline <= s.now && (best == nil || c.deadline < best.deadline || (c.deadline == best.deadline && c.seq < best.seq)) {
				best = c
			}
		}
		if best == nil {
			s.fireLibTimers()
			return
		}
		s.logEvent(nil, 0, "timer", fmt.Sprintf("ctx#%d", best.seq))
		s.cancelCtx(best, errDeadline)
	}
}

// ---- events (peer / transport side) ----

type simEvent struct {
	at   time.Duration
	seq  int
	name string
	fn   func()
}

// After schedules fn (run in the scheduler goroutine) at now+d. Events whose
// time has come compete with runnable tasks for the next step.
func (s *Sim) After(d time.Duration, name string, fn func()) {
	s.evseq++
	s.evq = append(s.evq, &simEvent{at: s.now + d, seq: s.evseq, name: name, fn: fn})
}

// dueEvents returns the number of events eligible for the next step. Events
// are delivered in (time, sequence) order - they model one ordered stream per
// connection - so at most the earliest due event is eligible.
func (s *Sim) dueEvents() int {
	for _, e := range s.evq {
		if e.at <= s.now {
			return 1
		}
	}
	return 0
}

// popDueEvent removes and returns the i-th due event in (at, seq) order.
func (s *Sim) popDueEvent(i int) *simEvent {
	var due []*simEvent
	for _, e := range s.evq {
		if e.at <= s.now {
			due = append(due, e)
		}
	}
	sort.Slice(due, func(a, b int) bool {
		if due[a].at != due[b].at {
			return due[a].at < due[b].at
		}
		return due[a].seq < due[b].seq
	})
	ev := due[i]
	for j, e := range s.evq {
		if e == ev {
			s.evq = append(s.evq[:j], s.evq[j+1:]...)
			break
		}
	}
	return ev
}

// Machinery records that the simulator met something it cannot model.
func (s *Sim) Machinery(format string, a ...interface{}) {
	if s.machinery == "" {
		s.machinery = fmt.Sprintf(format, a...)
	}
}

// machineryFromTask records a machinery problem from a task goroutine (the scheduler is parked meanwhile).
//
//go:norace
func (s *Sim) machineryFromTask(msg string) {
	if s.machinery == "" {
		s.machinery = msg
	}
}

// FormatLog renders events one per line.
func FormatLog(ev []Event) string {
	var b strings.Builder
	for _, e := range ev {
		b.WriteString(e.String())
		b.WriteByte('\n')
	}
	return b.String()
}

// ---- PRNG (splitmix64) ----

type rng struct{ s uint64 }

func (r *rng) seed(v uint64) { r.s = v }
func (r *rng) next() uint64 {
	r.s += 0x9e3779b97f4a7c15
	z := r.s
	z = (z ^ (z >> 30)) * 0xbf58476d1ce4e5b9
	z = (z ^ (z >> 27)) * 0x94d049bb133111eb
	return z ^ (z >> 31)
}
func (r *rng) intn(n int) int {
	if n <= 0 {
		return 0
	}
	return int(r.next() % uint64(n))
}
