package simrt

import (
	"reflect"
	"sync"
	"sync/atomic"
	"time"
	"unsafe"
)

// ---- mutexes ----
//
// The real mutex is always operated (it carries the memory-model edges the
// race detector sees); the scheduler's model decides when that is possible
// without blocking, and implements RWMutex writer preference.

//go:norace
func lockReq(kind opKind, site int, cold bool, p unsafe.Pointer, keep interface{}) {
	t := me()
	t.req = request{kind: kind, site: site, cold: cold, obj: uintptr(p), keep: keep}
	t.call()
}

//go:norace
func unlockPoint(site int, cold bool) {
	t := me()
	t.req = request{kind: opUnlockPt, site: site, cold: cold}
	t.call()
}

//go:norace
func isCold(site int) bool {
	s := cur
	return site < 0 && s.cfg.ColdQueueLocks
}

func abs(site int) int {
	if site < 0 {
		return -site
	}
	return site
}

// MutexLock replaces (*sync.Mutex).Lock. A negative site marks a cold site.
//
//go:norace
func MutexLock(site int, m *sync.Mutex) {
	if me() == nil {
		m.Lock()
		return
	}
	lockReq(opLock, abs(site), isCold(site), unsafe.Pointer(m), m)
	if !m.TryLock() {
		panic("simrt: model granted a Mutex.Lock the real mutex refuses")
	}
}

//go:norace
func MutexUnlock(site int, m *sync.Mutex) {
	t := me()
	if t == nil {
		m.Unlock()
		return
	}
	unlockPoint(abs(site), isCold(site))
	m.Unlock()
	t.addNote(note{kind: noteUnlock, obj: uintptr(unsafe.Pointer(m)), keep: m})
}

//go:norace
func MutexTryLock(site int, m *sync.Mutex) bool {
	t := me()
	if t == nil {
		return m.TryLock()
	}
	Yield(abs(site))
	ok := m.TryLock()
	if ok {
		t.addNote(note{kind: noteTryLocked, obj: uintptr(unsafe.Pointer(m)), keep: m})
	}
	return ok
}

//go:norace
func RWLock(site int, m *sync.RWMutex) {
	if me() == nil {
		m.Lock()
		return
	}
	lockReq(opLock, abs(site), isCold(site), unsafe.Pointer(m), m)
	if !m.TryLock() {
		panic("simrt: model granted a RWMutex.Lock the real mutex refuses")
	}
}

//go:norace
func RWUnlock(site int, m *sync.RWMutex) {
	t := me()
	if t == nil {
		m.Unlock()
		return
	}
	unlockPoint(abs(site), isCold(site))
	m.Unlock()
	t.addNote(note{kind: noteUnlock, obj: uintptr(unsafe.Pointer(m)), keep: m})
}

//go:norace
func RWRLock(site int, m *sync.RWMutex) {
	if me() == nil {
		m.RLock()
		return
	}
	lockReq(opRLock, abs(site), isCold(site), unsafe.Pointer(m), m)
	if !m.TryRLock() {
		panic("simrt: model granted a RWMutex.RLock the real mutex refuses")
	}
}

//go:norace
func RWRUnlock(site int, m *sync.RWMutex) {
	t := me()
	if t == nil {
		m.RUnlock()
		return
	}
	unlockPoint(abs(site), isCold(site))
	m.RUnlock()
	t.addNote(note{kind: noteRUnlock, obj: uintptr(unsafe.Pointer(m)), keep: m})
}

//go:norace
func RWTryLock(site int, m *sync.RWMutex) bool {
	t := me()
	if t == nil {
		return m.TryLock()
	}
	Yield(abs(site))
	ok := m.TryLock()
	if ok {
		t.addNote(note{kind: noteTryLocked, obj: uintptr(unsafe.Pointer(m)), keep: m})
	}
	return ok
}

//go:norace
func RWTryRLock(site int, m *sync.RWMutex) bool {
	t := me()
	if t == nil {
		return m.TryRLock()
	}
	Yield(abs(site))
	ok := m.TryRLock()
	if ok {
		t.addNote(note{kind: noteTryRLocked, obj: uintptr(unsafe.Pointer(m)), keep: m})
	}
	return ok
}

// ---- sync.Once, sync.WaitGroup ----

// OnceDo replaces (*sync.Once).Do: the scheduler decides who runs f; the real Once is still used, so the
// detector sees its happens-before edges.
//
//go:norace
func OnceDo(site int, o *sync.Once, f func()) {
	t := me()
	if t == nil {
		o.Do(f)
		return
	}
	t.req = request{kind: opOnce, site: site, obj: uintptr(unsafe.Pointer(o)), keep: o}
	t.call()
	if t.resp.idx == 1 {
		// a Once counts as done even if f panics
		defer t.addNote(note{kind: noteOnceDone, obj: uintptr(unsafe.Pointer(o)), keep: o})
		o.Do(f)
		return
	}
	o.Do(func() {})
}

//go:norace
func WGAdd(site int, wg *sync.WaitGroup, n int) {
	t := me()
	if t == nil {
		wg.Add(n)
		return
	}
	Yield(site)
	wg.Add(n)
	t.addNote(note{kind: noteWGAdd, obj: uintptr(unsafe.Pointer(wg)), keep: wg, n: n})
}

//go:norace
func WGDone(site int, wg *sync.WaitGroup) { WGAdd(site, wg, -1) }

//go:norace
func WGWait(site int, wg *sync.WaitGroup) {
	t := me()
	if t == nil {
		wg.Wait()
		return
	}
	t.req = request{kind: opWGWait, site: site, obj: uintptr(unsafe.Pointer(wg)), keep: wg}
	t.call()
	wg.Wait()
}

// ---- channels ----
//
// The rewriter keeps the real channel operation and puts a Wait call in
// front of it; the scheduler grants the wait only when the real operation
// cannot block, and nothing else runs between the grant and the operation.

// pass-through bookkeeping of closed channels (only used without a simulation)
var (
	ptMu     sync.Mutex
	ptClosed = map[uintptr]interface{}{}
)

// SendWait precedes `ch <- v`.
//
//go:norace
func SendWait(site int, ch interface{}) {
	t := me()
	if t == nil {
		return
	}
	t.req = request{kind: opSend, site: site, keep: ch}
	t.call()
}

// RecvWait precedes a receive from ch.
//
//go:norace
func RecvWait(site int, ch interface{}) {
	t := me()
	if t == nil {
		return
	}
	t.req = request{kind: opRecv, site: site, keep: ch}
	t.call()
	acquireFor(t)
}

// acquireFor: the task is about to receive from a channel. If it is the done channel of a context or the channel
// of a timer (the scheduler has looked that up), the task acquires what a real context / timer would hand to the
// receiver.
//
//go:norace
func acquireFor(t *Task) {
	if c := t.resp.actx; c != nil && c.err != nil {
		acquireCtx(c)
	}
	if tm := t.resp.atm; tm != nil {
		raceAcquire(tm.syncAddr())
	}
	t.resp.actx, t.resp.atm = nil, nil
}

// PreClose precedes close(ch).
//
//go:norace
func PreClose(site int, ch interface{}) {
	t := me()
	id, _ := chanID(ch)
	if t == nil {
		ptMu.Lock()
		ptClosed[id] = ch
		ptMu.Unlock()
		return
	}
	t.req = request{kind: opClosePt, site: site}
	t.call()
	t.addNote(note{kind: noteClosed, obj: id, keep: ch})
}

// AdoptClosed tells the model that ch - a channel closed outside the simulator's view, such as the Done channel of
// a real context that was cancelled before it was handed to the library - is closed.
//
//go:norace
func AdoptClosed(ch interface{}) {
	t := me()
	id, _ := chanID(ch)
	if t == nil || id == 0 {
		return
	}
	t.addNote(note{kind: noteClosed, obj: id, keep: ch})
}

// SendCase marks an entry of Select's channel list as a send case.
type SendCase struct{ Ch interface{} }

// Select decides which case of a rewritten select fires: the index into
// chans (receive cases are passed as the channel itself, send cases wrapped
// in SendCase), or -1 for the default clause.
//
//go:norace
func Select(site int, hasDefault bool, chans ...interface{}) int {
	t := me()
	if t == nil {
		return ptSelect(hasDefault, chans)
	}
	cp := make([]interface{}, len(chans))
	for i := 0; i < len(chans); i++ {
		cp[i] = chans[i]
	}
	t.req = request{kind: opSelect, site: site, hasDefault: hasDefault, chans: cp}
	t.call()
	acquireFor(t)
	return t.resp.idx
}

func ptSelect(hasDefault bool, chans []interface{}) int {
	for {
		for i, c := range chans {
			if sc, ok := c.(SendCase); ok {
				id, v := chanID(sc.Ch)
				if id != 0 && v.Len() < v.Cap() {
					return i
				}
				continue
			}
			id, v := chanID(c)
			if id == 0 {
				continue
			}
			if v.Len() > 0 {
				return i
			}
			ptMu.Lock()
			_, closed := ptClosed[id]
			ptMu.Unlock()
			if closed {
				return i
			}
		}
		if hasDefault {
			return -1
		}
		time.Sleep(50 * time.Microsecond)
	}
}

// ---- goroutines ----

// Go replaces the go statement.
//
//go:norace
func Go(site int, fn func()) {
	t := me()
	if t == nil {
		go fn()
		return
	}
	child := t.s.newTask("go@"+itoa(site)+"#"+itoa(len(t.s.tasks)), fn)
	go child.main()
	t.addNote(note{kind: noteSpawn, child: child})
	t.post(opYield, site)
	t.call()
}

func itoa(i int) string {
	if i == 0 {
		return "0"
	}
	neg := i < 0
	if neg {
		i = -i
	}
	var b [20]byte
	p := len(b)
	for i > 0 {
		p--
		b[p] = byte('0' + i%10)
		i /= 10
	}
	if neg {
		p--
		b[p] = '-'
	}
	return string(b[p:])
}

// ---- atomics ----

//go:norace
func atomicPoint(site int) {
	t := me()
	if t == nil {
		return
	}
	t.post(opAtomic, site)
	t.call()
}

// AtomicPoint is the scheduling point in front of a statement that calls a method of a sync/atomic type.
func AtomicPoint(site int) { atomicPoint(site) }

func AtomicAddUint32(site int, p *uint32, d uint32) uint32 {
	atomicPoint(site)
	return atomic.AddUint32(p, d)
}
func AtomicAddUint64(site int, p *uint64, d uint64) uint64 {
	atomicPoint(site)
	return atomic.AddUint64(p, d)
}
func AtomicAddInt32(site int, p *int32, d int32) int32 {
	atomicPoint(site)
	return atomic.AddInt32(p, d)
}
func AtomicAddInt64(site int, p *int64, d int64) int64 {
	atomicPoint(site)
	return atomic.AddInt64(p, d)
}
func AtomicLoadUint32(site int, p *uint32) uint32 { atomicPoint(site); return atomic.LoadUint32(p) }
func AtomicLoadUint64(site int, p *uint64) uint64 { atomicPoint(site); return atomic.LoadUint64(p) }
func AtomicLoadInt32(site int, p *int32) int32    { atomicPoint(site); return atomic.LoadInt32(p) }
func AtomicLoadInt64(site int, p *int64) int64    { atomicPoint(site); return atomic.LoadInt64(p) }
func AtomicStoreUint32(site int, p *uint32, v uint32) {
	atomicPoint(site)
	atomic.StoreUint32(p, v)
}
func AtomicStoreUint64(site int, p *uint64, v uint64) {
	atomicPoint(site)
	atomic.StoreUint64(p, v)
}
func AtomicStoreInt32(site int, p *int32, v int32) { atomicPoint(site); atomic.StoreInt32(p, v) }
func AtomicStoreInt64(site int, p *int64, v int64) { atomicPoint(site); atomic.StoreInt64(p, v) }
func AtomicCompareAndSwapUint32(site int, p *uint32, o, n uint32) bool {
	atomicPoint(site)
	return atomic.CompareAndSwapUint32(p, o, n)
}
func AtomicCompareAndSwapUint64(site int, p *uint64, o, n uint64) bool {
	atomicPoint(site)
	return atomic.CompareAndSwapUint64(p, o, n)
}
func AtomicCompareAndSwapInt32(site int, p *int32, o, n int32) bool {
	atomicPoint(site)
	return atomic.CompareAndSwapInt32(p, o, n)
}
func AtomicCompareAndSwapInt64(site int, p *int64, o, n int64) bool {
	atomicPoint(site)
	return atomic.CompareAndSwapInt64(p, o, n)
}
func AtomicSwapUint32(site int, p *uint32, n uint32) uint32 {
	atomicPoint(site)
	return atomic.SwapUint32(p, n)
}
func AtomicSwapUint64(site int, p *uint64, n uint64) uint64 {
	atomicPoint(site)
	return atomic.SwapUint64(p, n)
}

var _ = reflect.ValueOf
