package simrt

import (
	"fmt"
	"reflect"
	"runtime"
	"runtime/debug"
	"time"
	"unsafe"
)

type opKind int

const (
	opNone opKind = iota
	opStart
	opYield
	opLock
	opRLock
	opUnlockPt // scheduling point before an unlock
	opSend
	opRecv
	opSelect
	opClosePt
	opAtomic
	opSleep
	opRead
	opWrite
	opNetClose
	opChoose
	opCancel
	opNewCtx
	opJoin
	opDial
	opRand
	opOnce
	opWGWait
	opTimer
	opCondWait
	opCondSignal
	opSched
	opCtxAfter
	opCtxAfterStop
)

var opNames = [...]string{"none", "start", "yield", "lock", "rlock", "unlock", "send", "recv", "select", "close", "atomic",
	"sleep", "read", "write", "netclose", "choose", "cancel", "newctx", "join", "dial", "rand", "once", "wgwait", "timer", "condwait", "condsignal", "sched", "ctxafterfunc", "ctxafterfunc-stop"}

func (k opKind) String() string { return opNames[k] }

const (
	stNew = iota
	stWaiting
	stRunning
	stDone
	stCrashed
)

type request struct {
	kind       opKind
	site       int
	cold       bool
	fn         func()
	obj        uintptr
	keep       interface{}
	chans      []interface{}
	hasDefault bool
	n          int
	dur        time.Duration
	buf        []byte
	ctx        *simCtx
	join       []*Task
	conn       *Conn
}

type response struct {
	n   int
	err error
	idx int
	// whose channel the granted receive is on (filled by the scheduler: tasks must not touch its maps)
	actx *simCtx
	atm  *Timer
}

type noteKind int

const (
	noteUnlock noteKind = iota
	noteRUnlock
	noteClosed
	noteSpawn
	noteTryLocked
	noteTryRLocked
	noteOnceDone
	noteWGAdd
	noteCondWait
)

type note struct {
	kind  noteKind
	obj   uintptr
	keep  interface{}
	child *Task
	n     int
}

// Task is one goroutine under the simulator's control.
type Task struct {
	ncalls  int // requests this task has posted (its own steps)
	ended   bool
	endedAt time.Duration
	id    int
	name  string
	s     *Sim
	baton chan struct{}
	fn    func()
	state int
	req   request
	resp  response
	notes []note

	// lockArrived: the task has executed its Lock call and found the mutex taken; only from then on is it a
	// pending writer (which blocks new readers). Before that it is merely about to call Lock - a plain
	// scheduling point, like a goroutine preempted just before the call.
	lockArrived bool
	// lockQueued: the Lock call found the mutex held by another WRITER: the task waits for the writers' mutex and
	// is not yet visible to readers. rlockPre: an RLock that waited for a writer was let in by that writer's Unlock
	// (it counts as a reader from then on, whenever the task gets to run).
	lockQueued bool
	rlockPre   bool
	wakeAt     time.Duration
	zeroReads  int
	crashVal   string
	crashStack string
	syncVar    byte
	waitSince  int
	// goid is the id of the task's goroutine (two tasks run at once for a moment after a rendezvous on an
	// unbuffered channel: me() tells them apart by it). pair: the partner of the rendezvous being granted.
	goid uint64
	pair *Task
}

//go:norace
func (t *Task) syncAddr() unsafe.Pointer { return unsafe.Pointer(&t.syncVar) }

// Name returns the task's name.
//
//go:norace
func (t *Task) Name() string { return t.name }

//go:norace
func (s *Sim) newTask(name string, fn func()) *Task {
	t := &Task{id: -1, name: name, s: s, baton: make(chan struct{}), fn: fn}
	return t
}

// startTask is called from the scheduler goroutine for the root task.
func (s *Sim) startTask(t *Task) {
	t.id = len(s.tasks)
	s.tasks = append(s.tasks, t)
	t.state = stWaiting
	t.req = request{kind: opStart}
	go t.main()
}

//go:norace
func (t *Task) main() {
	t.goid = curGoid()
	raceDisable()
	<-t.baton
	raceEnable()
	t.body()
	// hand the baton back for good
	raceReleaseMerge(t.syncAddr())
	raceDisable()
	t.s.back <- struct{}{}
	raceEnable()
}

func (t *Task) body() {
	defer func() {
		if r := recover(); r != nil {
			t.setCrashed(fmt.Sprint(r), string(debug.Stack()))
			return
		}
		t.setDone()
	}()
	t.fn()
}

//go:norace
func (t *Task) setCrashed(v, st string) {
	t.crashVal = v
	t.crashStack = st
	t.state = stCrashed
}

//go:norace
func (t *Task) setDone() { t.state = stDone }

// call posts t.req and waits until the scheduler grants it.
//
//go:norace
func (t *Task) call() {
	t.ncalls++
	t.state = stWaiting
	raceReleaseMerge(t.syncAddr())
	raceDisable()
	t.s.back <- struct{}{}
	<-t.baton
	raceEnable()
}

// resume gives the baton to t and waits until it comes back.
//
//go:norace
func (s *Sim) resume(t *Task) {
	raceDisable()
	t.baton <- struct{}{}
	<-s.back
	raceEnable()
}

// resumePair gives the baton to both partners of a rendezvous and waits until both have come back.
//
//go:norace
func (s *Sim) resumePair(a, b *Task) {
	raceDisable()
	a.baton <- struct{}{}
	b.baton <- struct{}{}
	<-s.back
	<-s.back
	raceEnable()
}

// me returns the running task, or nil in pass-through mode.
//
//go:norace
func me() *Task {
	s := cur
	if s == nil {
		return nil
	}
	if a := s.pairA; a != nil {
		// the two partners of a rendezvous are both running until each reaches its next seam
		id := curGoid()
		if id == a.goid {
			return a
		}
		if b := s.pairB; b != nil && id == b.goid {
			return b
		}
		return nil
	}
	return s.cur
}

// curGoid returns the id of the calling goroutine (parsed from the header of its stack trace).
//
//go:norace
func curGoid() uint64 {
	var buf [40]byte
	n := runtime.Stack(buf[:], false)
	// "goroutine 123 [running]:"
	var id uint64
	for i := len("goroutine "); i < n; i++ {
		c := buf[i]
		if c < '0' || c > '9' {
			break
		}
		id = id*10 + uint64(c-'0')
	}
	return id
}

//go:norace
func (t *Task) post(kind opKind, site int) {
	t.req = request{kind: kind, site: site}
}

//go:norace
func (t *Task) addNote(n note) {
	t.notes = append(t.notes, n)
}

// ---- API for worlds ----

// Spawn starts a new task running fn; the calling task continues. In the
// simulator the child runs only when scheduled.
//
//go:norace
func Spawn(name string, fn func()) *Task {
	t := me()
	if t == nil {
		panic("simrt.Spawn outside a simulation")
	}
	child := t.s.newTask(name, fn)
	go child.main()
	t.addNote(note{kind: noteSpawn, child: child})
	t.post(opYield, 0)
	t.call()
	return child
}

// Join waits until all given tasks have finished (or crashed).
//
//go:norace
func Join(ts ...*Task) {
	t := me()
	cp := make([]*Task, len(ts))
	for i := 0; i < len(ts); i++ {
		cp[i] = ts[i]
	}
	t.req = request{kind: opJoin, join: cp}
	t.call()
	for _, c := range ts {
		raceAcquire(c.syncAddr())
	}
}

// Sched runs fn in the scheduler goroutine, at a scheduling point of the calling task: the way a task of the harness
// changes what the scheduler owns (the peer's state, the transport's terminal condition) without touching it from
// its own goroutine.
//
//go:norace
func Sched(fn func()) {
	t := me()
	if t == nil {
		fn()
		return
	}
	t.req = request{kind: opSched, fn: fn}
	t.call()
}

// Yield is an explicit scheduling point.
//
//go:norace
func Yield(site int) {
	t := me()
	if t == nil {
		return
	}
	t.post(opYield, site)
	t.call()
}

// Sleep lets simulated time pass for the calling task.
//
//go:norace
func Sleep(d time.Duration) {
	t := me()
	if t == nil {
		time.Sleep(d)
		return
	}
	t.req = request{kind: opSleep, dur: d}
	t.call()
}

// ChooseInt asks the choice stream for a number in [0,n) from a task.
//
//go:norace
func ChooseInt(site, n int) int {
	t := me()
	if t == nil {
		return 0
	}
	t.req = request{kind: opChoose, site: site, n: n, cold: true}
	t.call()
	return t.resp.idx
}

// Record appends a record to the run's history, stamped with the global event sequence number.
//
//go:norace
func Record(kind, a, b string, n int64) int {
	s := cur
	if s == nil {
		return 0
	}
	name := "sched"
	if t := me(); t != nil {
		name = t.name
	}
	seq := s.seq
	s.seq++
	s.recs = append(s.recs, Rec{Seq: seq, Now: s.now, Task: name, Kind: kind, A: a, B: b, N: n})
	return seq
}

// SimNow returns the simulated time (for worlds).
//
//go:norace
// MySteps returns the number of requests (scheduling steps) the calling task has made so far: a measure of how much
// the task itself did between two points, whatever the others did meanwhile.
//
//go:norace
func MySteps() int {
	t := me()
	if t == nil {
		return 0
	}
	return t.ncalls
}

// Steps returns the number of requests the task has made so far (tasks run one at a time: another task may ask).
//
//go:norace
func (t *Task) Steps() int { return t.ncalls }

func SimNow() time.Duration {
	if cur == nil {
		return 0
	}
	return cur.now
}

// ---- scheduler side: request handling ----

//go:norace
func (s *Sim) enterWait(t *Task) {
	t.waitSince = s.steps
	switch t.req.kind {
	case opLock:
		t.lockArrived = false
		t.lockQueued = false
	case opRLock:
		t.rlockPre = false
	case opSleep:
		t.wakeAt = s.now + t.req.dur
	case opRead:
		t.wakeAt = 0
	}
}

//go:norace
func chanID(ch interface{}) (uintptr, reflect.Value) {
	v := reflect.ValueOf(ch)
	if !v.IsValid() || v.Kind() != reflect.Chan {
		return 0, v
	}
	if v.IsNil() {
		return 0, v
	}
	return v.Pointer(), v
}

// partners returns the tasks that wait at the other end of the unbuffered channel id: with wantSend the senders
// (a plain send or a select without default that has a send case on it), otherwise the receivers. A rendezvous
// needs both sides at the channel; a select with a default clause never waits there.
//
//go:norace
func (s *Sim) partners(t *Task, id uintptr, wantSend bool) []*Task {
	var out []*Task
	for _, o := range s.tasks {
		if o == t || o.state != stWaiting {
			continue
		}
		if s.caseIndex(o, id, wantSend) >= 0 {
			out = append(out, o)
		}
	}
	return out
}

// caseIndex: the index of o's select case (0 for a plain send / receive) that is a send (receive) on channel id;
// -1 if o does not wait for that.
//
//go:norace
func (s *Sim) caseIndex(o *Task, id uintptr, wantSend bool) int {
	switch o.req.kind {
	case opSend:
		if oid, _ := chanID(o.req.keep); wantSend && oid == id {
			return 0
		}
	case opRecv:
		if oid, _ := chanID(o.req.keep); !wantSend && oid == id {
			return 0
		}
	case opSelect:
		if o.req.hasDefault {
			return -1
		}
		for i, c := range o.req.chans {
			sc, isSend := c.(SendCase)
			if isSend != wantSend {
				continue
			}
			var oid uintptr
			if isSend {
				oid, _ = chanID(sc.Ch)
			} else {
				oid, _ = chanID(c)
			}
			if oid == id {
				return i
			}
		}
	}
	return -1
}

//go:norace
func (s *Sim) chanRecvReady(t *Task, ch interface{}) bool {
	id, v := chanID(ch)
	if id == 0 {
		return false
	}
	if v.Len() > 0 {
		return true
	}
	if _, closed := s.closed[id]; closed {
		return true
	}
	// unbuffered: a sender must be waiting at the channel
	return v.Cap() == 0 && len(s.partners(t, id, true)) > 0
}

//go:norace
func (s *Sim) chanSendReady(t *Task, ch interface{}) bool {
	id, v := chanID(ch)
	if id == 0 {
		return false
	}
	if _, closed := s.closed[id]; closed {
		return true // the real send panics, as it should
	}
	if v.Cap() == 0 {
		// unbuffered: a receiver must be waiting at the channel
		return len(s.partners(t, id, false)) > 0
	}
	return v.Len() < v.Cap()
}

// caseReady: readiness of one select case (receive: the channel itself; send: SendCase).
//
//go:norace
func (s *Sim) caseReady(t *Task, c interface{}) bool {
	if sc, ok := c.(SendCase); ok {
		return s.chanSendReady(t, sc.Ch)
	}
	return s.chanRecvReady(t, c)
}

// rendezvous: the operation on ch being granted to t is one on an open unbuffered channel: pick the partner (a
// seeded choice among the tasks waiting at the other end), decide its select case, and note the pair - both tasks
// are resumed together and meet in the real channel operation.
//
//go:norace
func (s *Sim) rendezvous(t *Task, ch interface{}, tSends bool) string {
	id, v := chanID(ch)
	if id == 0 || v.Cap() != 0 {
		return ""
	}
	if _, closed := s.closed[id]; closed {
		return ""
	}
	ps := s.partners(t, id, !tSends)
	if len(ps) == 0 {
		s.Machinery("rendezvous granted without a partner")
		return ""
	}
	o := ps[s.choose(len(ps), nil)]
	o.resp = response{idx: s.caseIndex(o, id, !tSends)}
	if !tSends {
		s.ownerOf(t, ch)
	}
	t.pair = o
	s.Fault("reach:rendezvous-on-unbuffered-channel")
	return " <-> " + o.name
}

//go:norace
func (s *Sim) grantable(t *Task) bool {
	r := &t.req
	switch r.kind {
	case opLock:
		if t.lockQueued {
			return !s.lockOf(r.obj, r.keep).writer // the writers' mutex is free again
		}
		if !t.lockArrived {
			return true // about to call Lock: a scheduling point; the call itself happens when scheduled
		}
		ls := s.lockOf(r.obj, r.keep)
		return !ls.writer && ls.readers == 0
	case opRLock:
		if t.rlockPre {
			return true
		}
		ls := s.lockOf(r.obj, r.keep)
		return !ls.writer && ls.pendingW == 0
	case opSend:
		return s.chanSendReady(t, r.keep)
	case opRecv:
		return s.chanRecvReady(t, r.keep)
	case opSelect:
		if r.hasDefault {
			return true
		}
		for _, c := range r.chans {
			if s.caseReady(t, c) {
				return true
			}
		}
		return false
	case opSleep:
		return s.now >= t.wakeAt
	case opRead:
		return s.Net.readReady(t)
	case opWrite:
		// a peer that has stopped reading: once the send window is full a Write blocks until the connection is
		// closed (the library sets no write deadline)
		c := r.conn
		return !c.PeerStalled || c.clientClosed || c.stalledBytes+len(r.buf) <= c.SendWindow || (c.wdlSet && s.now >= c.wdl)
	case opOnce:
		os := s.onceOf(r.obj)
		return os.done || os.running == nil || os.running == t
	case opWGWait:
		return s.wgs[r.obj] <= 0
	case opCondWait:
		for _, w := range r.keep.(*Cond).waiters {
			if w.t == t {
				return w.signalled
			}
		}
		return true // not registered (cannot happen): do not hang
	case opJoin:
		for _, c := range r.join {
			if c.state != stDone && c.state != stCrashed {
				return false
			}
		}
		return true
	default:
		return true
	}
}

// ownerOf notes in t.resp whether ch is the done channel of a context or the channel of a timer.
func (s *Sim) ownerOf(t *Task, ch interface{}) {
	t.resp.actx, t.resp.atm = nil, nil
	if id, _ := chanID(ch); id != 0 {
		t.resp.actx = s.ctxByDone[id]
		t.resp.atm = s.timerByChan[id]
	}
}

// grant updates the models for the request being granted and fills t.resp.
//
//go:norace
func (s *Sim) grant(t *Task) string {
	r := &t.req
	switch r.kind {
	case opLock:
		ls := s.lockOf(r.obj, r.keep)
		if t.lockArrived {
			ls.pendingW--
		}
		ls.writer = true
		ls.owner = t
	case opRLock:
		ls := s.lockOf(r.obj, r.keep)
		if t.rlockPre {
			t.rlockPre = false // counted when the writer unlocked
		} else {
			ls.readers++
		}
	case opSelect:
		t.resp.actx, t.resp.atm = nil, nil
		var ready []int
		for i, c := range r.chans {
			if s.caseReady(t, c) {
				ready = append(ready, i)
			}
		}
		if len(ready) == 0 {
			t.resp.idx = -1
			return "default"
		}
		t.resp.idx = ready[s.choose(len(ready), nil)]
		if sc, isSend := r.chans[t.resp.idx].(SendCase); isSend {
			return fmt.Sprintf("case %d (send) of %v", t.resp.idx, ready) + s.rendezvous(t, sc.Ch, true)
		}
		s.ownerOf(t, r.chans[t.resp.idx])
		return fmt.Sprintf("case %d of %v", t.resp.idx, ready) + s.rendezvous(t, r.chans[t.resp.idx], false)
	case opRecv:
		s.ownerOf(t, r.keep)
		return s.rendezvous(t, r.keep, false)
	case opSend:
		return s.rendezvous(t, r.keep, true)
	case opSched:
		r.fn()
		r.fn = nil
	case opOnce:
		os := s.onceOf(r.obj)
		if os.done || os.running == t {
			t.resp.idx = 0 // already done (or a recursive call, which the real Once would deadlock on): do not run f
			return "done"
		}
		os.running = t
		t.resp.idx = 1
		return "run"
	case opTimer:
		return s.timerRequest(t)
	case opCondWait:
		c := r.keep.(*Cond)
		for i, w := range c.waiters {
			if w.t == t {
				c.waiters = append(c.waiters[:i], c.waiters[i+1:]...)
				break
			}
		}
		return "woken"
	case opCondSignal:
		c := r.keep.(*Cond)
		var idle []*condWaiter
		for _, w := range c.waiters {
			if !w.signalled {
				idle = append(idle, w)
			}
		}
		if len(idle) == 0 {
			return "no waiter"
		}
		if r.n == 0 {
			for _, w := range idle {
				w.signalled = true
			}
			return fmt.Sprintf("broadcast to %d", len(idle))
		}
		k := 0
		if len(idle) > 1 {
			k = s.choose(len(idle), nil)
		}
		idle[k].signalled = true
		return "signal " + idle[k].t.name
	case opChoose:
		t.resp.idx = s.choose(r.n, nil)
		return fmt.Sprintf("%d/%d", t.resp.idx, r.n)
	case opRead:
		return s.Net.grantRead(t)
	case opWrite:
		return s.Net.grantWrite(t)
	case opNetClose:
		return s.Net.grantClose(t)
	case opDial:
		return s.Net.grantDial(t)
	case opCancel:
		s.cancelCtx(r.ctx, errCanceled)
		return fmt.Sprintf("ctx#%d", r.ctx.seq)
	case opNewCtx:
		s.registerCtx(r.ctx)
		return fmt.Sprintf("ctx#%d", r.ctx.seq)
	case opCtxAfter:
		af := r.keep.(*ctxAfter)
		r.ctx.afters = append(r.ctx.afters, af)
		if r.ctx.err != nil {
			s.runAfters(r.ctx)
		}
		return fmt.Sprintf("ctx#%d", r.ctx.seq)
	case opCtxAfterStop:
		af := r.keep.(*ctxAfter)
		t.resp = response{}
		if !af.done {
			af.done = true
			t.resp.idx = 1
		}
		return ""
	}
	return ""
}

//go:norace
func (s *Sim) applyNote(t *Task, n *note) {
	switch n.kind {
	case noteUnlock:
		ls := s.lockOf(n.obj, n.keep)
		if !ls.writer {
			s.Machinery("unlock of a mutex the model does not hold locked")
		}
		ls.writer = false
		ls.owner = nil
		// Unlock lets in every reader that waited for this writer before any other writer can take over
		// (sync.RWMutex: readerCount is restored and the blocked readers are released before rw.w is unlocked)
		// A task that has posted its RLock may or may not have executed the call already (it is a scheduling point
		// like any other): for each one the choice stream decides whether it was waiting inside RLock (let in now)
		// or is still about to call it (then a writer that announces itself first keeps it out).
		for _, o := range s.tasks {
			if o != t && o.state == stWaiting && o.req.kind == opRLock && o.req.obj == n.obj && !o.rlockPre {
				if s.choose(2, nil) == 0 {
					o.rlockPre = true
					ls.readers++
				}
			}
		}
	case noteRUnlock:
		ls := s.lockOf(n.obj, n.keep)
		if ls.readers <= 0 {
			s.Machinery("runlock of a mutex the model has no readers on")
		}
		ls.readers--
	case noteTryLocked:
		ls := s.lockOf(n.obj, n.keep)
		ls.writer = true
		ls.owner = t
	case noteTryRLocked:
		ls := s.lockOf(n.obj, n.keep)
		ls.readers++
	case noteOnceDone:
		os := s.onceOf(n.obj)
		os.done, os.running = true, nil
		os.keep = n.keep
	case noteWGAdd:
		s.wgs[n.obj] += n.n
		s.wgKeep[n.obj] = n.keep
	case noteCondWait:
		c := n.keep.(*Cond)
		c.waiters = append(c.waiters, &condWaiter{t: t})
	case noteClosed:
		s.closed[n.obj] = n.keep
	case noteSpawn:
		c := n.child
		c.id = len(s.tasks)
		s.tasks = append(s.tasks, c)
		c.state = stWaiting
		c.req = request{kind: opStart}
	}
}

type onceState struct {
	done    bool
	running *Task
	keep    interface{} // the Once itself: its address must not be reused while the model knows it
}

func (s *Sim) onceOf(id uintptr) *onceState {
	os := s.onces[id]
	if os == nil {
		os = &onceState{}
		s.onces[id] = os
	}
	return os
}

type lockState struct {
	keep     interface{}
	writer   bool
	owner    *Task
	readers  int
	pendingW int
}

func (s *Sim) lockOf(id uintptr, keep interface{}) *lockState {
	ls := s.locks[id]
	if ls == nil {
		ls = &lockState{keep: keep}
		s.locks[id] = ls
	}
	return ls
}
