package simrt

import (
	"fmt"
	"sync"
	"time"
	"unsafe"
)

func chanKey2(ch chan time.Time) uintptr {
	id, _ := chanID(ch)
	return id
}

// Library timers on the simulated clock. The rewriter maps time.After, time.NewTimer, time.AfterFunc,
// time.NewTicker, time.Tick and the types time.Timer / time.Ticker to these. Channels have capacity 1 and are
// not drained by Stop or Reset (the semantics of modules that declare a Go version below 1.23, as go-dblib does).

// Timer replaces time.Timer.
type Timer struct {
	C <-chan time.Time

	c      chan time.Time
	fn     func()
	due    time.Duration
	period time.Duration
	active bool
	seq    int
	real   *time.Timer
	// syncVar: starting or resetting a timer happens before its firing is observed (the runtime's timers do the
	// same for the race detector)
	syncVar byte
}

//go:norace
func (tm *Timer) syncAddr() unsafe.Pointer { return unsafe.Pointer(&tm.syncVar) }

// Ticker replaces time.Ticker.
type Ticker struct {
	C <-chan time.Time
	t *Timer
	r *time.Ticker
}

const (
	timerNew = iota
	timerStop
	timerReset
)

//go:norace
func timerCtl(tm *Timer, action int, d time.Duration) bool {
	t := me()
	if action != timerStop {
		raceReleaseMerge(tm.syncAddr())
	}
	t.req = request{kind: opTimer, keep: tm, n: action, dur: d, cold: true}
	t.call()
	return t.resp.idx == 1
}

// NewTimer replaces time.NewTimer.
//
//go:norace
func NewTimer(d time.Duration) *Timer {
	if me() == nil {
		r := time.NewTimer(d)
		return &Timer{C: r.C, real: r}
	}
	c := make(chan time.Time, 1)
	tm := &Timer{C: c, c: c}
	timerCtl(tm, timerNew, d)
	return tm
}

// After replaces time.After.
func After(d time.Duration) <-chan time.Time { return NewTimer(d).C }

// AfterFunc replaces time.AfterFunc: f runs in a task of its own when the simulated time has come.
//
//go:norace
func AfterFunc(d time.Duration, f func()) *Timer {
	if me() == nil {
		return &Timer{real: time.AfterFunc(d, f)}
	}
	tm := &Timer{}
	tm.fn = func() {
		raceAcquire(tm.syncAddr())
		f()
	}
	timerCtl(tm, timerNew, d)
	return tm
}

// Stop replaces (*time.Timer).Stop.
//
//go:norace
func (tm *Timer) Stop() bool {
	if tm.real != nil {
		return tm.real.Stop()
	}
	if me() == nil {
		return false
	}
	return timerCtl(tm, timerStop, 0)
}

// Reset replaces (*time.Timer).Reset.
//
//go:norace
func (tm *Timer) Reset(d time.Duration) bool {
	if tm.real != nil {
		return tm.real.Reset(d)
	}
	if me() == nil {
		return false
	}
	return timerCtl(tm, timerReset, d)
}

// NewTicker replaces time.NewTicker.
//
//go:norace
func NewTicker(d time.Duration) *Ticker {
	if d <= 0 {
		panic("non-positive interval for NewTicker")
	}
	if me() == nil {
		r := time.NewTicker(d)
		return &Ticker{C: r.C, r: r}
	}
	c := make(chan time.Time, 1)
	tm := &Timer{C: c, c: c, period: d}
	timerCtl(tm, timerNew, d)
	return &Ticker{C: c, t: tm}
}

// Tick replaces time.Tick.
func Tick(d time.Duration) <-chan time.Time {
	if d <= 0 {
		return nil
	}
	return NewTicker(d).C
}

//go:norace
func (tk *Ticker) Stop() {
	if tk.r != nil {
		tk.r.Stop()
		return
	}
	if me() != nil {
		timerCtl(tk.t, timerStop, 0)
	}
}

//go:norace
func (tk *Ticker) Reset(d time.Duration) {
	if tk.r != nil {
		tk.r.Reset(d)
		return
	}
	if me() != nil {
		tk.t.period = d
		timerCtl(tk.t, timerReset, d)
	}
}

// ---- scheduler side ----

func (s *Sim) timerRequest(t *Task) string {
	tm := t.req.keep.(*Timer)
	was := tm.active
	t.resp = response{}
	if was {
		t.resp.idx = 1
	}
	switch t.req.n {
	case timerNew, timerReset:
		if tm.seq == 0 {
			s.tseq++
			tm.seq = s.tseq
			if tm.c != nil {
				s.timerByChan[chanKey2(tm.c)] = tm
			}
		}
		tm.due = s.now + t.req.dur
		if !tm.active {
			tm.active = true
			s.ltimers = append(s.ltimers, tm)
		}
		if tm.due <= s.now {
			// due at once (time.After(0), a negative duration): the timer does not wait for the tasks to come to
			// rest - it fires as an event that competes with the runnable tasks for the next steps
			s.After(0, fmt.Sprintf("timer#%d due at once", tm.seq), s.fireLibTimers)
		}
		return fmt.Sprintf("timer#%d at %v", tm.seq, tm.due)
	default:
		s.dropLibTimer(tm)
		return fmt.Sprintf("timer#%d stop", tm.seq)
	}
}

func (s *Sim) dropLibTimer(tm *Timer) {
	tm.active = false
	for i, x := range s.ltimers {
		if x == tm {
			s.ltimers = append(s.ltimers[:i], s.ltimers[i+1:]...)
			return
		}
	}
}

// fireLibTimers fires every library timer whose time has come, in (due, creation) order.
func (s *Sim) fireLibTimers() {
	for {
		var best *Timer
		for _, tm := range s.ltimers {
			if tm.due <= s.now && (best == nil || tm.due < best.due || (tm.due == best.due && tm.seq < best.seq)) {
				best = tm
			}
		}
		if best == nil {
			return
		}
		s.logEvent(nil, 0, "timer", fmt.Sprintf("timer#%d", best.seq))
		if best.period > 0 {
			best.due += best.period
		} else {
			s.dropLibTimer(best)
		}
		if best.fn != nil {
			s.afn++
			s.startTask(s.newTask(fmt.Sprintf("afterfunc#%d", s.afn), best.fn))
			continue
		}
		select {
		case best.c <- simEpoch.Add(s.now):
		default:
		}
	}
}

// ---- sync.Cond ----

// Cond replaces sync.Cond (rewriter: the type and sync.NewCond). The scheduler owns the wait queue; which waiter a
// Signal wakes is drawn from the choice stream (the runtime's queue is roughly FIFO, but nothing promises it).
type Cond struct {
	L sync.Locker

	waiters []*condWaiter
}

type condWaiter struct {
	t         *Task
	signalled bool
}

// NewCond replaces sync.NewCond.
func NewCond(l sync.Locker) *Cond { return &Cond{L: l} }

// LockerLock / LockerUnlock replace Lock / Unlock calls on a sync.Locker value.
func LockerLock(site int, l sync.Locker)   { condLock(site, l) }
func LockerUnlock(site int, l sync.Locker) { condUnlock(site, l) }

func condUnlock(site int, l sync.Locker) {
	switch m := l.(type) {
	case *sync.Mutex:
		MutexUnlock(site, m)
	case *sync.RWMutex:
		RWUnlock(site, m)
	default:
		lockerUnknown(l)
		l.Unlock()
	}
}

func condLock(site int, l sync.Locker) {
	switch m := l.(type) {
	case *sync.Mutex:
		MutexLock(site, m)
	case *sync.RWMutex:
		RWLock(site, m)
	default:
		lockerUnknown(l)
		l.Lock()
	}
}

// lockerUnknown: a sync.Locker whose dynamic type is not a mutex the simulator models - a struct that embeds one,
// say: the promoted real method would run behind the model's back.
//
//go:norace
func lockerUnknown(l sync.Locker) {
	if t := me(); t != nil {
		t.s.machineryFromTask(fmt.Sprintf("sync.Locker of dynamic type %T is not modelled", l))
	}
}

// Wait replaces (*sync.Cond).Wait.
//
//go:norace
func (c *Cond) Wait() {
	t := me()
	if t == nil {
		panic("simrt.Cond used outside a simulation")
	}
	// registering as a waiter and unlocking are one step, as in the runtime (the ticket is taken before the unlock)
	t.addNote(note{kind: noteCondWait, keep: c})
	condUnlock(0, c.L)
	t.req = request{kind: opCondWait, keep: c}
	t.call()
	condLock(0, c.L)
}

// Signal replaces (*sync.Cond).Signal.
//
//go:norace
func (c *Cond) Signal() {
	t := me()
	if t == nil {
		return
	}
	t.req = request{kind: opCondSignal, keep: c, n: 1}
	t.call()
}

// Broadcast replaces (*sync.Cond).Broadcast.
//
//go:norace
func (c *Cond) Broadcast() {
	t := me()
	if t == nil {
		return
	}
	t.req = request{kind: opCondSignal, keep: c, n: 0}
	t.call()
}
