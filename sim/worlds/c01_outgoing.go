package worlds

import (
	"bytes"
	"context"
	"encoding/json"
	"fmt"
	"strings"
	"time"

	"github.com/SAP/go-dblib/tds"
	"github.com/SAP/go-dblib/zz_verif/peer"
	"github.com/SAP/go-dblib/zz_verif/simrt"
)

// C01 — outgoing messages are well-formed TDS packet sequences.

type c01Pkg struct {
	Kind string `json:"kind"` // raw | lang | done
	Len  int    `json:"len"`  // encoded length in bytes
}

type c01Msg struct {
	Pkgs       []c01Pkg `json:"pkgs"`
	HeaderType int      `json:"header_type"`
	Split      string   `json:"split"`     // queue-all | last-send | (single package:) send
	NextSize   int      `json:"next_size"` // packet size the server announces after this message (0 = unchanged)
	// OnZero: in plans that use both channels, send this message on channel 0 instead of the logical channel.
	OnZero bool `json:"on_zero,omitempty"`
	// Abort > 0: before this message a package of Abort bytes (less than a packet body, so nothing is sent yet)
	// is queued on the same channel and flushed with an already cancelled context; the flush must fail, write
	// nothing, and leave nothing behind for the message proper.
	Abort int `json:"abort,omitempty"`
	// AbortKind: "" = flush with a cancelled context; "queue-dead" = the package is QUEUED with a cancelled
	// context (must fail and leave nothing behind); "reset" = queued normally, then Channel.Reset().
	AbortKind string `json:"abort_kind,omitempty"`
	// AbortFull > 0: the abandoned package is AbortFull packet bodies longer, so that many full packets of it are
	// on the wire - under the message type AbortType, without an end-of-message flag - before it is abandoned.
	// The message that follows must still be a message of its own type.
	// MidSize > 0 (message on the logical channel): after the first package of the message was queued - it is
	// smaller than a packet body, so the packet is open and nothing was sent - the server announces this packet size
	// (in its answer to a small message the client sends on channel 0 meanwhile). The open packet keeps the size it
	// was created with, the packets behind it have the new one, and no byte of the message is lost.
	MidSize   int `json:"mid_size,omitempty"`
	AbortFull int `json:"abort_full,omitempty"`
	AbortType int `json:"abort_type,omitempty"`
	// AbortKind "stall": the abandoned package (AbortFull full packets and a rest) is queued with a context that
	// expires after two simulated seconds while the peer has stopped reading (its socket buffer takes StallWindow
	// more bytes, so a Write blocks in the middle of the message); after five seconds the peer reads on. A slow
	// peer is not a failed transport: whatever the calls return, only whole packets may reach the transport - 0 to
	// AbortFull full packets of the abandoned message - and the message that follows must be intact.
	StallWindow int `json:"stall_window,omitempty"`
}

type c01Plan struct {
	Knobs   Knobs `json:"knobs"`
	Logical bool  `json:"logical"`
	// Tail (logical channel only): after the last message the logical channel is closed - its teardown is one more
	// packet on the wire, built from a full-size packet without data - and one more message goes out on channel 0:
	// the teardown must be a packet whose header length is its real size, or it swallows what follows.
	Tail bool `json:"tail,omitempty"`
	// Both: the logical channel AND channel 0 are used in the same run (per message: OnZero).
	Both bool     `json:"both,omitempty"`
	Msgs []c01Msg `json:"msgs"`
}

type c01 struct{}

func init() { Register(c01{}) }

func (c01) ID() string { return "C01" }
func (c01) NRuns(tier string) int {
	if tier == "thorough" {
		return 2000000
	}
	return 12000
}
func (c01) Rule() string {
	return "1..4 successive messages on channel 0 or a logical channel; a message is 1..5 packages (raw byte packages of any length, language and done packages) whose total length is m*(packetSize-8)+d with m in 0..3 and d in {-2..+2} half of the time (uniform otherwise; at packet sizes up to 300 sometimes 254..257 or 511..513 full packets), split so that package ends also fall on packet ends; header type 1..23; call split queue-all / last-by-SendPackage / single SendPackage; 15% of the messages are preceded by an abandoned one (a partial packet queued, then flushed with a cancelled context: must fail and leave nothing behind); the peer announces a new packet size (256, 257, 511, 512, 513, 1024, 4096, 32768, 65535 or uniform) between messages; the peer's wire record is parsed by an independent header codec; non-trivial = message longer than one packet body or a size change took effect; distinct = distinct (packet size, boundary class d, m, split, channel kind)"
}
func (c01) Components() map[string]string {
	return map[string]string{"tds (Channel.QueuePackage/SendRemainingPackets/SendPackage, PacketQueue, Packet, header writer)": "real (rewritten)", "transport": "stub: simrt.Conn records every Write", "server": "stub: sim/peer independent header codec and assembler; announces packet sizes via ENVCHANGE", "clock": "simulated (quiescence delimits messages)"}
}

var c01Sizes = []int{256, 257, 511, 512, 513, 1024, 4096, 32768, 65535}

func (c01) Gen(r *Rand, idx int, tier string) interface{} {
	p := &c01Plan{Knobs: GenKnobs(r), Logical: r.Pct(50)}
	p.Tail = p.Logical && r.Pct(30)
	if p.Logical && r.Pct(40) {
		p.Both = true
	}
	ps := 512
	n := 1 + r.Intn(4)
	for i := 0; i < n; i++ {
		var m c01Msg
		body := ps - 8
		var T int
		mm := r.Intn(4)
		if r.Pct(50) {
			T = mm*body + r.Intn(5) - 2
		} else {
			T = 1 + r.Intn(3*body+10)
		}
		if ps > 8192 {
			// keep huge packet sizes cheap: at most about one and a half packets
			if r.Pct(50) {
				T = body + r.Intn(5) - 2
			} else {
				T = 1 + r.Intn(body+body/2)
			}
		}
		if p.Both && r.Pct(60) && ps <= 8192 {
			// runs that use both channels dwell on exact multiples: the empty end-of-message packet is the one
			// packet whose header fields are not derived from a data packet
			T = (1 + r.Intn(2)) * body
		}
		if ps <= 300 && r.Pct(4) {
			// very many packets: counts of packets around the limits of small integer types
			T = Pick(r, []int{254, 255, 256, 257, 511, 512, 513})*body + r.Intn(3) - 1
		}
		if T < 1 {
			T = 1
		}
		// split T over packages
		k := 1 + r.Intn(5)
		rest := T
		for j := 0; j < k && rest > 0; j++ {
			l := rest
			if j < k-1 {
				switch {
				case r.Pct(40) && rest > body:
					l = body * (1 + r.Intn(rest/body)) // package end on a packet end
					if r.Pct(30) {
						l -= r.Intn(3)
					}
				default:
					l = 1 + r.Intn(rest)
				}
			}
			if l < 1 {
				l = 1
			}
			if l > rest {
				l = rest
			}
			kind := "raw"
			if l >= 6 && l < 60000 && r.Pct(15) {
				kind = "lang"
			} else if l == 9 && r.Pct(50) {
				kind = "done"
			}
			m.Pkgs = append(m.Pkgs, c01Pkg{Kind: kind, Len: l})
			rest -= l
		}
		m.HeaderType = 1 + r.Intn(23)
		m.OnZero = p.Both && r.Bool()
		if r.Pct(15) {
			m.Abort = 1 + r.Intn(body-1)
			m.AbortKind = Pick(r, []string{"", "", "queue-dead", "reset", "bad-reset", "bad"})
			if (m.AbortKind == "" || m.AbortKind == "reset") && r.Pct(40) {
				m.AbortFull = 1 + r.Intn(2)
				if m.AbortKind == "" && m.Abort%3 == 0 {
					// (decided by a value already drawn: the other plans of a batch stay what they were)
					m.AbortKind, m.Abort = "retry", 0
				}
				m.Abort += m.AbortFull * body
				m.AbortType = 1 + r.Intn(23)
			}
		}
		if m.Abort == 0 && ps <= 8192 && r.Pct(7) {
			m.AbortKind = "stall"
			m.AbortFull = 1 + r.Intn(2)
			m.Abort = m.AbortFull*body + 1 + r.Intn(body-1)
			m.AbortType = 1 + r.Intn(23)
			switch r.Intn(4) {
			case 0:
				m.StallWindow = 0
			case 1:
				m.StallWindow = r.Intn(ps) // inside the first packet (header included)
			case 2:
				m.StallWindow = m.AbortFull*ps - r.Intn(3) // at the end of the full packets
			default:
				m.StallWindow = r.Intn(m.AbortFull*ps + 1)
			}
		}
		if len(m.Pkgs) == 1 && r.Pct(60) {
			m.Split = "send"
		} else if r.Pct(50) {
			m.Split = "last-send"
		} else {
			m.Split = "queue-all"
		}
		if p.Logical && !m.OnZero && m.Abort == 0 && len(m.Pkgs) >= 2 && m.Pkgs[0].Len < body && m.Pkgs[0].Kind == "raw" && r.Pct(35) {
			m.MidSize = Pick(r, []int{256, 300, 511, 513, 768, 1024, 4096})
			if m.MidSize == ps {
				m.MidSize++
			}
			ps = m.MidSize
		}
		if r.Pct(50) {
			if r.Pct(70) {
				m.NextSize = Pick(r, c01Sizes)
			} else {
				m.NextSize = 256 + r.Intn(65535-256+1)
			}
			ps = m.NextSize
		}
		p.Msgs = append(p.Msgs, m)
	}
	return p
}
func (c01) Decode(raw json.RawMessage) (interface{}, error) {
	p := &c01Plan{}
	err := json.Unmarshal(raw, p)
	return p, err
}
func (c01) Shrink(plan interface{}) []interface{} {
	p := plan.(*c01Plan)
	var out []interface{}
	for i := range p.Msgs {
		if len(p.Msgs) > 1 {
			q := *p
			q.Msgs = append(append([]c01Msg{}, p.Msgs[:i]...), p.Msgs[i+1:]...)
			out = append(out, &q)
		}
	}
	for i, m := range p.Msgs {
		if len(m.Pkgs) > 1 {
			// merge all packages into one raw package of the same total length
			q := *p
			q.Msgs = append([]c01Msg{}, p.Msgs...)
			t := 0
			for _, x := range m.Pkgs {
				t += x.Len
			}
			q.Msgs[i].Pkgs = []c01Pkg{{Kind: "raw", Len: t}}
			q.Msgs[i].Split = "send"
			out = append(out, &q)
		}
		if m.NextSize != 0 && i == len(p.Msgs)-1 {
			q := *p
			q.Msgs = append([]c01Msg{}, p.Msgs...)
			q.Msgs[i].NextSize = 0
			out = append(out, &q)
		}
		if m.MidSize > 0 && m.NextSize == 0 && i == len(p.Msgs)-1 {
			q := *p
			q.Msgs = append([]c01Msg{}, p.Msgs...)
			q.Msgs[i].MidSize = 0
			out = append(out, &q)
		}
		if m.AbortFull > 0 {
			q := *p
			q.Msgs = append([]c01Msg{}, p.Msgs...)
			q.Msgs[i].Abort -= m.AbortFull * 504
			if q.Msgs[i].Abort < 1 {
				q.Msgs[i].Abort = 1
			}
			q.Msgs[i].AbortFull, q.Msgs[i].AbortType = 0, 0
			if m.AbortKind == "retry" {
				q.Msgs[i].AbortKind = ""
			}
			out = append(out, &q)
		}
		if m.Abort > 1 && m.AbortFull == 0 {
			q := *p
			q.Msgs = append([]c01Msg{}, p.Msgs...)
			q.Msgs[i].Abort = 1
			out = append(out, &q)
		}
		if m.HeaderType != 15 {
			q := *p
			q.Msgs = append([]c01Msg{}, p.Msgs...)
			q.Msgs[i].HeaderType = 15
			out = append(out, &q)
		}
	}
	if p.Logical && !p.Both {
		q := *p
		q.Logical = false
		q.Tail = false
		out = append(out, &q)
	}
	if p.Tail {
		q := *p
		q.Tail = false
		out = append(out, &q)
	}
	return out
}

// c01Bytes returns the encoding the i-th package of message mi must have; every byte depends on message and offset.
func c01Bytes(mi, pi int, pk c01Pkg) []byte {
	switch pk.Kind {
	case "lang":
		q := make([]byte, pk.Len-6)
		for i := range q {
			q[i] = byte('a' + (mi*7+pi*3+i)%26)
		}
		return peer.Language(0, string(q))
	case "done":
		return peer.Done(uint16(mi), uint16(pi), int32(mi*1000+pi))
	}
	b := make([]byte, pk.Len)
	for i := range b {
		b[i] = byte(0x80 | ((mi*31 + pi*17 + i*7 + i/251) & 0x7f))
	}
	return b
}

func pk0Len(pkts []peer.RecvPacket) uint16 { return pkts[0].H.Length }

const c01TailCmd = "select 'after the teardown'"

func c01Package(mi, pi int, pk c01Pkg) tds.Package {
	enc := c01Bytes(mi, pi, pk)
	switch pk.Kind {
	case "lang":
		return &tds.LanguagePackage{Status: 0, Cmd: string(enc[6:])}
	case "done":
		return &tds.DonePackage{Status: tds.DoneState(mi), TranState: tds.TransState(pi), Count: int32(mi*1000 + pi)}
	}
	t := tds.NewTokenlessPackage()
	t.Data = bytes.NewBuffer(enc)
	return t
}

func (c01) Run(plan interface{}, schedSeed uint64, replay []simrt.Choice, lenient, keepLog bool) (*Verdict, *simrt.Outcome) {
	p := plan.(*c01Plan)
	v := &Verdict{}
	cfg := p.Knobs.Config(schedSeed)
	cfg.Replay, cfg.Lenient, cfg.KeepLog = replay, lenient, keepLog
	if cfg.MaxSteps == 0 {
		cfg.MaxSteps = 200000
	}
	s := simrt.New(cfg)
	pr := NewTDSPeer(s)
	// the peer answers each message after quiescence (it cannot rely on the end-of-message flag, which is under test)
	type arrival struct {
		pk  peer.RecvPacket
		seq int
	}
	var arrivals []arrival
	curMsg := -1
	armed := false
	quiet := false // the peer is receiving what a slow-peer episode left in its socket buffer: no answer is due
	var chanID uint16
	pr.OnPacket = func(pk peer.RecvPacket) {
		if curMsg < 0 {
			// before the first message: the logical channel's setup packet
			if pk.H.Type == peer.BufSetup && len(pk.Body) == 0 {
				chanID = pk.H.Channel
			}
			return
		}
		arrivals = append(arrivals, arrival{pk, simrt.Record("c01-packet", "", "", int64(curMsg))})
		if curMsg == len(p.Msgs) && pk.H.Type == peer.BufClose && pk.H.Channel != 0 {
			return // the teardown of the logical channel is not answered
		}
		if !armed && !quiet {
			armed = true
			mi := curMsg
			s.After(time.Millisecond, "respond", func() {
				armed = false
				var body []byte
				if mi >= 0 && mi < len(p.Msgs) && p.Msgs[mi].MidSize != 0 && pk.H.Channel == 0 {
					// the side message of a MidSize message: its answer announces the size, and that is all
					body = append(body, peer.EnvChange(peer.EnvMember{Type: 4, New: fmt.Sprint(p.Msgs[mi].MidSize), Old: "512"})...)
					body = append(body, peer.Done(0, 0, 0)...)
					pr.SendResponse(pk.H.Channel, body, nil)
					s.Fault("packet-size-change-mid-message")
					return
				}
				if mi >= 0 && mi < len(p.Msgs) && p.Msgs[mi].NextSize != 0 {
					body = append(body, peer.EnvChange(peer.EnvMember{Type: 4, New: fmt.Sprint(p.Msgs[mi].NextSize), Old: "512"})...)
				}
				body = append(body, peer.Done(0, 0, 0)...)
				pr.SendResponse(pk.H.Channel, body, nil)
			})
		}
	}
	pr.OnMsg = nil
	pr.OnHeaderOnly = func(pk peer.RecvPacket) {
		if curMsg < 0 && pk.H.Type == peer.BufSetup {
			pr.SendPackets([][]byte{peer.MakePacket(peer.BufProtack, peer.BufstatEOM, pk.H.Channel, 0, nil)})
		}
	}
	type msgMark struct{ start, end int }
	marks := make([]msgMark, len(p.Msgs))
	var tailMark msgMark
	var setupErr string
	var sendErrs, aborted []string
	sizesSeen := make([]int, len(p.Msgs))
	retried := make([]bool, len(p.Msgs)) // kind retry: the repeated flush reported success
	out := s.Run(func() {
		conn, err := tds.NewConn(context.Background(), MkInfo(100, 5, false))
		if err != nil {
			setupErr = err.Error()
			return
		}
		ch, err := conn.NewChannel()
		if err != nil {
			setupErr = err.Error()
			return
		}
		ch0 := ch
		if p.Logical {
			ch, err = conn.NewChannel()
			if err != nil {
				setupErr = "logical channel: " + err.Error()
				return
			}
		}
		chL := ch
		ctx, cancel := simrt.WithTimeout(context.Background(), time.Minute)
		defer cancel()
		for mi, m := range p.Msgs {
			curMsg = mi
			sizesSeen[mi] = conn.PacketSize()
			marks[mi].start = simrt.Record("msg-start", "", "", int64(mi))
			ch := chL
			if m.OnZero {
				ch = ch0
			}
			ch.CurrentHeaderType = tds.PacketHeaderType(m.HeaderType)
			var err error
			if m.AbortFull > 0 {
				ch.CurrentHeaderType = tds.PacketHeaderType(m.AbortType)
			}
			if m.Abort > 0 {
				dead, kill := simrt.WithCancel(context.Background())
				kill()
				t := tds.NewTokenlessPackage()
				t.Data = bytes.NewBuffer(bytes.Repeat([]byte{0x5a}, m.Abort))
				switch m.AbortKind {
				case "queue-dead":
					if err := ch.QueuePackage(dead, t); err == nil {
						aborted = append(aborted, fmt.Sprintf("message %d: QueuePackage with a cancelled context reported success", mi))
					}
				case "bad":
					// the same package that cannot be encoded, and no Reset: QueuePackage reported the failure, so nothing
					// of the package may remain
					bad := tds.NewDynamicPackage(false)
					bad.Type, bad.ID, bad.Stmt = tds.TDS_DYN_PREPARE, "id", strings.Repeat("s", 40000)
					if err := ch.QueuePackage(ctx, bad); err == nil {
						aborted = append(aborted, fmt.Sprintf("message %d: queueing a package that cannot be encoded reported success", mi))
					}
				case "bad-reset":
					// a package whose encoding fails after its first bytes were queued (a statement too long for the
					// narrow DYNAMIC token), then Reset: nothing of it may remain
					bad := tds.NewDynamicPackage(false)
					bad.Type, bad.ID, bad.Stmt = tds.TDS_DYN_PREPARE, "id", strings.Repeat("s", 40000)
					if err := ch.QueuePackage(ctx, bad); err == nil {
						aborted = append(aborted, fmt.Sprintf("message %d: queueing a package that cannot be encoded reported success", mi))
					}
					ch.Reset()
				case "stall":
					dl, cancelDl := simrt.WithTimeout(context.Background(), 2*time.Second)
					window := m.StallWindow
					simrt.Sched(func() { quiet = true; pr.Conn.StallFor(window, 5*time.Second) })
					errQ := ch.QueuePackage(dl, t)
					simrt.Sleep(6 * time.Second) // the context has expired and the peer reads again
					simrt.Sched(func() { quiet = false })
					if errQ == nil {
						if err := ch.SendRemainingPackets(dl); err == nil {
							aborted = append(aborted, fmt.Sprintf("message %d: a flush with an expired context reported success", mi))
						}
					} else {
						// whatever the error is (C01 does not judge it): the caller abandons the message
						ch.Reset()
					}
					cancelDl()
				case "retry":
					// the package fills its packets exactly: all of them go out while it is queued and only the
					// end-of-message packet is missing. The flush with a cancelled context fails; the caller
					// repeats it with a live one. What the second flush reports and what is on the wire must agree.
					if err := ch.QueuePackage(ctx, t); err != nil {
						sendErrs = append(sendErrs, fmt.Sprintf("message %d: queueing the package whose flush is repeated: %v", mi, err))
					} else if err := ch.SendRemainingPackets(dead); err == nil {
						aborted = append(aborted, fmt.Sprintf("message %d: a flush with a cancelled context reported success", mi))
					} else {
						ch.CurrentHeaderType = tds.PacketHeaderType(m.AbortType)
						retried[mi] = ch.SendRemainingPackets(ctx) == nil
					}
				case "reset":
					if err := ch.QueuePackage(ctx, t); err != nil {
						sendErrs = append(sendErrs, fmt.Sprintf("message %d: queueing the package to be abandoned: %v", mi, err))
					}
					ch.Reset()
				default:
					if err := ch.QueuePackage(ctx, t); err != nil {
						sendErrs = append(sendErrs, fmt.Sprintf("message %d: queueing the package to be abandoned: %v", mi, err))
					} else if err := ch.SendRemainingPackets(dead); err == nil {
						aborted = append(aborted, fmt.Sprintf("message %d: a flush with a cancelled context reported success", mi))
					}
				}
				ch.CurrentHeaderType = tds.PacketHeaderType(m.HeaderType)
			}
			for pi, pk := range m.Pkgs {
				pkg := c01Package(mi, pi, pk)
				last := pi == len(m.Pkgs)-1
				if last && (m.Split == "last-send" || m.Split == "send") {
					err = ch.SendPackage(ctx, pkg)
				} else {
					err = ch.QueuePackage(ctx, pkg)
					if err == nil && last {
						err = ch.SendRemainingPackets(ctx)
					}
				}
				if err != nil {
					sendErrs = append(sendErrs, fmt.Sprintf("message %d package %d: %v", mi, pi, err))
					break
				}
				if pi == 0 && m.MidSize > 0 {
					ch0.CurrentHeaderType = tds.TDS_BUF_NORMAL
					if err := ch0.SendPackage(ctx, &tds.LanguagePackage{Cmd: "side"}); err != nil {
						sendErrs = append(sendErrs, fmt.Sprintf("message %d: side message on channel 0: %v", mi, err))
						break
					}
					for n := 0; n < 50; n++ {
						pkg, err := ch0.NextPackage(ctx, true)
						if err != nil {
							sendErrs = append(sendErrs, fmt.Sprintf("message %d: answer to the side message: %v", mi, err))
							break
						}
						if d, ok := pkg.(*tds.DonePackage); ok && d.Status == tds.TDS_DONE_FINAL {
							break
						}
					}
					if conn.PacketSize() != m.MidSize {
						sendErrs = append(sendErrs, fmt.Sprintf("message %d: the packet size announced in the middle of the message (%d) is not in force (%d)", mi, m.MidSize, conn.PacketSize()))
					}
				}
			}
			// wait for the peer's answer (which may change the packet size)
			for n := 0; n < 50; n++ {
				pkg, err := ch.NextPackage(ctx, true)
				if err != nil {
					sendErrs = append(sendErrs, fmt.Sprintf("message %d: reading the answer: %v", mi, err))
					break
				}
				if d, ok := pkg.(*tds.DonePackage); ok && d.Status == tds.TDS_DONE_FINAL {
					break
				}
			}
			simrt.Sleep(time.Millisecond)
			marks[mi].end = simrt.Record("msg-end", "", "", int64(mi))
		}
		if p.Tail {
			curMsg = len(p.Msgs)
			tailMark.start = simrt.Record("tail-start", "", "", 0)
			if err := chL.Close(); err != nil {
				sendErrs = append(sendErrs, fmt.Sprintf("closing the logical channel: %v", err))
			}
			ch0.CurrentHeaderType = tds.TDS_BUF_NORMAL
			if err := ch0.SendPackage(ctx, &tds.LanguagePackage{Cmd: c01TailCmd}); err != nil {
				sendErrs = append(sendErrs, fmt.Sprintf("message after the teardown: %v", err))
			}
			for n := 0; n < 50; n++ {
				pkg, err := ch0.NextPackage(ctx, true)
				if err != nil {
					sendErrs = append(sendErrs, fmt.Sprintf("message after the teardown: reading the answer: %v", err))
					break
				}
				if d, ok := pkg.(*tds.DonePackage); ok && d.Status == tds.TDS_DONE_FINAL {
					break
				}
			}
			simrt.Sleep(time.Millisecond)
			tailMark.end = simrt.Record("tail-end", "", "", 0)
		}
	})
	StdOutcome(v, out)
	if v.Machinery != "" {
		return v, out
	}
	if setupErr != "" {
		v.Machinery = "setup failed: " + setupErr
		return v, out
	}
	if out.Budget {
		return v, out
	}
	for _, c := range out.Crashes {
		v.Violate("panic", "panic "+CrashSig(c), "task %s panicked: %s\n%s", c.Task, c.Value, c.Stack)
	}
	BlockedTasks(v, out, "a send, a receive of the answer or Close never returned")
	if pr.Asm.Err != "" {
		v.Violate("unparsable", "stream does not parse as packets", "%s", pr.Asm.Err)
	}
	if rest := pr.Asm.Residue(); len(rest) > 0 && pr.Asm.Err == "" {
		v.Violate("unparsable", "bytes left over behind the last packet", "%d bytes reached the transport behind the last complete packet (a header announcing more than was written?): % x", len(rest), short(string(rest), 16))
	}
	for _, e := range sendErrs {
		v.Violate("send-error", "send returned an error", "%s", e)
	}
	for _, e := range aborted {
		v.Violate("cancelled-flush", "flush with cancelled context succeeded", "%s", e)
	}
	nontrivial := ""
	ps := 512
	expectNr := -1
	for mi, m := range p.Msgs {
		if v.Class != "" {
			break
		}
		body := ps - 8
		var want []byte
		for pi, pk := range m.Pkgs {
			want = append(want, c01Bytes(mi, pi, pk)...)
		}
		T := len(want)
		var pkts []peer.RecvPacket
		for _, a := range arrivals {
			if a.seq > marks[mi].start && a.seq < marks[mi].end {
				pkts = append(pkts, a.pk)
			}
		}
		d := T % body
		if d > body/2 {
			d -= body
		}
		cls := "other"
		if d >= -2 && d <= 2 {
			cls = fmt.Sprintf("d=%+d", d)
		}
		where := fmt.Sprintf("message %d (total %d bytes = %d*%d%+d, packet size %d, header type %d, split %s, packages %v, abandoned before: %d bytes %s)", mi, T, (T+body/2)/body, body, d, ps, m.HeaderType, m.Split, m.Pkgs, m.Abort, m.AbortKind)
		sigB := "boundary " + cls
		if sizesSeen[mi] != ps {
			v.Violate("packet-size", "announced packet size not in force", "%s: the client's packet size is %d, the server announced %d", where, sizesSeen[mi], ps)
		}
		if len(pkts) == 0 {
			v.Violate("nothing-sent", "nothing sent: "+sigB, "%s: no packet reached the transport", where)
			break
		}
		psOld := ps
		if m.MidSize > 0 {
			var main []peer.RecvPacket
			side := 0
			for _, pk := range pkts {
				if pk.H.Channel == 0 {
					side++
				} else {
					main = append(main, pk)
				}
			}
			if side != 1 {
				v.Violate("side-message", "side message on channel 0", "%s: the small message sent on channel 0 in the middle arrived as %d packets", where, side)
			}
			pkts = main
			v.Probe("packet-size-change-mid-message")
		}
		// wantPs: the size a packet of this message must have when full: the first one was opened before a size
		// announced in mid-message
		wantPs := func(i int) int {
			if m.MidSize > 0 && i > 0 {
				return m.MidSize
			}
			return psOld
		}
		// full packets of an abandoned message come first
		for k := 0; k < m.AbortFull && v.Class == ""; k++ {
			if m.AbortKind == "stall" {
				v.Probe("slow-peer-abandoned")
				// 0..AbortFull packets of the abandoned message: as many as went out before the context expired
				if len(pkts) == 0 || !(int(pk0Len(pkts)) == ps && bytes.Equal(pkts[0].Body, bytes.Repeat([]byte{0x5a}, ps-8))) {
					break
				}
			}
			if len(pkts) == 0 {
				v.Violate("abandoned", "abandoned message: packets missing", "%s: %d full packets of the abandoned package were due on the wire, %d arrived", where, m.AbortFull, k)
				break
			}
			pk := pkts[0]
			pkts = pkts[1:]
			wantCh := uint16(0)
			if p.Logical && !m.OnZero {
				wantCh = chanID
				if expectNr >= 0 && int(pk.H.PacketNr) != expectNr {
					v.Violate("packet-number", "packet numbers not consecutive", "%s: packet %d of the abandoned message has number %d, expected %d", where, k, pk.H.PacketNr, expectNr)
				}
				expectNr = (int(pk.H.PacketNr) + 1) % 256
			}
			if int(pk.H.Length) != ps || int(pk.H.Type) != m.AbortType || pk.H.Status&peer.BufstatEOM != 0 || pk.H.Channel != wantCh || !bytes.Equal(pk.Body, bytes.Repeat([]byte{0x5a}, ps-8)) {
				v.Violate("abandoned", "abandoned message: packet malformed", "%s: packet %d of the abandoned message (type %d) arrived as %s", where, k, m.AbortType, pk.H)
			}
			v.Probe("abandoned-after-full-packets")
		}
		if m.AbortKind == "retry" && v.Class == "" {
			v.Probe("flush-repeated-after-a-failed-flush")
			wantCh := uint16(0)
			if p.Logical && !m.OnZero {
				wantCh = chanID
			}
			isEnd := len(pkts) > 0 && len(pkts[0].Body) == 0 && pkts[0].H.Status&peer.BufstatEOM != 0 && int(pkts[0].H.Type) == m.AbortType && pkts[0].H.Channel == wantCh
			switch {
			case retried[mi] && !isEnd:
				v.Violate("unterminated", "a repeated flush reported success but the message was never terminated", "%s: every packet of the first message was full and went out while it was queued; the flush with a cancelled context failed, the repeated flush returned nil - and no end-of-message packet followed the %d full packets", where, m.AbortFull)
			case retried[mi]:
				if p.Logical && !m.OnZero {
					if expectNr >= 0 && int(pkts[0].H.PacketNr) != expectNr {
						v.Violate("packet-number", "packet numbers not consecutive", "%s: the end-of-message packet of the repeated flush has number %d, expected %d", where, pkts[0].H.PacketNr, expectNr)
					}
					expectNr = (int(pkts[0].H.PacketNr) + 1) % 256
				}
				pkts = pkts[1:]
				v.Probe("flush-repeated:terminated")
			}
		}
		if len(pkts) == 0 && v.Class == "" {
			v.Violate("nothing-sent", "nothing sent: "+sigB, "%s: no packet of the message reached the transport", where)
			break
		}
		var got []byte
		for i, pk := range pkts {
			last := i == len(pkts)-1
			if int(pk.H.Length) > wantPs(i) {
				v.Violate("oversize", "packet larger than packet size", "%s: packet %d has length %d (size in force for it: %d)", where, i, pk.H.Length, wantPs(i))
			}
			if !last && int(pk.H.Length) != wantPs(i) {
				v.Violate("short-packet", "non-final packet not full: "+sigB, "%s: packet %d of %d has length %d (size in force for it: %d)", where, i, len(pkts), pk.H.Length, wantPs(i))
			}
			if int(pk.H.Type) != m.HeaderType {
				v.Violate("wrong-type", "wrong message type", "%s: packet %d has type %d", where, i, pk.H.Type)
			}
			wantCh := uint16(0)
			if p.Logical && !m.OnZero {
				wantCh = chanID
			}
			if pk.H.Channel != wantCh {
				v.Violate("wrong-channel", "wrong channel id", "%s: packet %d carries channel %d, expected %d", where, i, pk.H.Channel, wantCh)
			}
			if p.Logical && !m.OnZero {
				if expectNr >= 0 && int(pk.H.PacketNr) != expectNr {
					v.Violate("packet-number", "packet numbers not consecutive", "%s: packet %d has number %d, expected %d", where, i, pk.H.PacketNr, expectNr)
				}
				expectNr = (int(pk.H.PacketNr) + 1) % 256
			}
			if pk.H.Status&^peer.BufstatEOM != 0 {
				v.Violate("wrong-status", "status bits other than end-of-message", "%s: packet %d has status %#x", where, i, pk.H.Status)
			}
			if !(p.Logical && !m.OnZero) && (pk.H.PacketNr != 0 || pk.H.Window != 0) {
				v.Violate("wrong-header", "packet number or window on channel 0", "%s: packet %d on channel 0 carries number %d window %d", where, i, pk.H.PacketNr, pk.H.Window)
			}
			eom := pk.H.Status&peer.BufstatEOM != 0
			if eom && !last {
				v.Violate("early-eom", "end-of-message flag before the last packet: "+sigB, "%s: packet %d of %d carries the end-of-message flag", where, i, len(pkts))
			}
			if !eom && last {
				v.Violate("no-eom", "no end-of-message flag on the last packet: "+sigB, "%s: the last packet (%d of %d, length %d) does not carry the end-of-message flag", where, i+1, len(pkts), pk.H.Length)
			}
			got = append(got, pk.Body...)
		}
		if !bytes.Equal(got, want) {
			n := 0
			for n < len(got) && n < len(want) && got[n] == want[n] {
				n++
			}
			v.Violate("wrong-bytes", "bodies differ from the package encodings: "+sigB, "%s: %d body bytes sent, %d expected, first difference at offset %d", where, len(got), len(want), n)
		}
		if T > body || m.NextSize != 0 {
			mcount := T / body
			nontrivial += fmt.Sprintf("%d/%s/m%d/%s/%v%v;", ps, cls, mcount, m.Split, p.Logical, m.OnZero)
		}
		v.Probe("boundary:" + cls)
		if m.MidSize != 0 {
			ps = m.MidSize
		}
		if m.NextSize != 0 {
			ps = m.NextSize
			v.Probe("packet-size-change")
		}
	}
	// the teardown of the logical channel and the message behind it
	if v.Class == "" && p.Tail && tailMark.end > 0 {
		var tail []peer.RecvPacket
		for _, a := range arrivals {
			if a.seq > tailMark.start && a.seq < tailMark.end {
				tail = append(tail, a.pk)
			}
		}
		want := peer.Language(0, c01TailCmd)
		switch {
		case len(tail) != 2:
			v.Violate("teardown", "teardown and following message", "closing the logical channel and sending one message on channel 0 put %d packets on the wire, expected the teardown and one packet of the message", len(tail))
		case tail[0].H.Type != peer.BufClose || tail[0].H.Channel != chanID || tail[0].H.Status&peer.BufstatEOM == 0:
			v.Violate("teardown", "teardown packet malformed", "the teardown of channel %d went out as %s", chanID, tail[0].H)
		case tail[1].H.Channel != 0 || tail[1].H.Status&peer.BufstatEOM == 0 || !bytes.Equal(tail[1].Body, want):
			v.Violate("teardown", "message behind the teardown damaged", "the message sent on channel 0 after the teardown arrived as %s with %d body bytes (expected %d)", tail[1].H, len(tail[1].Body), len(want))
		}
		v.Probe("logical-channel-torn-down-then-message")
	}
	// nothing may arrive outside the messages
	if v.Class == "" {
		for _, a := range arrivals {
			inside := a.seq > tailMark.start && tailMark.end > 0 && a.seq < tailMark.end
			for _, mk := range marks {
				if a.seq > mk.start && a.seq < mk.end {
					inside = true
				}
			}
			if !inside && marks[len(marks)-1].end > 0 {
				v.Violate("stray-packet", "packet outside any message", "a packet (%s) reached the transport outside the messages", a.pk.H)
			}
		}
	}
	v.Nontrivial = nontrivial
	var ms []interface{}
	for _, m := range p.Msgs {
		t := 0
		for _, x := range m.Pkgs {
			t += x.Len
		}
		ms = append(ms, map[string]interface{}{"total": t, "packages": len(m.Pkgs), "type": m.HeaderType, "split": m.Split, "next_size": m.NextSize})
	}
	v.Sample = map[string]interface{}{"logical": p.Logical, "messages": ms}
	return v, out
}

// RequiredProbes: a batch in which one of these never fired explored nothing of that kind (exit 2, not a pass).
func (c01) RequiredProbes() []string {
	return []string{"boundary:d=+0", "boundary:d=-1", "boundary:d=+1", "packet-size-change", "slow-peer-abandoned", "flush-repeated:terminated"}
}
