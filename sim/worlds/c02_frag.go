package worlds

import (
	"encoding/json"
	"fmt"
	"sort"
	"strings"

	"github.com/SAP/go-dblib/zz_verif/peer"
	"github.com/SAP/go-dblib/zz_verif/simrt"
)

// C02 — the received package stream does not depend on fragmentation.

type c02Plan struct {
	Knobs     Knobs    `json:"knobs"`
	Entries   []string `json:"entries"`
	Cuts      []int    `json:"cuts"`       // cut offsets in the response body -> packets
	ReadSizes []int    `json:"read_sizes"` // sizes successive Read calls return at most (0 = all)
	ReadMode  string   `json:"read_mode"`
	QueueSize int      `json:"queue_size"`
	Async     bool     `json:"async"`
	DebugLog  bool     `json:"debug_log"`
	Enum      string   `json:"enum,omitempty"`
	// Empty lists packet positions (0..npackets) before which an empty-body packet is inserted; position
	// npackets means "after the last packet", and then the empty packet carries the end-of-message flag.
	Empty []int `json:"empty,omitempty"`
	// Twin: a second connection receives another response at the same time (resp.go).
	Twin bool `json:"twin,omitempty"`
	// Logical: the response arrives on a logical channel (whose setup was acknowledged by a header-only packet).
	Logical bool `json:"logical,omitempty"`
	// Slow: offsets in the server's byte stream after which the server is silent for a second. The client's read
	// timeout is two seconds in these runs: a packet whose bytes take longer than that to arrive, without any
	// single silence reaching the timeout, must still be received.
	Slow []int `json:"slow,omitempty"`
	// EOFAtEnd: the server closes the connection right after the response and the transport hands the last bytes
	// over together with io.EOF (one Read returns n > 0 and the error). The packages are all there; the errors
	// that follow them are the transport's.
	EOFAtEnd bool `json:"eof_at_end,omitempty"`
	// ZeroNil: offsets of the server's byte stream at which one Read returns (0, nil) - "nothing happened" - before
	// the stream goes on.
	ZeroNil []int `json:"zero_nil,omitempty"`
	// TinyPackets > 0: the response is cut into packets of that many body bytes throughout (its cut set is not
	// written out); with the 2600-byte text value of row/text/big that is one package in well over 2048 packets.
	TinyPackets int `json:"tiny_packets,omitempty"`
}

// a row with one large TEXT value (the layout of row/text/typ with 2600 bytes of data): in packets of one body byte
// it is a single package spread over more than 2600 packets
func init() {
	typ, ok := zooIndex["row/text/typ"]
	if !ok {
		return
	}
	b := typ.Bytes
	for l := 0; l+4 <= len(b); l++ {
		at := len(b) - l - 4
		if int(b[at])|int(b[at+1])<<8|int(b[at+2])<<16|int(b[at+3])<<24 == l {
			const n = 2600
			big := append([]byte{}, b[:at]...)
			big = append(big, byte(n&0xff), byte(n>>8), 0, 0)
			for i := 0; i < n; i++ {
				big = append(big, byte('a'+i%26))
			}
			e := typ
			e.Name, e.Bytes = "row/text/big", big
			zooIndex[e.Name] = e
			return
		}
	}
}

// c02Packets builds the packets of the faulted delivery.
func c02Packets(body []byte, p *c02Plan) [][]byte {
	if p.TinyPackets > 0 {
		return peer.Packetise(body, peer.CutsBySize(len(body), p.TinyPackets), peer.BufResponse, 0, true)
	}
	pk := peer.Packetise(body, p.Cuts, peer.BufResponse, 0, true)
	if len(p.Empty) == 0 {
		return pk
	}
	ins := map[int]bool{}
	for _, e := range p.Empty {
		ins[e] = true
	}
	var out [][]byte
	for i, x := range pk {
		if ins[i] {
			out = append(out, peer.MakePacket(peer.BufResponse, 0, 0, 0, nil))
		}
		if i == len(pk)-1 && ins[len(pk)] {
			// move the end-of-message flag to a trailing empty packet
			x = append([]byte{}, x...)
			x[1] &^= peer.BufstatEOM
			out = append(out, x, peer.MakePacket(peer.BufResponse, peer.BufstatEOM, 0, 0, nil))
			continue
		}
		out = append(out, x)
	}
	return out
}

type c02 struct{}

func init() { Register(c02{}) }

func (c02) ID() string { return "C02" }

// short responses used for the exhaustive part
var c02Short = [][]string{
	{"done/count"},
	{"eed/error", "done/final"},
	{"rowfmt2/int4", "row/int4/typ", "done/final"},
	{"envchange/db", "done/final"},
	{"paramfmt/varchar", "params/varchar/typ", "done/error"},
	{"rowfmt2/varchar", "row/varchar/typ", "row/varchar/null"},
	{"loginack/succeed", "done/final"},
	{"msg/sec-encrypt4", "returnstatus/1"},
}

func c02ShortOK() [][]string {
	var out [][]string
	for _, names := range c02Short {
		ok := true
		for _, n := range names {
			if _, have := zooIndex[n]; !have {
				ok = false
			}
		}
		if ok {
			out = append(out, names)
		}
	}
	if len(out) == 0 {
		out = append(out, []string{zooList[0].Name})
	}
	return out
}

// enumeration sizes per tier: single cuts, pairs of cuts, full cut sets of the first bytes, header splits
func c02EnumCount(tier string) int {
	n := 0
	for _, names := range c02ShortOK() {
		body, _, _ := buildResponse(names)
		l := len(body)
		n += (l - 1) // single cuts
		if tier == "thorough" {
			n += (l - 1) * (l - 2) / 2 // pairs
		}
		n += 7 // header split positions
	}
	if tier == "thorough" {
		n += 2048 // all cut sets of a 12-byte stream
	}
	return n
}

func (c02) NRuns(tier string) int {
	if tier == "thorough" {
		return c02EnumCount(tier) + 1000000
	}
	return c02EnumCount(tier) + 10000
}

func (c02) Rule() string {
	return "a response of 1..8 zoo packages (all server-side package types and data types) is delivered once in a single packet and single read (baseline) and once cut into packets at the plan's cut set, with empty-free packetisation, a read-size plan (1-byte reads, fixed sizes, header-splitting reads, random sizes), random queue size and asynchronous per-packet delivery; enumerated part: every single cut (thorough: every pair of cuts) and every header split position of 8 short responses, all 2^11 cut sets of a 12-byte response; non-trivial = at least one cut falls strictly inside a package or a read splits a packet; distinct = distinct (response, cut set, read mode)"
}

func (c02) Components() map[string]string {
	return map[string]string{"tds (Conn, reader goroutine, Channel, PacketQueue, package and field parsers)": "real (rewritten)", "transport": "stub: simrt.Conn with read-size plan", "server": "stub: sim/peer zoo encoders + packetiser", "clock/contexts": "simulated"}
}

func (c02) Gen(r *Rand, idx int, tier string) interface{} {
	p := &c02Plan{Knobs: GenKnobs(r), QueueSize: 100}
	// enumerated part
	i := idx
	for ri, names := range c02ShortOK() {
		body, _, _ := buildResponse(names)
		l := len(body)
		if i < l-1 {
			p.Entries, p.Cuts, p.Enum = names, []int{i + 1}, fmt.Sprintf("single-cut r%d", ri)
			return p
		}
		i -= l - 1
		if tier == "thorough" {
			np := (l - 1) * (l - 2) / 2
			if i < np {
				// unrank pair
				a := 1
				for i >= l-1-a {
					i -= l - 1 - a
					a++
				}
				p.Entries, p.Cuts, p.Enum = names, []int{a, a + 1 + i}, fmt.Sprintf("pair-cut r%d", ri)
				return p
			}
			i -= np
		}
		if i < 7 {
			p.Entries, p.Enum = names, fmt.Sprintf("header-split r%d", ri)
			p.ReadSizes = []int{i + 1}
			p.ReadMode = fmt.Sprintf("header-split-%d", i+1)
			p.Cuts = []int{l / 2}
			return p
		}
		i -= 7
	}
	if tier == "thorough" {
		if i < 2048 {
			p.Entries = []string{"done/count"}
			body, _, _ := buildResponse(p.Entries)
			for b := 0; b < 11 && b+1 < len(body); b++ {
				if i&(1<<b) != 0 {
					p.Cuts = append(p.Cuts, b+1)
				}
			}
			p.Enum = "cutset"
			return p
		}
		i -= 2048
	}
	// random part
	if r.Intn(300) == 0 {
		// one package in thousands of packets
		p.Entries = []string{"rowfmt2/text", "row/text/big", "done/final"}
		p.TinyPackets = 1 + r.Intn(2)
		p.QueueSize = Pick(r, []int{0, 1, 100})
		return p
	}
	if r.Pct(25) {
		// also encodings on which decoder and layout disagree: what matters here is that fragmentation changes nothing
		p.Entries = genResponseFrom(r, 8, append(append([]peer.Entry{}, zooList...), zooDisputed...))
	} else {
		p.Entries = genResponse(r, 8)
	}
	body, ends, _ := buildResponse(p.Entries)
	l := len(body)
	ncuts := 0
	switch r.Intn(6) {
	case 0:
		ncuts = 0
	case 1:
		ncuts = 1
	case 2:
		ncuts = 2
	case 3:
		ncuts = 1 + r.Intn(8)
	case 4:
		ncuts = l / (1 + r.Intn(16)) // many small packets
	case 5:
		ncuts = l - 1 // 1-byte bodies
	}
	for k := 0; k < ncuts && l > 1; k++ {
		if ncuts == l-1 {
			p.Cuts = append(p.Cuts, k+1)
			continue
		}
		if r.Pct(50) {
			// near a package boundary: in a length prefix, between format and data, right after a package end
			e := ends[r.Intn(len(ends))]
			c := e + r.Intn(7) - 3
			if e == l {
				c = e - 1 - r.Intn(4)
			}
			p.Cuts = append(p.Cuts, c)
		} else {
			p.Cuts = append(p.Cuts, 1+r.Intn(l-1))
		}
	}
	switch r.Intn(8) {
	case 0:
		p.ReadMode = "all"
	case 1:
		p.ReadMode = "one-byte"
		for k := 0; k < 4*l+64 && k < 6000; k++ {
			p.ReadSizes = append(p.ReadSizes, 1)
		}
	case 2:
		sz := Pick(r, []int{2, 3, 7, 8, 9})
		p.ReadMode = fmt.Sprintf("fixed-%d", sz)
		for k := 0; k < l+64 && k < 4000; k++ {
			p.ReadSizes = append(p.ReadSizes, sz)
		}
	case 3:
		h := 1 + r.Intn(7)
		p.ReadMode = fmt.Sprintf("header-split-%d", h)
		// split the header of the k-th packet: reads alternate header/body, so put the short read at an even position
		k := 2 * r.Intn(3)
		for j := 0; j < k; j++ {
			p.ReadSizes = append(p.ReadSizes, 0)
		}
		p.ReadSizes = append(p.ReadSizes, h)
	default:
		p.ReadMode = "random"
		for k := 0; k < 40; k++ {
			if r.Pct(40) {
				p.ReadSizes = append(p.ReadSizes, 0)
			} else {
				p.ReadSizes = append(p.ReadSizes, 1+r.Intn(20))
			}
		}
	}
	if r.Pct(12) {
		np := len(peer.Packetise(body, p.Cuts, peer.BufResponse, 0, true))
		p.Empty = append(p.Empty, r.Intn(np+1))
	}
	p.QueueSize = Pick(r, []int{0, 1, 2, 3, 5, 100})
	p.Async = r.Pct(50)
	p.Twin = r.Pct(15)
	p.Logical = r.Pct(25)
	p.DebugLog = r.Pct(20)
	if r.Pct(8) {
		total := 0
		for _, x := range c02Packets(body, p) {
			total += len(x)
		}
		if total > 12 {
			// a run of pauses close together (likely inside one packet) plus a few anywhere
			at := 9 + r.Intn(total-10)
			for k := 0; k < 3+r.Intn(3) && at < total; k++ {
				p.Slow = append(p.Slow, at)
				at += 1 + r.Intn(3)
			}
			for k := 0; k < r.Intn(3); k++ {
				p.Slow = append(p.Slow, 1+r.Intn(total-1))
			}
			sort.Ints(p.Slow)
		}
	}
	if len(p.Slow) == 0 && r.Pct(8) {
		p.EOFAtEnd = true
	}
	if r.Pct(6) {
		total := 0
		for _, x := range c02Packets(body, p) {
			total += len(x)
		}
		for k := 1 + r.Intn(3); k > 0 && total > 1; k-- {
			p.ZeroNil = append(p.ZeroNil, r.Intn(total))
		}
		sort.Ints(p.ZeroNil)
	}
	return p
}

func c02Delivery(body []byte, p *c02Plan) respDelivery {
	d := respDelivery{Packets: c02Packets(body, p), TermAt: -1, Async: p.Async, PauseAfterByte: p.Slow}
	if p.EOFAtEnd {
		n := 0
		for _, x := range d.Packets {
			n += len(x)
		}
		d.TermAt, d.TermKind, d.TermWithData = n, simrt.TermEOF, true
	}
	return d
}

func (c02) Decode(raw json.RawMessage) (interface{}, error) {
	p := &c02Plan{}
	err := json.Unmarshal(raw, p)
	return p, err
}

func (c02) Shrink(plan interface{}) []interface{} {
	p := plan.(*c02Plan)
	var out []interface{}
	cp := func() *c02Plan { q := *p; q.Enum = ""; return &q }
	// drop entries (keep formats that are still needed)
	for i := range p.Entries {
		if len(p.Entries) == 1 {
			break
		}
		q := cp()
		q.Entries = append(append([]string{}, p.Entries[:i]...), p.Entries[i+1:]...)
		ok := true
		have := map[string]bool{}
		for _, n := range q.Entries {
			if need := zooIndex[n].Needs; need != "" && !have[need] {
				ok = false
			}
			have[n] = true
		}
		if ok {
			q.Cuts = nil
			body, _, _ := buildResponse(q.Entries)
			for _, c := range p.Cuts {
				if c < len(body) {
					q.Cuts = append(q.Cuts, c)
				}
			}
			out = append(out, q)
		}
	}
	for i := range p.Cuts {
		q := cp()
		q.Cuts = append(append([]int{}, p.Cuts[:i]...), p.Cuts[i+1:]...)
		out = append(out, q)
	}
	if len(p.ReadSizes) > 0 {
		q := cp()
		q.ReadSizes = nil
		q.ReadMode = "all"
		out = append(out, q)
		q2 := cp()
		q2.ReadSizes = p.ReadSizes[:len(p.ReadSizes)/2]
		out = append(out, q2)
	}
	if p.Async {
		q := cp()
		q.Async = false
		out = append(out, q)
	}
	if p.Twin {
		q := cp()
		q.Twin = false
		out = append(out, q)
	}
	if len(p.Slow) > 0 {
		q := cp()
		q.Slow = nil
		out = append(out, q)
	}
	if p.Logical {
		q := cp()
		q.Logical = false
		out = append(out, q)
	}
	if len(p.Empty) > 0 {
		q := cp()
		q.Empty = nil
		out = append(out, q)
	}
	if p.QueueSize != 100 {
		q := cp()
		q.QueueSize = 100
		out = append(out, q)
	}
	if p.DebugLog {
		q := cp()
		q.DebugLog = false
		out = append(out, q)
	}
	return out
}

func (c02) Run(plan interface{}, schedSeed uint64, replay []simrt.Choice, lenient, keepLog bool) (*Verdict, *simrt.Outcome) {
	p := plan.(*c02Plan)
	v := &Verdict{}
	body, ends, err := buildResponse(p.Entries)
	if err != nil {
		v.Machinery = err.Error()
		return v, nil
	}
	// baseline: one packet, one read, synchronous delivery, roomy queue
	base := runResp(simrt.Config{Seed: schedSeed, Strategy: "uniform", ColdQueueLocks: true},
		respDelivery{Packets: peer.Packetise(body, nil, peer.BufResponse, 0, true), TermAt: -1},
		respClient{QueueSize: 100, ReadTimeoutS: 50})
	cfg := p.Knobs.Config(schedSeed)
	cfg.Replay, cfg.Lenient, cfg.KeepLog = replay, lenient, keepLog
	readTimeout := 50
	if len(p.Slow) > 0 {
		readTimeout = 2
	}
	got := runResp(cfg,
		c02Delivery(body, p),
		respClient{QueueSize: p.QueueSize, ReadTimeoutS: readTimeout, DebugLog: p.DebugLog, ReadSizes: p.ReadSizes, Twin: p.Twin, Logical: p.Logical, ZeroNil: p.ZeroNil})
	out := got.Out
	StdOutcome(v, base.Out)
	StdOutcome(v, out)
	if v.Machinery != "" {
		return v, out
	}
	if base.ConnErr != "" || base.SendErr != "" || len(base.Out.Crashes) > 0 {
		v.Machinery = fmt.Sprintf("baseline run failed: %s %s %v", base.ConnErr, base.SendErr, base.Out.Crashes)
		return v, out
	}
	if len(errsOnly(base.Recs)) > 0 {
		// the library itself rejects this response even unfragmented: not a valid response, nothing to compare -
		// unless every package of it is a validated encoding: such a response in one packet and one read is the
		// statement's own reference delivery and may not be rejected
		v.Probe("baseline-rejected-response")
		validated := true
		for _, n := range p.Entries {
			if isDisputed[n] {
				validated = false
			}
		}
		if validated {
			v.Violate("baseline-error", "the response in a single packet and a single read is rejected", "the response %v (%d bytes, validated encodings only) delivered in one packet and one read produced an error: %s", p.Entries, len(body), short(errsOnly(base.Recs)[0], 160))
		}
		return v, out
	}
	if out.Budget {
		return v, out
	}
	for _, c := range out.Crashes {
		v.Violate("panic", "panic "+CrashSig(c), "task %s panicked: %s\n%s", c.Task, c.Value, c.Stack)
	}
	if got.ConnErr != "" || got.SendErr != "" {
		v.Violate("client-error", "client-setup-error", "connect/send failed: %s %s", got.ConnErr, got.SendErr)
	}
	if len(p.Slow) > 0 {
		// a packet with three or more silences inside takes longer than the read timeout
		off := 0
		for _, x := range c02Packets(body, p) {
			n := 0
			for _, at := range p.Slow {
				if at > off && at < off+len(x) {
					n++
				}
			}
			if n >= 3 {
				v.Probe("packet-slower-than-read-timeout")
				break
			}
			off += len(x)
		}
	}
	if p.Twin {
		v.Probe("twin-connection")
		if got.TwinErr != "" || got.TwinPkgs != 4+twinStatuses {
			v.Violate("twin", "second connection disturbed", "a second connection receiving [RETURNSTATUS DONE(more) %d x RETURNSTATUS DONE(more) DONE(final)] at the same time got %d packages (%d expected) %s", twinStatuses, got.TwinPkgs, 4+twinStatuses, got.TwinErr)
		}
	}
	// the unfragmented delivery is itself checked against the zoo's description of the response: every visible
	// package once, plus at most the one synthetic final DONE (validated encodings only)
	vis, allValidated := 0, true
	for _, n := range p.Entries {
		if isDisputed[n] {
			allValidated = false
		}
		if zooIndex[n].Visible {
			vis++
		}
	}
	if nb := len(pkgsOnly(base.Recs)); allValidated && nb != vis && nb != vis+1 {
		v.Violate("wrong-packages", "unfragmented delivery does not match the response", "the response %v has %d visible packages, delivered in one packet and one read the channel handed out %d", p.Entries, vis, nb)
	}
	for _, ch := range got.Changed {
		v.Violate("aliasing", "a delivered package changed afterwards", "%s (cuts %v, read mode %s, entries %v)", ch, p.Cuts, p.ReadMode, p.Entries)
	}
	want, have := pkgsOnly(base.Recs), pkgsOnly(got.Recs)
	werr, herr := errsOnly(base.Recs), errsOnly(got.Recs)
	if p.EOFAtEnd {
		v.Probe("last-bytes-together-with-eof")
	}
	if p.TinyPackets > 0 {
		v.Probe("one-package-in-more-than-2048-packets")
	}
	if out.FaultFired["read-returns-zero-nil"] > 0 {
		v.Probe("a-read-returned-zero-nil")
	}
	if len(herr) > len(werr) && !p.EOFAtEnd {
		sig := "error"
		e := herr[0]
		switch {
		case strings.Contains(e, "expected bytes from reader"):
			sig = "header-split: short header read reported as error"
		case strings.Contains(e, "invalid channel"):
			sig = "error: invalid channel"
		default:
			sig = "error: " + stripDigits(short(e, 60))
		}
		v.Violate("spurious-error", sig, "fragmented delivery produced an error the single-packet delivery did not: %q (cuts %v, read mode %s)", e, p.Cuts, p.ReadMode)
	}
	if d := firstDiff(want, have); d != "" && len(p.Empty) > 0 {
		v.Violate("empty-packet", "empty-packet: header-only packet inside a response changes what is delivered", "%s; cuts %v, empty packets at %v, entries %v", d, p.Cuts, p.Empty, p.Entries)
	}
	if d := firstDiff(want, have); d != "" {
		cls := "wrong-packages"
		switch {
		case len(have) < len(want) && isPrefix(have, want):
			cls = "lost-packages"
		case len(have) > len(want) && isPrefix(want, have):
			cls = "extra-packages"
		}
		v.Violate(cls, cls, "%s; cuts %v, read mode %s, entries %v", d, p.Cuts, p.ReadMode, p.Entries)
	}
	if len(out.Parked) > 0 {
		// the reader legitimately stays parked in Read at the end; anything else parked is a problem
		for _, pk := range out.Parked {
			if p.EOFAtEnd && strings.HasPrefix(pk.Task, "go@") && strings.Contains(Sites[pk.Site].Func, "queueError") {
				continue // the transport has ended and nobody takes the reader's errors any more
			}
			if pk.Op != "read" {
				v.Violate("deadlock", "deadlock "+ParkSig(out, Sites), "tasks still blocked at the end: %v", out.Parked)
			}
		}
	}
	// non-triviality: a cut strictly inside a package, or a read that splits a packet
	inside := false
	endset := map[int]bool{}
	for _, e := range ends {
		endset[e] = true
	}
	for _, c := range p.Cuts {
		if c > 0 && c < len(body) && !endset[c] {
			inside = true
		}
	}
	if inside {
		v.Probe("cut-inside-package")
	}
	if len(p.Empty) > 0 {
		v.Probe("fault:empty-packet")
	}
	if len(p.ReadSizes) > 0 {
		v.Probe("read-plan:" + strings.SplitN(p.ReadMode, "-", 2)[0])
	}
	if p.Enum != "" {
		v.Probe("enumerated:" + strings.Fields(p.Enum)[0])
	}
	if inside || len(p.ReadSizes) > 0 {
		cs := append([]int{}, p.Cuts...)
		sort.Ints(cs)
		v.Nontrivial = fmt.Sprintf("%v|%v|%s|%v", p.Entries, cs, p.ReadMode, p.Empty)
	}
	v.ProbeN("packages-compared", len(want))
	v.Sample = map[string]interface{}{"entries": p.Entries, "cuts": p.Cuts, "read_mode": p.ReadMode, "queue": p.QueueSize, "async": p.Async, "packages": len(want)}
	return v, out
}

func isPrefix(a, b []string) bool {
	if len(a) > len(b) {
		return false
	}
	for i := range a {
		if a[i] != b[i] {
			return false
		}
	}
	return true
}

func stripDigits(s string) string {
	var b strings.Builder
	last := false
	for _, ch := range s {
		if ch >= '0' && ch <= '9' {
			if !last {
				b.WriteByte('#')
			}
			last = true
			continue
		}
		last = false
		b.WriteRune(ch)
	}
	return b.String()
}

// RequiredProbes: a batch in which one of these never fired explored nothing of that kind (exit 2, not a pass).
func (c02) RequiredProbes() []string {
	return []string{"cut-inside-package", "read-plan:one", "read-plan:header", "enumerated:single-cut", "fault:empty-packet"}
}
