package worlds

import (
	"encoding/json"
	"fmt"
	"strings"
	"time"

	"github.com/SAP/go-dblib/zz_verif/peer"
	"github.com/SAP/go-dblib/zz_verif/simrt"
)

// C07 — incomplete package data is "not enough bytes", then parses normally.
//
// Decided where users meet it: at the channel's retry loop. For a package E
// (with the format it needs delivered first) and every proper prefix length k
// the transport delivers [context + E[:k]] as a packet without end-of-message,
// nothing for a while, then E[k:] with end-of-message.

type c07Plan struct {
	// ReadTimeout0: Info.PacketReadTimeout is 0, so the second of silence between the two parts of the package is
	// longer than the read timeout (which concerns a transport that has ended, not a server that takes its time).
	ReadTimeout0 bool `json:"read_timeout_0,omitempty"`
	Entry string `json:"entry"`
	K     int    `json:"k"`
	// ReadSplit additionally splits the transport reads (0 = no).
	ReadSize int `json:"read_size,omitempty"`
	// K2 > K: the package arrives in three parts (two failed attempts before it is complete).
	K2 int `json:"k2,omitempty"`
	// Pre: another package (DONE with the more-results flag) precedes the context in the first packet, so the
	// position the channel rolls back to is not the start of the queue. Post: a final DONE follows the package in
	// the completing packet.
	Pre  bool `json:"pre,omitempty"`
	Post bool `json:"post,omitempty"`
	// Full: so many packages are put in front of the context that the first packet (context and prefix of the
	// truncated package) is exactly as long as the packet size in force, 512 bytes.
	Full bool `json:"full,omitempty"`
	// EmptyAtCut: an empty packet (no data, no end of message) arrives between the prefix and the rest.
	EmptyAtCut bool `json:"empty_at_cut,omitempty"`
	// Many: every packet carries one byte of data: the prefix of the package is itself spread over K packets (each
	// of them leaves the package incomplete) and the rest over as many as it takes - thousands for row/text/big.
	Many bool `json:"many,omitempty"`
}

type c07 struct{}

func init() { Register(c07{}) }

func (c07) ID() string { return "C07" }

type c07Case struct {
	entry string
	k     int
}

var c07Cases = map[string][]c07Case{}

// c07Extras: encodings beyond the zoo that only this world uses, judged like the zoo's disputed entries: where the
// library accepts the complete encoding, every proper prefix of it must report not-enough-bytes; where it rejects
// it, there is nothing to compare a truncation with.
//   - eed/surplus: a server message whose length field announces four bytes more than the fields of this protocol
//     version take (what a newer server might append), followed by those four bytes.
var c07Extras = func() []peer.Entry {
	b := peer.EED(102, 1, 15, "42000", 0, 0, "surplus\n", "ASE160", "", 1)
	l := (int(b[1]) | int(b[2])<<8) + 4
	b[1], b[2] = byte(l), byte(l>>8)
	b = append(b, 0xde, 0xad, 0xbe, 0xef)
	return []peer.Entry{{Name: "eed/surplus", Kind: "EED", Bytes: b, Visible: true, Spec: "EED with four bytes behind its known fields, counted by its length field"}}
}()

func init() {
	for _, e := range c07Extras {
		zooIndex[e.Name] = e
		isDisputed[e.Name] = true
	}
}

func c07Build(tier string) []c07Case {
	if cs, ok := c07Cases[tier]; ok {
		return cs
	}
	var cs []c07Case
	seen := map[string]bool{}
	for _, e := range append(append(append([]peer.Entry{}, zooList...), zooDisputed...), c07Extras...) {
		if tier != "thorough" {
			// every non-data entry up to 300 bytes; for the data kinds one entry per data-type family
			if e.Kind == "ROW" || e.Kind == "PARAMS" || e.Kind == "ROWFMT2" || e.Kind == "PARAMFMT" || e.Kind == "PARAMFMT2" {
				key := e.Kind + "/" + typeFamily(e.Name)
				if seen[key] || len(e.Bytes) > 200 {
					continue
				}
				seen[key] = true
			} else if len(e.Bytes) > 300 {
				continue
			}
		}
		for k := 1; k < len(e.Bytes); k++ {
			cs = append(cs, c07Case{e.Name, k})
		}
	}
	c07Cases[tier] = cs
	return cs
}

func typeFamily(name string) string {
	// "row/int4/typ" -> "int4"; families group sizes: intn1/intn2.. -> intn
	parts := splitSlash(name)
	if len(parts) < 2 {
		return name
	}
	t := parts[1]
	for len(t) > 0 && t[len(t)-1] >= '0' && t[len(t)-1] <= '9' {
		t = t[:len(t)-1]
	}
	return t
}

func splitSlash(s string) []string {
	var out []string
	cur := ""
	for _, ch := range s {
		if ch == '/' {
			out = append(out, cur)
			cur = ""
		} else {
			cur += string(ch)
		}
	}
	return append(out, cur)
}

// c07ManyCases: one package in thousands of one-byte packets, cut (the pause) at these prefix lengths
var c07ManyCases = []int{1300, 2590, 40}

func (c07) NRuns(tier string) int {
	if tier == "thorough" {
		return len(c07Build(tier))*8 + len(c07ManyCases) // every (entry, k) under read sizes "all", 1..7
	}
	return len(c07Build(tier)) + len(c07ManyCases)
}
func (c07) Rule() string {
	return "enumeration: for every zoo package E (quick: every non-data package up to 300 bytes plus one data package per data-type family; thorough: the whole zoo, each case under read sizes all/1..7) and EVERY proper prefix length k in 1..|E|-1, the context format plus E[:k] arrives as a packet without end-of-message, the channel is polled after quiescence, then E[k:] arrives with end-of-message and the channel is polled again (a fifth of the cases: in two further parts; a third: another package in front of the context; a quarter: a final DONE behind E); compared with the context alone and with the unfragmented response; non-trivial = 0<k<|E|; distinct = distinct (entry, k); exhaustive over k per entry set"
}
func (c07) Components() map[string]string {
	return map[string]string{"tds (reader goroutine, Channel retry/rollback loop, PacketQueue, package and field parsers)": "real (rewritten)", "transport": "stub: simrt.Conn, second part delayed by simulated time", "server": "stub: sim/peer zoo encoders", "clock/contexts": "simulated"}
}

func (c07) Gen(r *Rand, idx int, tier string) interface{} {
	cs := c07Build(tier)
	if n := (c07{}).NRuns(tier) - len(c07ManyCases); idx >= n {
		return &c07Plan{Entry: "row/text/big", K: c07ManyCases[(idx-n)%len(c07ManyCases)], Many: true, Post: idx%2 == 0}
	}
	c := cs[idx%len(cs)]
	p := &c07Plan{Entry: c.entry, K: c.k}
	if tier == "thorough" {
		p.ReadSize = idx / len(cs)
	} else if idx%5 == 4 {
		p.ReadSize = 1 + idx%7
	}
	n := len(zooIndex[c.entry].Bytes)
	if idx%5 == 2 && c.k+1 < n {
		p.K2 = c.k + 1 + (idx/5)%(n-c.k-1)
	}
	p.Pre = idx%3 == 1
	p.Post = idx%4 == 1
	p.Full = idx%7 == 3
	p.EmptyAtCut = idx%9 == 4
	p.ReadTimeout0 = idx%11 == 6
	return p
}
func (c07) Decode(raw json.RawMessage) (interface{}, error) {
	p := &c07Plan{}
	err := json.Unmarshal(raw, p)
	return p, err
}
func (c07) Shrink(plan interface{}) []interface{} {
	p := plan.(*c07Plan)
	if p.ReadSize != 0 {
		q := *p
		q.ReadSize = 0
		return []interface{}{&q}
	}
	return nil
}
func (c07) Exhaustive(tier string) bool { return true }

func (c07) Run(plan interface{}, schedSeed uint64, replay []simrt.Choice, lenient, keepLog bool) (*Verdict, *simrt.Outcome) {
	p := plan.(*c07Plan)
	v := &Verdict{}
	e, ok := zooIndex[p.Entry]
	if !ok {
		v.Machinery = "unknown zoo entry " + p.Entry
		return v, nil
	}
	var ctx []byte
	if e.Needs != "" {
		ctx = zooIndex[e.Needs].Bytes
	}
	if p.K <= 0 || p.K >= len(e.Bytes) {
		v.Machinery = fmt.Sprintf("k=%d out of range for %s (%d bytes)", p.K, p.Entry, len(e.Bytes))
		return v, nil
	}
	if p.Pre {
		ctx = append(peer.Done(0x11, 0, 4711), ctx...)
	}
	if p.Full {
		// fill up with DONE(more) (9 bytes) and RETURNSTATUS (5 bytes) packages: 9a+5b reaches every number from 32 on
		if need := 504 - len(ctx) - p.K; need >= 32 {
			var fill []byte
			b := 0
			for (need-5*b)%9 != 0 {
				b++
			}
			for i := 0; i < b; i++ {
				fill = append(fill, peer.ReturnStatus(int32(i))...)
			}
			for i := 0; i < (need-5*b)/9; i++ {
				fill = append(fill, peer.Done(0x11, 0, int32(9000+i))...)
			}
			ctx = append(fill, ctx...)
			v.Probe("first-packet-exactly-full")
		}
	}
	full := append(append([]byte{}, ctx...), e.Bytes...)
	if p.Post {
		full = append(full, peer.Done(0, 0, 0)...)
	}
	cfg0 := simrt.Config{Seed: schedSeed, Strategy: "uniform", ColdQueueLocks: true}
	// the silence between the parts of the package: one second - or, with a read timeout of one second (or none),
	// two and a half: longer than the read timeout, which concerns a transport that has ended, not a server that
	// takes its time
	gap := time.Second
	cl := respClient{QueueSize: 100, ReadTimeoutS: 50, DrainFor: 20 * time.Second, Hooks: true}
	if p.ReadTimeout0 {
		gap = 2500 * time.Millisecond
		cl.ReadTimeoutS = p.K % 2 // 0 or 1
		v.Probe("silence-longer-than-the-read-timeout")
	}
	polls := []time.Duration{gap / 2, gap * 3 / 2}
	if p.K2 > p.K && p.K2 < len(e.Bytes) {
		polls = append(polls, gap*5/2)
	}
	cl.PollAt = polls

	// baseline: everything in one packet with end-of-message
	base := runResp(cfg0, respDelivery{Packets: peer.Packetise(full, nil, peer.BufResponse, 0, true), TermAt: -1}, cl)
	// context alone (no end-of-message): what must be visible before the package is complete
	var ctxOnly *respResult
	if len(ctx) > 0 {
		ctxOnly = runResp(cfg0, respDelivery{Packets: peer.Packetise(ctx, nil, peer.BufResponse, 0, false), TermAt: -1}, cl)
	}
	cfg := simrt.Config{Seed: schedSeed, Strategy: "uniform", ColdQueueLocks: true, Replay: replay, Lenient: lenient, KeepLog: keepLog}
	cut := len(ctx) + p.K
	var rs []int
	if p.ReadSize > 0 {
		for i := 0; i < 64; i++ {
			rs = append(rs, p.ReadSize)
		}
	}
	cl2 := cl
	cl2.ReadSizes = rs
	cuts, pauses := []int{cut}, []int{peer.HeaderSize + cut}
	if len(polls) == 3 {
		cut2 := len(ctx) + p.K2
		cuts = append(cuts, cut2)
		pauses = append(pauses, 2*peer.HeaderSize+cut2)
	}
	pkts := peer.Packetise(full, cuts, peer.BufResponse, 0, true)
	if p.Many {
		pkts = peer.Packetise(full, peer.CutsBySize(len(full), 1), peer.BufResponse, 0, true)
		pauses = []int{cut * (peer.HeaderSize + 1)}
		v.Probe("one-package-in-thousands-of-packets")
	}
	if p.EmptyAtCut && len(pkts) >= 2 {
		pkts = append([][]byte{pkts[0], peer.MakePacket(peer.BufResponse, 0, 0, 0, nil)}, pkts[1:]...)
		if len(pauses) > 1 {
			pauses[1] += peer.HeaderSize
		}
		v.Probe("empty-packet-at-the-cut")
	}
	got := runResp(cfg, respDelivery{Packets: pkts, TermAt: -1,
		PauseAfterByte: pauses, PauseFor: gap}, cl2)
	out := got.Out
	StdOutcome(v, base.Out)
	StdOutcome(v, out)
	if v.Machinery != "" {
		return v, out
	}
	if isDisputed[p.Entry] && len(errsOnly(base.Recs)) > 0 && base.ConnErr == "" && base.SendErr == "" && len(base.Out.Crashes) == 0 {
		// an encoding the library's decoder does not accept even in one piece: nothing to compare a truncation with
		v.Probe("disputed-entry-rejected-unfragmented")
		return v, out
	}
	for _, c := range base.Out.Crashes {
		// whatever the library thinks of the encoding: it may reject it, it may not panic over it
		v.Violate("panic", "panic "+CrashSig(c), "%s delivered in one piece: task %s panicked: %s\n%s", p.Entry, c.Task, c.Value, c.Stack)
	}
	if v.Class != "" {
		return v, out
	}
	if base.ConnErr != "" || base.SendErr != "" || len(errsOnly(base.Recs)) > 0 {
		v.Machinery = fmt.Sprintf("zoo entry %s is not accepted unfragmented: %s %s %v %v", p.Entry, base.ConnErr, base.SendErr, base.Out.Crashes, errsOnly(base.Recs))
		return v, out
	}
	for _, c := range out.Crashes {
		v.Violate("panic", "panic "+CrashSig(c), "truncating %s after %d of %d bytes: task %s panicked: %s\n%s", p.Entry, p.K, len(e.Bytes), c.Task, c.Value, c.Stack)
	}
	ClientBlocked(v, out, fmt.Sprintf("truncating %s after %d of %d bytes", p.Entry, p.K, len(e.Bytes)))
	// split the records at the first poll-end marker
	// p1: everything seen while the package was incomplete (one or two poll phases), p2: afterwards
	var p1, p2 []PkgRec
	phase := 0
	for _, r := range got.Recs {
		if r.Type == "poll-end" {
			phase++
			continue
		}
		if phase < len(polls)-1 {
			p1 = append(p1, r)
		} else {
			p2 = append(p2, r)
		}
	}
	kind := e.Kind
	if errs := errsOnly(p1); len(errs) > 0 {
		v.Violate("wrong-error", "truncated "+kind+": error other than not-enough-bytes", "%s cut after %d of %d bytes: the channel reported %q instead of waiting for more bytes", p.Entry, p.K, len(e.Bytes), errs[0])
	}
	var wantCtx []string
	if ctxOnly != nil {
		wantCtx = pkgsOnly(ctxOnly.Recs)
	}
	if d := firstDiff(wantCtx, pkgsOnly(p1)); d != "" {
		v.Violate("premature-package", "truncated "+kind+": delivered from incomplete bytes", "%s cut after %d of %d bytes: before the rest arrived the channel delivered something else than the context packages: %s", p.Entry, p.K, len(e.Bytes), d)
	}
	if errs := errsOnly(p2); len(errs) > 0 {
		v.Violate("wrong-error", "completed "+kind+": error after the rest arrived", "%s cut after %d of %d bytes: after the rest arrived the channel reported %q", p.Entry, p.K, len(e.Bytes), errs[0])
	}
	// hook calls are recorded when the reader makes them, packages when the consumer fetches them: the two
	// sequences are compared separately (their interleaving depends on when the consumer polls)
	all := append(pkgsOnly(p1), pkgsOnly(p2)...)
	split := func(l []string) (hooks, pkgs []string) {
		for _, d := range l {
			if strings.HasPrefix(d, "HOOK ") {
				hooks = append(hooks, d)
			} else {
				pkgs = append(pkgs, d)
			}
		}
		return
	}
	wantH, wantP := split(pkgsOnly(base.Recs))
	gotH, gotP := split(all)
	if d := firstDiff(wantP, gotP); d != "" {
		v.Violate("wrong-result", "completed "+kind+": result differs from unfragmented parse", "%s cut after %d of %d bytes: %s", p.Entry, p.K, len(e.Bytes), d)
	}
	if d := firstDiff(wantH, gotH); d != "" {
		v.Violate("wrong-result", "completed "+kind+": hook calls differ from unfragmented parse", "%s cut after %d of %d bytes: %s", p.Entry, p.K, len(e.Bytes), d)
	}
	v.Nontrivial = fmt.Sprintf("%s@%d", p.Entry, p.K)
	v.Probe("kind:" + kind)
	v.Probe("fault:deliver-late")
	if len(polls) == 3 {
		v.Probe("two-failed-attempts")
	}
	v.Sample = map[string]interface{}{"entry": p.Entry, "k": p.K, "of": len(e.Bytes), "read_size": p.ReadSize}
	return v, out
}

// RequiredProbes: a batch in which one of these never fired explored nothing of that kind (exit 2, not a pass).
func (c07) RequiredProbes() []string { return []string{"fault:deliver-late"} }
