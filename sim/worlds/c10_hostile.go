package worlds

import (
	"encoding/hex"
	"encoding/json"
	"fmt"
	"runtime"
	"runtime/debug"
	"strings"
	"time"

	"github.com/SAP/go-dblib/zz_verif/peer"
	"github.com/SAP/go-dblib/zz_verif/simrt"
)

// C10 — no server input can crash the client.
//
// The server is a byzantine peer: corruption faults are applied to what it
// sends (byte substitution, window overwrite, truncation + garbage, arbitrary
// bytes after a token, arbitrary row bytes after a format, every data length,
// hostile packet headers, data tokens of the wrong format family, random streams). The client must neither panic, nor
// spin, nor allocate out of proportion.

type c10Plan struct {
	Kind     string `json:"kind"`
	Desc     string `json:"desc"`
	Wire     string `json:"wire"` // hex of the complete server byte stream (packets)
	DebugLog bool   `json:"debug_log"`
	Subject  string `json:"subject"` // zoo entry / field the corruption hit (for signatures)
	// PacketBody > 0: the stream (if it is a sequence of well-formed packets of one message) is re-cut into packets
	// of at most that many body bytes; ReadSize > 0: every transport read returns at most that many bytes. A
	// package that is incomplete when a packet ends is parsed again when the next packet arrives.
	PacketBody int `json:"packet_body,omitempty"`
	ReadSize   int `json:"read_size,omitempty"`
	// QueueBefore > 0: before it reads the response the client queues that many bytes of its next message without
	// sending them: what the response announces (a packet size) meets a partly filled packet.
	QueueBefore  int `json:"queue_before,omitempty"`
	QueueBeforeN int `json:"queue_before_n,omitempty"`
}

type c10 struct{}

// c10SecondResponse: the valid response the peer gives to the client's next request: what the hostile response left
// behind in the channel (receive queue, last format, end-of-message state) meets well-formed rows.
func c10SecondResponse() []byte {
	body, _, err := buildResponse([]string{"rowfmt2/int4", "row/int4/typ", "row/int4/typ", "done/final"})
	if err != nil {
		panic(err)
	}
	return body
}

func init() { Register(c10{}) }

func (c10) ID() string { return "C10" }

// c10PackPasses: how often the announced packet sizes are run (first pass plain, the others with a request begun
// before the response is read, each under its own schedule).
const c10PackPasses = 12

// c10PackSizes are the packet sizes a hostile server announces (TDS_ENV_PACKSIZE carries the number as text).
var c10PackSizes = []string{"0", "1", "4", "7", "8", "9", "10", "16", "-1", "-5", "-512", "-2147483648", "-9223372036854775808",
	"255", "256", "511", "512", "513", "65535", "65536", "65543", "70000", "131072", "16777216", "2147483647", "2147483648",
	"4294967295", "4294967296", "4294967304", "9223372036854775807", "9223372036854775808", "99999999999999999999", "", " ", "abc",
	" 512", "512 ", "+512", "0x200", "5e2", "512.0", "\x00", "٥١٢"}

// c10Dribbles: heads of packages whose item count is 65535 (lengths chosen so that the package is never complete).
var c10Dribbles = func() []struct {
	name string
	head []byte
	tail int
	per  int
} {
	type d = struct {
		name string
		head []byte
		tail int
		per  int
	}
	var out []d
	for _, h := range []struct {
		name string
		head []byte
	}{
		{"ROWFMT2", []byte{0x61, 0xff, 0xff, 0x00, 0x00, 0xff, 0xff}},
		{"ROWFMT", []byte{0xEE, 0xff, 0xff, 0xff, 0xff}},
		{"PARAMFMT", []byte{0xEC, 0xff, 0xff, 0xff, 0xff}},
		{"PARAMFMT2", []byte{0x20, 0xff, 0xff, 0x00, 0x00, 0xff, 0xff}},
		{"ORDERBY", []byte{0xA9, 0xff, 0xff}},
		{"ORDERBY2", []byte{0x22, 0xff, 0xff, 0x00, 0x00, 0xff, 0xff}},
	} {
		for _, per := range []int{1, 4, 9} {
			out = append(out, d{h.name, h.head, 120, per})
		}
	}
	// a value announcing four million bytes (32-bit length) behind a valid format, then one byte per packet: the
	// bytes to read are known before they are there
	for _, id := range []string{"longbinary", "longchar"} {
		for _, e := range peer.Zoo() {
			if e.Name == "rowfmt2/"+id {
				head := append(append([]byte{}, e.Bytes...), 0xD1, 0x00, 0x09, 0x3D, 0x00)
				out = append(out, d{"ROW " + id + " of 4000000 bytes", head, 300, 1}, d{"ROW " + id + " of 4000000 bytes", head, 600, 3})
			}
		}
	}
	return out
}()

// (0xD8 / 0xDC: as the high byte of a UTF-16 code unit they make it a lone high / low surrogate)
var c10Subst = []byte{0, 1, 2, 3, 4, 7, 8, 0x7F, 0x80, 0xFE, 0xFF, 0xD8, 0xDC}

// c10HeaderFloods: headers of length 0..7 followed by 66000 / 132000 bytes
const c10HeaderFloods = 16

// c10ChannelFloods: header-only and small packets for channels that do not exist, many more than the connection's
// error queue holds, while the consumer has stopped taking errors: the reader may wait, it may not leave anything
// behind per packet (goroutines, memory).
var c10ChannelFloods = []int{30, 200, 2000}

// c10SubstN is the number of substitutions tried per byte: the absolute values above and the original value
// plus and minus 1..4 (lengths and counts that are slightly off).
const c10SubstN = 13 + 8

func c10SubstVal(orig byte, k int) byte {
	if k < len(c10Subst) {
		return c10Subst[k]
	}
	k -= len(c10Subst)
	if k < 4 {
		return orig + byte(k+1)
	}
	return orig - byte(k-3)
}

// c10Disputed / c10Index: the disputed zoo entries and a name index over both sets.
var c10Disputed = peer.ZooDisputed()

var c10Index = func() map[string]peer.Entry {
	m := map[string]peer.Entry{}
	for _, e := range peer.Zoo() {
		m[e.Name] = e
	}
	for _, e := range c10Disputed {
		if _, dup := m[e.Name]; !dup {
			m[e.Name] = e
		}
	}
	return m
}()

type c10Enum struct {
	entries []peer.Entry
	offsets []int // cumulative number of cases
	total   int
}

var c10Enums = map[string]*c10Enum{}

func c10BuildEnum(tier string) *c10Enum {
	if e, ok := c10Enums[tier]; ok {
		return e
	}
	e := &c10Enum{}
	seen := map[string]bool{}
	// the disputed encodings (decoder and layout disagree on them) are hostile enough: C10 asks only for no crash
	for _, z := range append(append([]peer.Entry{}, zooList...), c10Disputed...) {
		if tier != "thorough" {
			key := z.Kind
			if z.Kind == "ROW" || z.Kind == "PARAMS" || z.Kind == "ROWFMT2" || z.Kind == "PARAMFMT" || z.Kind == "PARAMFMT2" {
				key = z.Kind + "/" + typeFamily(z.Name)
			}
			if seen[key] || len(z.Bytes) > 120 {
				continue
			}
			seen[key] = true
		}
		e.entries = append(e.entries, z)
		e.total += len(z.Bytes) * c10SubstN
		e.offsets = append(e.offsets, e.total)
	}
	c10Enums[tier] = e
	return e
}

// one-byte-length types: those with a two-byte NULL row in the zoo
func c10LenTypes() []peer.Entry {
	var out []peer.Entry
	for _, z := range zooList {
		if z.Kind == "ROW" && strings.HasSuffix(z.Name, "/null") && len(z.Bytes) == 2 {
			if f, ok := zooIndex[z.Needs]; ok {
				out = append(out, f)
			}
		}
	}
	return out
}

// c10CrossSeqs: data-token sequences sent after a format (0xD1 = TDS_ROW, 0xD7 = TDS_PARAMS), including the
// tokens of the other format family.
var c10CrossSeqs = [][]byte{{0xD1, 0xD1}, {0xD1, 0xD7}, {0xD7, 0xD1}, {0xD7, 0xD7}, {0xD7, 0xD7, 0xD1}, {0xD1, 0xD1, 0xD7}}

func (c10) NRuns(tier string) int {
	n := c10BuildEnum(tier).total + len(c10LenTypes())*256 + 10*2*24 + c10HeaderFloods + len(c10ChannelFloods) + len(fmtNames)*len(c10CrossSeqs) + c10PackPasses*len(c10PackSizes) + len(c10Dribbles)
	if tier == "thorough" {
		return n + 3000000
	}
	return n + 20000
}
func (c10) Rule() string {
	return "corruption faults on server responses: (enumerated) every byte of every response of the entry set (quick: one entry per package type and data-type family; thorough: the whole 467-entry zoo; plus the 123 disputed encodings) substituted by each of {0,1,2,3,4,7,8,0x7f,0x80,0xfe,0xff,0xd8,0xdc} and by its own value +-1..4 (a corrupted format is followed by a data package valid for the original format); every one-byte-length data type x every data length 0..255 with random data; packet headers with every length 0..9 and all message types; every format followed by 2..3 data tokens of its own and the other family; 43 announced packet sizes (negative, tiny, 8, beyond 16 and 32 bits, not numbers); after every response the client sends one more 600-byte request; 18 packages announcing 65535 items that arrive 1..9 bytes per packet; a quarter of the runs re-cut into packets of 1..64 body bytes, a fifth read 1..8 bytes at a time; (seeded) 2- and 4-byte windows overwritten with boundary integers, truncation plus garbage, known token followed by random bytes, format followed by arbitrary row bytes, purely random streams; DebugLogPackages on in a third of the runs; non-trivial = the corrupted bytes reached a package parser (not rejected at the packet layer); distinct = distinct (kind, subject, offset, value) / wire hash"
}
func (c10) Components() map[string]string {
	return map[string]string{"tds (packet reader, Channel, PacketQueue, every package/format/value parser, String methods via debug log), asetypes.GoValue": "real (rewritten)", "transport": "stub: simrt.Conn", "server": "stub: byzantine peer (sim/peer encoders + corruption faults)", "process limits": "worker under ulimit -v, TotalAlloc measured per run"}
}

// c10FirstData: for every format entry the bytes of the first non-NULL-looking data entry that needs it.
var c10FirstData = func() map[string][]byte {
	m := map[string][]byte{}
	for _, e := range peer.Zoo() {
		if e.Needs == "" {
			continue
		}
		if old, ok := m[e.Needs]; !ok || (len(old) <= 2 && len(e.Bytes) > 2) {
			m[e.Needs] = e.Bytes
		}
	}
	return m
}()

func c10Wrap(body []byte) []byte {
	var w []byte
	for _, pk := range peer.Packetise(body, peer.CutsBySize(len(body), 60000), peer.BufResponse, 0, true) {
		w = append(w, pk...)
	}
	return w
}

func (c10) Gen(r *Rand, idx int, tier string) interface{} {
	p := c10Gen(r, idx, tier)
	if p.Kind != "header" && p.Kind != "count-dribble" {
		if idx%4 == 1 {
			p.PacketBody = []int{1, 3, 7, 16, 64}[(idx/4)%5]
		}
		if idx%5 == 2 {
			p.ReadSize = []int{1, 3, 8}[(idx/5)%3]
		}
	}
	return p
}

func c10Gen(r *Rand, idx int, tier string) *c10Plan {
	p := &c10Plan{DebugLog: idx%3 == 0}
	e := c10BuildEnum(tier)
	i := idx
	if i < e.total {
		// locate entry
		k := 0
		for e.offsets[k] <= i {
			k++
		}
		base := 0
		if k > 0 {
			base = e.offsets[k-1]
		}
		z := e.entries[k]
		j := i - base
		off := j / c10SubstN
		val := c10SubstVal(z.Bytes[off], j%c10SubstN)
		var body []byte
		if z.Needs != "" {
			body = append(body, c10Index[z.Needs].Bytes...)
		}
		mut := append([]byte{}, z.Bytes...)
		mut[off] = val
		body = append(body, mut...)
		if byNeedFmt[z.Name] {
			// a corrupted format is followed by a data package that was valid for the original format: the
			// parsers (and the String methods) then work with an inconsistent description
			if d, ok := c10FirstData[z.Name]; ok {
				body = append(body, d...)
			}
		}
		body = append(body, peer.Done(0, 0, 0)...)
		p.Kind, p.Subject = "subst", z.Kind
		p.Desc = fmt.Sprintf("%s byte %d of %d: %#02x -> %#02x", z.Name, off, len(z.Bytes), z.Bytes[off], val)
		p.Wire = hex.EncodeToString(c10Wrap(body))
		return p
	}
	i -= e.total
	lt := c10LenTypes()
	if i < len(lt)*256 {
		f := lt[i/256]
		L := i % 256
		body := append([]byte{}, f.Bytes...)
		body = append(body, 0xD1, byte(L)) // TDS_ROW, data length
		body = append(body, r.Bytes(L)...)
		body = append(body, peer.Done(0, 0, 0)...)
		p.Kind, p.Subject = "datalen", strings.TrimPrefix(f.Name, "rowfmt2/")
		p.Desc = fmt.Sprintf("%s followed by a row with data length %d", f.Name, L)
		p.Wire = hex.EncodeToString(c10Wrap(body))
		return p
	}
	i -= len(lt) * 256
	if i < 10*2*24 {
		// packet headers: length 0..9, with/without EOM, all message types 0..23
		L, eom, typ := i%10, (i/10)%2, i/20
		h := peer.Header{Type: uint8(typ), Status: uint8(eom), Length: uint16(L), Channel: 0}
		w := h.Bytes()
		w = append(w, r.Bytes(40)...)
		p.Kind, p.Subject = "header", fmt.Sprintf("length=%d", L)
		p.Desc = fmt.Sprintf("packet header type=%d status=%d length=%d followed by 40 random bytes", typ, eom, L)
		p.Wire = hex.EncodeToString(w)
		return p
	}
	i -= 10 * 2 * 24
	if i < c10HeaderFloods {
		// a header announcing less than a header's length, and then as many bytes as the wrapped-around body length
		// (65528 + length) takes - and more: the reader neither reports nor ends, it may not spin either
		L, more := i%8, 66000*(1+i/8)
		h := peer.Header{Type: 4, Status: 1, Length: uint16(L), Channel: 0}
		w := h.Bytes()
		w = append(w, make([]byte, more)...)
		p.Kind, p.Subject = "header-flood", fmt.Sprintf("length=%d", L)
		p.Desc = fmt.Sprintf("packet header with length %d followed by %d bytes", L, more)
		p.Wire = hex.EncodeToString(w)
		return p
	}
	i -= c10HeaderFloods
	if i < len(c10ChannelFloods) {
		var w []byte
		for k := 0; k < c10ChannelFloods[i]; k++ {
			var body []byte
			if k%2 == 1 {
				body = peer.Done(0, 0, 0)
			}
			w = append(w, peer.MakePacket(peer.BufResponse, peer.BufstatEOM, uint16(7+k%3), uint8(k), body)...)
		}
		p.Kind, p.Subject = "channel-flood", fmt.Sprintf("packets=%d", c10ChannelFloods[i])
		p.Desc = fmt.Sprintf("%d packets (header-only and with a DONE) for channels that do not exist", c10ChannelFloods[i])
		p.Wire = hex.EncodeToString(w)
		return p
	}
	i -= len(c10ChannelFloods)
	if i < len(fmtNames)*len(c10CrossSeqs) {
		// every format followed by data tokens of its own and of the other family, each with the bytes of a
		// valid data package of that format (without its token)
		f := zooIndex[fmtNames[i/len(c10CrossSeqs)]]
		seq := c10CrossSeqs[i%len(c10CrossSeqs)]
		var data []byte
		for _, z := range zooList {
			if z.Needs == f.Name && (z.Kind == "ROW" || z.Kind == "PARAMS") {
				data = z.Bytes[1:]
				break
			}
		}
		body := append([]byte{}, f.Bytes...)
		for _, tok := range seq {
			body = append(body, tok)
			body = append(body, data...)
		}
		body = append(body, peer.Done(0, 0, 0)...)
		p.Kind, p.Subject = "fmt-cross", strings.SplitN(f.Name, "/", 2)[0]
		p.Desc = fmt.Sprintf("%s followed by data tokens %x (each with the bytes of a valid data package)", f.Name, seq)
		p.Wire = hex.EncodeToString(c10Wrap(body))
		return p
	}
	i -= len(fmtNames) * len(c10CrossSeqs)
	if i < c10PackPasses*len(c10PackSizes) {
		// an environment change announcing a packet size; the client's next request uses it (from the second pass
		// on: the next request was begun before the response was read - the further passes repeat that under other
		// schedules, the reader applies the size while the client is writing)
		val := c10PackSizes[i%len(c10PackSizes)]
		if i >= len(c10PackSizes) {
			p.QueueBefore = 100
		}
		if i >= 2*len(c10PackSizes) {
			p.QueueBeforeN = 30 // about eight packets are opened while the reader applies the size
		}
		body := append(peer.EnvChange(peer.EnvMember{Type: 4, New: val, Old: "512"}), peer.Done(0, 0, 0)...)
		p.Kind, p.Subject = "packsize", "ENVCHANGE"
		p.Desc = fmt.Sprintf("packet size %q announced, then the client sends 600 bytes", val)
		p.Wire = hex.EncodeToString(c10Wrap(body))
		return p
	}
	i -= c10PackPasses * len(c10PackSizes)
	if i < len(c10Dribbles) {
		// a package that announces 65535 items and then arrives a few bytes per packet: every arriving packet makes
		// the channel parse the package again from its start
		d := c10Dribbles[i]
		body := append(append([]byte{}, d.head...), r.Bytes(d.tail)...)
		p.Kind, p.Subject = "count-dribble", d.name
		p.Desc = fmt.Sprintf("%s announcing 65535 items, %d more bytes, %d body bytes per packet, no end of message", d.name, d.tail, d.per)
		var w []byte
		for _, pk := range peer.Packetise(body, peer.CutsBySize(len(body), d.per), peer.BufResponse, 0, false) {
			w = append(w, pk...)
		}
		p.Wire = hex.EncodeToString(w)
		return p
	}
	// seeded part
	pickEntry := func() (peer.Entry, []byte) {
		z := zooList[r.Intn(len(zooList))]
		var ctx []byte
		if z.Needs != "" {
			ctx = zooIndex[z.Needs].Bytes
		}
		return z, ctx
	}
	boundary := []uint32{0, 1, 0x7f, 0x80, 0xff, 0x100, 0x7fff, 0x8000, 0xffff, 0x10000, 0x7fffffff, 0x80000000, 0xfffffffe, 0xffffffff}
	switch r.Intn(7) {
	case 0: // 2-/4-byte window
		z, ctx := pickEntry()
		mut := append([]byte{}, z.Bytes...)
		w := 2
		if r.Bool() {
			w = 4
		}
		if len(mut) > w {
			off := r.Intn(len(mut) - w + 1)
			v := Pick(r, boundary)
			for k := 0; k < w; k++ {
				mut[off+k] = byte(v >> (8 * k))
			}
			p.Desc = fmt.Sprintf("%s bytes %d..%d overwritten with %#x (little endian)", z.Name, off, off+w-1, v)
		}
		p.Kind, p.Subject = "window", z.Kind
		p.Wire = hex.EncodeToString(c10Wrap(append(append(append([]byte{}, ctx...), mut...), peer.Done(0, 0, 0)...)))
	case 1: // truncate + garbage
		z, ctx := pickEntry()
		k := r.Intn(len(z.Bytes) + 1)
		g := r.Bytes(r.Intn(40))
		p.Kind, p.Subject = "trunc-garbage", z.Kind
		p.Desc = fmt.Sprintf("%s truncated after %d bytes, %d random bytes appended", z.Name, k, len(g))
		p.Wire = hex.EncodeToString(c10Wrap(append(append(append([]byte{}, ctx...), z.Bytes[:k]...), g...)))
	case 2: // known token + random
		z, ctx := pickEntry()
		g := r.Bytes(r.Intn(80))
		p.Kind, p.Subject = "token-random", z.Kind
		p.Desc = fmt.Sprintf("token %#02x (%s) followed by %d random bytes", z.Bytes[0], z.Kind, len(g))
		p.Wire = hex.EncodeToString(c10Wrap(append(append(append([]byte{}, ctx...), z.Bytes[0]), g...)))
	case 3: // format + arbitrary row bytes
		f := zooIndex[Pick(r, fmtNames)]
		tok := byte(0xD1)
		if strings.HasPrefix(f.Kind, "PARAMFMT") {
			tok = 0xD7
		}
		g := r.Bytes(r.Intn(60))
		p.Kind, p.Subject = "fmt-rows", strings.SplitN(f.Name, "/", 2)[1]
		p.Desc = fmt.Sprintf("%s followed by token %#02x and %d arbitrary bytes", f.Name, tok, len(g))
		p.Wire = hex.EncodeToString(c10Wrap(append(append(append([]byte{}, f.Bytes...), tok), g...)))
	case 4: // random stream
		g := r.Bytes(8 + r.Intn(200))
		p.Kind, p.Subject = "random-stream", "stream"
		p.Desc = fmt.Sprintf("%d random bytes", len(g))
		p.Wire = hex.EncodeToString(g)
	case 5: // random body in a valid packet
		g := r.Bytes(1 + r.Intn(120))
		p.Kind, p.Subject = "random-body", "body"
		p.Desc = fmt.Sprintf("valid packet with %d random body bytes", len(g))
		p.Wire = hex.EncodeToString(c10Wrap(g))
	default: // several substitutions in a multi-package response
		names := genResponse(r, 5)
		body, _, _ := buildResponse(names)
		n := 1 + r.Intn(3)
		for k := 0; k < n; k++ {
			at := r.Intn(len(body))
			body[at] = c10SubstVal(body[at], r.Intn(c10SubstN))
		}
		p.Kind, p.Subject = "multi-subst", "response"
		p.Desc = fmt.Sprintf("%v with %d substituted bytes", names, n)
		p.Wire = hex.EncodeToString(c10Wrap(body))
	}
	return p
}
func (c10) Decode(raw json.RawMessage) (interface{}, error) {
	p := &c10Plan{}
	err := json.Unmarshal(raw, p)
	return p, err
}
func (c10) Shrink(plan interface{}) []interface{} {
	p := plan.(*c10Plan)
	var out []interface{}
	if p.DebugLog {
		q := *p
		q.DebugLog = false
		out = append(out, &q)
	}
	return out
}

func (c10) Run(plan interface{}, schedSeed uint64, replay []simrt.Choice, lenient, keepLog bool) (*Verdict, *simrt.Outcome) {
	p := plan.(*c10Plan)
	v := &Verdict{}
	wire, err := hex.DecodeString(p.Wire)
	if err != nil {
		v.Machinery = "bad plan: " + err.Error()
		return v, nil
	}
	var ms0, ms1 runtime.MemStats
	runtime.ReadMemStats(&ms0)
	cfg := simrt.Config{Seed: schedSeed, Strategy: "uniform", ColdQueueLocks: p.Kind != "packsize", EOFReadCostMs: 200, MaxSteps: 60000, Replay: replay, Lenient: lenient, KeepLog: keepLog}
	if h := Mix(schedSeed, 77, 3); p.Kind == "packsize" && p.QueueBefore > 0 && h%2 == 0 {
		// half of these runs hold the client back where it reads the packet size, so that the reader's store of the
		// announced size lands around - and between - those reads
		for id, si := range Sites {
			if si.Op == "atomic-method" && strings.HasSuffix(si.Func, ".PacketSize") {
				cfg.Strategy, cfg.TargetSite = "target", id
				cfg.TargetNth = 4 + 2*int(h/2%3) // the second read of a pair: 4, 6, 8 (4: the first packet of the queued request)
			}
		}
	}
	packets := [][]byte{wire}
	if p.PacketBody > 0 {
		// re-cut a stream of well-formed packets of one message
		var asm peer.Assembler
		pks := asm.Feed(wire)
		total, ok := 0, len(pks) > 0 && asm.Err == ""
		var body []byte
		for i, pk := range pks {
			total += peer.HeaderSize + len(pk.Body)
			if pk.H.Type != peer.BufResponse || pk.H.Channel != 0 || (pk.H.Status&peer.BufstatEOM != 0) != (i == len(pks)-1) {
				ok = false
			}
			body = append(body, pk.Body...)
		}
		if ok && total == len(wire) && len(body) > 0 {
			packets = peer.Packetise(body, peer.CutsBySize(len(body), p.PacketBody), peer.BufResponse, 0, true)
			v.Probe("re-cut-into-small-packets")
		}
	}
	var readSizes []int
	if p.ReadSize > 0 {
		for n := 0; n < 4*len(wire)+64; n++ {
			readSizes = append(readSizes, p.ReadSize)
		}
	}
	got := runResp(cfg, respDelivery{Packets: packets, TermAt: -1},
		respClient{QueueSize: 100, ReadTimeoutS: 1, DebugLog: p.DebugLog, DrainFor: 5 * time.Second, NoDump: true, SendAfter: 600, Render: true, ReadSizes: readSizes, QueueBefore: p.QueueBefore, QueueBeforeN: p.QueueBeforeN, AnswerAfter: c10SecondResponse()})
	runtime.ReadMemStats(&ms1)
	out := got.Out
	StdOutcome(v, out)
	if v.Machinery != "" {
		return v, out
	}
	if got.ConnErr != "" || got.SendErr != "" {
		v.Machinery = "setup failed: " + got.ConnErr + got.SendErr
		return v, out
	}
	for _, c := range out.Crashes {
		who := "consumer"
		if strings.HasPrefix(c.Task, "go@") {
			who = "reader goroutine"
		}
		v.Violate("panic", "panic "+CrashSig(c), "%s (%s): the %s panicked: %s\n%s", p.Kind, p.Desc, who, c.Value, c.Stack)
	}
	ClientBlocked(v, out, fmt.Sprintf("%s (%s)", p.Kind, p.Desc))
	if out.Livelock != "" {
		v.Violate("livelock", "livelock: zero-length read spin ("+p.Subject+")", "%s (%s): %s", p.Kind, p.Desc, out.Livelock)
	} else if out.Budget {
		v.Violate("livelock", "livelock: step budget exhausted ("+p.Kind+")", "%s (%s): the client was still busy after %d steps on %d input bytes", p.Kind, p.Desc, out.Steps, len(wire))
		v.Budget = false
	}
	// goroutines of the library still waiting at the end: the reader, and whatever it started. Their number may not
	// depend on how much the server sent.
	left := 0
	for _, pk := range out.Parked {
		if strings.HasPrefix(pk.Task, "go@") {
			left++
		}
	}
	if left > 6 {
		v.Violate("goroutines", "goroutines left behind in proportion to the input ("+p.Kind+")", "%s (%s): %d goroutines of the library are still waiting at the end of the run, after %d input bytes", p.Kind, p.Desc, left, len(wire))
	}
	growth := int64(ms1.TotalAlloc - ms0.TotalAlloc)
	if growth > 64<<20 {
		// give huge (mostly untouched) blocks back before the next run, or the address-space limit kills the worker
		runtime.GC()
		debug.FreeOSMemory()
	}
	// every arriving packet lets the channel try the pending package once more: 32 KiB per attempt are proportionate
	bound := int64(8<<20) + 4096*int64(len(wire)) + int64(32<<10)*int64(len(packets))
	if growth > bound {
		v.Violate("alloc", "allocation out of proportion ("+p.Kind+" "+p.Subject+")", "%s (%s): %d bytes allocated while handling %d input bytes (bound %d)", p.Kind, p.Desc, growth, len(wire), bound)
	}
	pkgs, errs := 0, 0
	for _, r := range got.Recs {
		if r.Err != "" {
			errs++
		} else {
			pkgs++
		}
	}
	v.Probe("kind:" + p.Kind)
	if errs > 0 {
		v.Probe("outcome:error-reported")
	}
	v.ProbeN("max-alloc-kb", 0)
	if growth > c10MaxAlloc {
		c10MaxAlloc = growth
	}
	// reached a parser: at least one package delivered, or a channel-level (parse) error reported
	reached := pkgs > 0
	for _, r := range got.Recs {
		if strings.Contains(r.Err, "TDS channel") {
			reached = true
		}
	}
	if reached {
		v.Nontrivial = fmt.Sprintf("%s|%s", p.Kind, p.Desc)
		if len(v.Nontrivial) > 120 {
			v.Nontrivial = fmt.Sprintf("%s|%x", p.Kind, hashString(p.Wire))
		}
	}
	v.Sample = map[string]interface{}{"kind": p.Kind, "desc": p.Desc, "wire_bytes": len(wire), "packages": pkgs, "errors": errs, "alloc_bytes": growth}
	return v, out
}

var c10MaxAlloc int64

func hashString(s string) uint64 {
	h := uint64(1469598103934665603)
	for i := 0; i < len(s); i++ {
		h ^= uint64(s[i])
		h *= 1099511628211
	}
	return h
}

// RequiredProbes: a batch in which one of these never fired explored nothing of that kind (exit 2, not a pass).
func (c10) RequiredProbes() []string {
	return []string{"kind:subst", "kind:datalen", "kind:header", "kind:fmt-cross", "kind:packsize", "kind:count-dribble", "re-cut-into-small-packets", "kind:window", "kind:random-stream", "kind:channel-flood"}
}
