package worlds

import (
	"context"
	"encoding/json"
	"fmt"
	"reflect"
	"sort"
	"strings"
	"sync/atomic"
	"time"
	"unsafe"

	"github.com/SAP/go-dblib/tds"
	"github.com/SAP/go-dblib/zz_verif/peer"
	"github.com/SAP/go-dblib/zz_verif/simrt"
)

// C12 — logical channels are isolated and correctly routed under concurrency.

type c12Task struct {
	Rounds  int  `json:"rounds"`
	Pkgs    int  `json:"pkgs"`  // data packages per response
	Delay   int  `json:"delay"` // yields before NewChannel
	Pause   int  `json:"pause"` // yields between rounds
	NoClose bool `json:"no_close,omitempty"`
	// Fill > 0: the task's requests are padded to exactly Fill packet bodies (the message then ends with an
	// empty end-of-message packet, the one packet whose header is not derived from a data packet).
	Fill int `json:"fill,omitempty"`
	// EnvSize > 0: the task's responses start with an environment change announcing this packet size (the size is
	// shared by all channels of the connection: other tasks are sending while the reader applies it).
	EnvSize int `json:"env_size,omitempty"`
	// Trailing: after the last response the peer sends this many more packages on the task's channel, which the
	// client does not wait for: they race the channel's Close (at most the queue size, or Close would meet the
	// listed full-queue deadlock of C13).
	Trailing int `json:"trailing,omitempty"`
	// PostClose: after the peer has seen this channel's teardown (and simulated time has passed, so Close has
	// returned) it sends one more packet for the channel: the channel no longer exists, so exactly one
	// "invalid channel" connection error is due.
	PostClose bool `json:"post_close,omitempty"`
	// Split: the channel is used by two goroutines at once, as its read lock allows: this task sends all its
	// requests one after the other while a second task consumes the responses (pipelined use).
	Split bool `json:"split,omitempty"`
	// ResetBetween (Split): the sending goroutine calls Reset after every message ("after a communication has been
	// completed") while the other goroutine is receiving on the channel.
	ResetBetween bool `json:"reset_between,omitempty"`
	// Empty > 0: the task's responses contain a packet without data and without the end-of-message flag, in front
	// of their packet number (Empty-1) mod #packets; the packets of other channels interleave as always.
	Empty int `json:"empty,omitempty"`
}

type c12Plan struct {
	Knobs     Knobs     `json:"knobs"`
	Tasks     []c12Task `json:"tasks"`
	QueueSize int       `json:"queue_size"`
	BodySize  int       `json:"body_size"` // server packets carry at most this many body bytes
	// Unknown: after the k-th client message (overall) the peer injects a packet for a channel that does not exist.
	Unknown []int `json:"unknown,omitempty"`
	// CloseEarly > 0: the root closes the connection after that many scheduling steps, while the tasks are inside
	// NewChannel / SendPackage / NextPackage / Close. Then only safety is judged: every task returns, nothing
	// panics, no data race, the reader ends.
	CloseEarly int `json:"close_early,omitempty"`
	// IdBase > 0: the connection has handed out this many channel ids before (its counter is set to it): the
	// ids run out at 65535 - the tasks beyond that must be refused, not given an id that wraps around.
	IdBase int `json:"id_base,omitempty"`
	// BadAck: the k-th SETUP the peer sees (0-based) is not acknowledged but answered with something else - 1: a
	// header-only packet of another type, 2: a DONE package, 3: a header-only packet of type 15 (the bits of 11 and one more). That NewChannel must fail and leave no channel behind:
	// a packet the server sends for the id afterwards is a packet for a channel that does not exist.
	BadAck map[int]int `json:"bad_ack,omitempty"`
	// Chaos: instead of the scripted clients, a few tasks call the whole public surface of two shared channels
	// (channel 0 and one logical channel) and of the connection in seeded order - sends, receives, polls, queue /
	// flush, Reset, SetLastPkgRx/Tx, hook registration, Close, Conn.Close, NewChannel, PacketSize. Only safety is
	// judged: no data race, no panic, every call returns, the reader ends once the connection is closed.
	Chaos [][]c12ChaosOp `json:"chaos,omitempty"`
	// ChaosEnd > 0 (chaos only): the peer ends the connection - ChaosEndKind 0: EOF, 1: reset - when it has seen
	// that many client messages: the calls of the tasks then meet a failed transport.
	ChaosEnd     int `json:"chaos_end,omitempty"`
	ChaosEndKind int `json:"chaos_end_kind,omitempty"`
	// ChaosTwin (chaos only): a second connection of the same process exchanges a few messages at the same time:
	// whatever the connections share (package-level state) is shared by two reader goroutines.
	ChaosTwin bool `json:"chaos_twin,omitempty"`
	// ReadTimeout0: Info.PacketReadTimeout is 0 (legal: it concerns a transport that has ended).
	ReadTimeout0 bool `json:"read_timeout_0,omitempty"`
	// IdJump: when the first task has its channel, 255 more ids are "used up" (the connection's id counter is put
	// forward): the next channel's id is the first one's plus 256, and both channels are in use at the same time.
	IdJump bool `json:"id_jump,omitempty"`
}

type c12ChaosOp struct {
	Op string `json:"op"`
	Ch int    `json:"ch"` // 0: channel 0, 1: the logical channel
}

var c12ChaosOps = []string{"send", "send", "recv", "recv", "poll", "queue", "flush", "reset", "lastrx", "lasttx", "eedhook", "envhook",
	"close", "connclose", "newchan", "size", "until"}

type c12 struct{}

func init() { Register(c12{}) }

func (c12) ID() string { return "C12" }
func (c12) NRuns(tier string) int {
	if tier == "thorough" {
		return 400000
	}
	return 8000
}
func (c12) Rule() string {
	return "one connection, channel 0 plus N (quick 1..4, thorough 1..16) client tasks created by a root task; each task: NewChannel, k rounds of SendPackage + consume to the final DONE, Close; the peer acknowledges SETUP, answers every request with packages carrying channel/round-unique markers and interleaves the packets of different channels' responses by the schedule stream; unknown-channel packets are injected; every synchronisation operation is a scheduling choice (sticky / PCT / uniform strategies) and every schedule runs under the race detector; non-trivial = at least two tasks were inside NewChannel/Close concurrently or two channels' response packets interleaved; distinct = distinct schedule-trace hash"
}
func (c12) Components() map[string]string {
	return map[string]string{"tds (Conn, reader goroutine, Channel, NewChannel/Close, routing)": "real (rewritten), race detector live", "transport": "stub: simrt.Conn", "server": "stub: per-channel scripted peer with packet-level interleaving", "goroutine scheduling": "simulated"}
}

func (c12) Gen(r *Rand, idx int, tier string) interface{} {
	p := &c12Plan{Knobs: GenKnobs(r)}
	if r.Pct(12) {
		nt := 2 + r.Intn(3)
		for t := 0; t < nt; t++ {
			var ops []c12ChaosOp
			for k := 0; k < 2+r.Intn(5); k++ {
				ops = append(ops, c12ChaosOp{Op: Pick(r, c12ChaosOps), Ch: r.Intn(2)})
			}
			p.Chaos = append(p.Chaos, ops)
		}
		p.QueueSize = 100
		p.BodySize = Pick(r, []int{9, 18, 504})
		p.Tasks = []c12Task{{}}
		if r.Pct(30) {
			p.ChaosEnd, p.ChaosEndKind = 1+r.Intn(4), r.Intn(2)
		}
		p.ChaosTwin = r.Pct(40)
		return p
	}
	maxN := 4
	if tier == "thorough" && r.Pct(30) {
		maxN = 16
	}
	n := 1 + r.Intn(maxN)
	for i := 0; i < n; i++ {
		t := c12Task{Rounds: r.Intn(3), Pkgs: r.Intn(4), Delay: r.Intn(3), Pause: r.Intn(2)}
		if n > 8 {
			t.Rounds = r.Intn(2)
		}
		t.NoClose = r.Pct(15)
		if r.Pct(25) {
			t.Fill = 1 + r.Intn(2)
		}
		if r.Pct(12) {
			t.EnvSize = Pick(r, []int{512, 512, 1024, 600})
		}
		if r.Pct(20) && t.Rounds > 0 {
			t.Split = true
			t.Rounds += r.Intn(3)
			if t.Fill == 0 && r.Pct(50) {
				// a pipelined sender writes long requests while the sizes announced in the answers arrive
				t.Fill = 1 + r.Intn(2)
			}
			if t.EnvSize == 0 && r.Pct(40) {
				t.EnvSize = Pick(r, []int{1024, 600, 2048})
			}
		}
		p.Tasks = append(p.Tasks, t)
	}
	p.QueueSize = Pick(r, []int{0, 1, 2, 3, 5, 100})
	for i := range p.Tasks {
		if r.Pct(30) && p.Tasks[i].Rounds > 0 {
			p.Tasks[i].Trailing = 1 + r.Intn(2)
			if p.Tasks[i].Trailing > p.QueueSize {
				p.Tasks[i].Trailing = p.QueueSize
			}
		}
	}
	for i := range p.Tasks {
		if !p.Tasks[i].NoClose && r.Pct(20) {
			p.Tasks[i].PostClose = true
		}
	}
	if r.Pct(4) {
		// one long-lived channel: more than 256 packets, so the packet numbers wrap
		p.Tasks = p.Tasks[:1]
		p.Tasks[0] = c12Task{Rounds: 270 + r.Intn(60), Pkgs: 0}
	}
	if r.Pct(10) {
		p.CloseEarly = 1 + r.Intn(60)
	}
	if r.Pct(8) {
		p.BadAck = map[int]int{r.Intn(len(p.Tasks)): 1 + r.Intn(3)}
	}
	if r.Pct(6) && len(p.Tasks) > 1 {
		p.IdBase = 65536 - r.Intn(len(p.Tasks)+1)
	}
	p.BodySize = Pick(r, []int{1, 5, 9, 18, 504})
	total := 0
	for _, t := range p.Tasks {
		total += t.Rounds
	}
	if r.Pct(25) && total > 0 {
		k := 1 + r.Intn(2)
		if r.Pct(15) {
			// more reports at once than the connection's error queue holds
			k = 11 + r.Intn(5)
		}
		at := r.Intn(total)
		for i := 0; i < k; i++ {
			if k <= 2 {
				at = r.Intn(total)
			}
			p.Unknown = append(p.Unknown, at)
		}
	}
	for i := range p.Tasks {
		if p.Tasks[i].Split && r.Pct(40) {
			p.Tasks[i].ResetBetween = true
		}
		if p.Tasks[i].Rounds > 0 && r.Pct(15) {
			p.Tasks[i].Empty = 1 + r.Intn(6)
		}
	}
	p.ReadTimeout0 = r.Pct(8)
	if len(p.Tasks) >= 2 && p.IdBase == 0 && r.Pct(8) {
		p.IdJump = true
		p.Tasks[0].Delay, p.Tasks[0].NoClose, p.Tasks[0].PostClose = 0, true, false
		if p.Tasks[0].Rounds == 0 {
			p.Tasks[0].Rounds = 2
		}
		for i := 1; i < len(p.Tasks); i++ {
			p.Tasks[i].Delay += 3
			if p.Tasks[i].Rounds == 0 {
				p.Tasks[i].Rounds = 1
			}
		}
	}
	if r.Pct(12) {
		// a slow server: it stops reading the connection now and then, writes of the sending tasks block once its
		// socket buffer is full (while the reader goes on delivering) and go on later; nothing else may change
		p.Knobs.GenSlow(r, 2500, 200*time.Millisecond)
	}
	return p
}
func (c12) Decode(raw json.RawMessage) (interface{}, error) {
	p := &c12Plan{}
	err := json.Unmarshal(raw, p)
	return p, err
}
func (c12) Shrink(plan interface{}) []interface{} {
	p := plan.(*c12Plan)
	var out []interface{}
	if len(p.Knobs.Slow) > 0 {
		q := *p
		q.Knobs.Slow = nil
		out = append(out, &q)
	}
	if len(p.Chaos) > 0 {
		if p.ChaosEnd > 0 {
			q := *p
			q.ChaosEnd = 0
			out = append(out, &q)
		}
		if p.ChaosTwin {
			q := *p
			q.ChaosTwin = false
			out = append(out, &q)
		}
		for i := range p.Chaos {
			if len(p.Chaos) > 1 {
				q := *p
				q.Chaos = append(append([][]c12ChaosOp{}, p.Chaos[:i]...), p.Chaos[i+1:]...)
				out = append(out, &q)
			}
			for k := range p.Chaos[i] {
				q := *p
				q.Chaos = append([][]c12ChaosOp{}, p.Chaos...)
				q.Chaos[i] = append(append([]c12ChaosOp{}, p.Chaos[i][:k]...), p.Chaos[i][k+1:]...)
				out = append(out, &q)
			}
		}
		return out
	}
	for i := range p.Tasks {
		if len(p.Tasks) > 1 {
			q := *p
			q.Tasks = append(append([]c12Task{}, p.Tasks[:i]...), p.Tasks[i+1:]...)
			out = append(out, &q)
		}
	}
	for i, t := range p.Tasks {
		mod := func(f func(*c12Task)) {
			q := *p
			q.Tasks = append([]c12Task{}, p.Tasks...)
			f(&q.Tasks[i])
			out = append(out, &q)
		}
		if t.Rounds > 0 {
			mod(func(x *c12Task) { x.Rounds-- })
		}
		if t.Pkgs > 0 {
			mod(func(x *c12Task) { x.Pkgs = 0 })
		}
		if t.Delay > 0 {
			mod(func(x *c12Task) { x.Delay = 0 })
		}
		if t.Pause > 0 {
			mod(func(x *c12Task) { x.Pause = 0 })
		}
	}
	if len(p.Unknown) > 0 {
		q := *p
		q.Unknown = p.Unknown[1:]
		out = append(out, &q)
	}
	if p.BodySize != 504 {
		q := *p
		q.BodySize = 504
		out = append(out, &q)
	}
	if p.QueueSize != 100 {
		q := *p
		q.QueueSize = 100
		out = append(out, &q)
	}
	if p.IdBase > 0 {
		q := *p
		q.IdBase = 0
		out = append(out, &q)
	}
	if len(p.BadAck) > 0 {
		q := *p
		q.BadAck = nil
		out = append(out, &q)
	}
	return out
}

const c12UnknownChannel = 4999

func c12ReadTimeout(p *c12Plan) int {
	if p.ReadTimeout0 {
		return 0
	}
	return 5
}

func c12Marker(task, round, k int) int32 { return int32(task*10000 + round*100 + k + 1) }

func (c12) Run(plan interface{}, schedSeed uint64, replay []simrt.Choice, lenient, keepLog bool) (*Verdict, *simrt.Outcome) {
	p := plan.(*c12Plan)
	if len(p.Chaos) > 0 {
		return c12RunChaos(p, schedSeed, replay, lenient, keepLog)
	}
	v := &Verdict{}
	cfg := p.Knobs.Config(schedSeed)
	cfg.Replay, cfg.Lenient, cfg.KeepLog = replay, lenient, keepLog
	if cfg.MaxSteps == 0 {
		cfg.MaxSteps = 200000
	}
	s := simrt.New(cfg)
	pr := NewTDSPeer(s)

	// ---- peer: per-channel outgoing queues, pumped one packet at a time ----
	type chanInfo struct {
		live     bool
		setupSeq int
		closeSeq int
		nextNr   int // expected packet number of the next client packet
		haveNr   bool
	}
	chans := map[uint16]*chanInfo{}
	var wireViol []string
	outq := map[uint16][][]byte{}
	var order []uint16
	pumping := false
	interleaved := false
	lastFrom := uint16(0xffff)
	openResp := map[uint16]bool{}
	envDone := map[*byte]int{} // first byte of the packet that completes an environment change -> announced size
	lastEnv := 0
	var pump func()
	pump = func() {
		pumping = false
		var ready []uint16
		for _, c := range order {
			if len(outq[c]) > 0 {
				ready = append(ready, c)
			}
		}
		if len(ready) == 0 {
			return
		}
		c := ready[s.Choose(len(ready))]
		pk := outq[c][0]
		outq[c] = outq[c][1:]
		if lastFrom != 0xffff && lastFrom != c && openResp[lastFrom] {
			interleaved = true
		}
		lastFrom = c
		openResp[c] = len(outq[c]) > 0
		if sz, ok := envDone[&pk[0]]; ok {
			lastEnv = sz
		}
		pr.Conn.Deliver(pk)
		for _, c2 := range order {
			if len(outq[c2]) > 0 {
				pumping = true
				s.After(0, "pump", pump)
				break
			}
		}
	}
	enqueue := func(c uint16, pkts [][]byte) {
		if _, ok := outq[c]; !ok {
			order = append(order, c)
		}
		outq[c] = append(outq[c], pkts...)
		if !pumping {
			pumping = true
			s.After(0, "pump", pump)
		}
	}
	taskOfChan := map[uint16]int{}
	postCloseSent := 0
	nmsgs := 0
	unknownSent := 0
	trailingSent := 0
	pr.OnPacket = func(pk peer.RecvPacket) {
		c := pk.H.Channel
		ci := chans[c]
		switch pk.H.Type {
		case peer.BufSetup:
			if c == 0 || (p.IdBase > 0 && int(c) < p.IdBase) {
				wireViol = append(wireViol, fmt.Sprintf("wrong-channel-id|SETUP for channel %d: not an id a new logical channel can have (ids handed out before: %d)", c, p.IdBase))
			}
			if ci != nil && ci.live {
				wireViol = append(wireViol, fmt.Sprintf("duplicate-id|SETUP for channel %d while a channel with that id is still open", c))
			}
			chans[c] = &chanInfo{live: true, setupSeq: simrt.Record("peer-setup", "", "", int64(c))}
			ci = chans[c]
			// the setup packet is the channel's first packet: the numbers go on from it
			ci.haveNr, ci.nextNr = true, int(pk.H.PacketNr)
			if len(pk.Body) != 0 || pk.H.Length != peer.HeaderSize {
				wireViol = append(wireViol, fmt.Sprintf("bad-control-packet|SETUP for channel %d is not a header-only packet (%s)", c, pk.H))
			}
		case peer.BufClose:
			if ci != nil {
				ci.live = false
				ci.closeSeq = simrt.Record("peer-close", "", "", int64(c))
				if t := taskOfChan[c]; t >= 1 && t <= len(p.Tasks) && p.Tasks[t-1].PostClose {
					postCloseSent++
					s.Fault("packet-after-close")
					s.After(time.Millisecond, "post-close packet", func() {
						enqueue(c, peer.Packetise(peer.Done(0x10, 0, 515151), nil, peer.BufResponse, c, true))
					})
				}
			}
		}
		if c != 0 {
			if ci == nil {
				if p.CloseEarly > 0 && pk.H.Type == peer.BufClose {
					// Conn.Close met a channel whose NewChannel had registered it but not yet written its setup
					// packet: the teardown for a channel the server never saw is a shutdown artefact, not judged
					return
				}
				wireViol = append(wireViol, fmt.Sprintf("wrong-channel-id|packet for channel %d which was never set up (%s)", c, pk.H))
				return
			}
			if !ci.live && pk.H.Type != peer.BufClose && pk.H.Type != peer.BufSetup && p.CloseEarly == 0 {
				wireViol = append(wireViol, fmt.Sprintf("packet-after-close|channel %d: packet sent after the channel's teardown (%s)", c, pk.H))
			}
			if pk.H.Type != peer.BufClose && pk.H.Type != peer.BufSetup && pk.H.Type != 15 && p.CloseEarly == 0 {
				wireViol = append(wireViol, fmt.Sprintf("wrong-type|channel %d: request packet with message type %d (%s)", c, pk.H.Type, pk.H))
			}
			if ci.haveNr && int(pk.H.PacketNr) != ci.nextNr {
				wireViol = append(wireViol, fmt.Sprintf("packet-number|channel %d: packet number %d, expected %d", c, pk.H.PacketNr, ci.nextNr))
			}
			ci.haveNr = true
			ci.nextNr = (int(pk.H.PacketNr) + 1) % 256
		}
	}
	setupsSeen, badAcks, postBad := 0, 0, 0
	pr.OnHeaderOnly = func(pk peer.RecvPacket) {
		if pk.H.Type == peer.BufSetup {
			k := setupsSeen
			setupsSeen++
			c := pk.H.Channel
			switch p.BadAck[k] {
			case 1:
				badAcks++
				s.Fault("setup-not-acknowledged")
				enqueue(c, [][]byte{peer.MakePacket(peer.BufClose, peer.BufstatEOM, c, 0, nil)})
			case 2:
				badAcks++
				s.Fault("setup-not-acknowledged")
				enqueue(c, peer.Packetise(peer.Done(0, 0, 0), nil, peer.BufResponse, c, true))
			case 3:
				// a header-only packet whose type (15, normal) has all the bits of the acknowledgement's type (11) set
				// and one more: it is not an acknowledgement
				badAcks++
				s.Fault("setup-not-acknowledged")
				enqueue(c, [][]byte{peer.MakePacket(15, peer.BufstatEOM, c, 0, nil)})
			default:
				enqueue(c, [][]byte{peer.MakePacket(peer.BufProtack, peer.BufstatEOM, c, 0, nil)})
				return
			}
			if ci := chans[c]; ci != nil {
				ci.live = false // the server refused it
			}
			if p.CloseEarly == 0 {
				postBad++
				s.After(time.Millisecond, "packet for the refused channel", func() {
					enqueue(c, peer.Packetise(peer.Done(0x10, 0, 616161), nil, peer.BufResponse, c, true))
				})
			}
		}
	}
	pr.OnMsg = func(m *ClientMsg) {
		if m.Type == peer.BufClose || m.Type == peer.BufSetup {
			return
		}
		if m.Type == peer.BufLogout || (len(m.Body) > 0 && m.Body[0] == 0x71) {
			enqueue(m.Channel, peer.Packetise(peer.Done(0, 0, 0), nil, peer.BufResponse, m.Channel, true))
			return
		}
		nmsgs++
		for _, u := range p.Unknown {
			if u == nmsgs-1 {
				unknownSent++
				s.Fault("unknown-channel-packet")
				enqueue(c12UnknownChannel, peer.Packetise(peer.Done(0x10, 0, 424242), nil, peer.BufResponse, c12UnknownChannel, true))
			}
		}
		if m.Type == peer.BufLogout || (len(m.Body) > 0 && m.Body[0] == 0x71) {
			enqueue(m.Channel, peer.Packetise(peer.Done(0, 0, 0), nil, peer.BufResponse, m.Channel, true))
			return
		}
		// the request is one LANGUAGE package: token, 32-bit length of what follows, status, text - the command
		// and nothing but padding spaces behind it; a message that lost bytes on its way does not look like that
		if b := m.Body; p.CloseEarly == 0 {
			ok := len(b) >= 6 && b[0] == 0x21 && int(uint32(b[1])|uint32(b[2])<<8|uint32(b[3])<<16|uint32(b[4])<<24) == len(b)-5 && b[5] == 0
			if ok {
				seenSpace := false
				for _, c := range b[6:] {
					if c == ' ' {
						seenSpace = true
					} else if seenSpace || !(c == 't' || c == 'r' || c == 'n' || (c >= '0' && c <= '9')) {
						ok = false
					}
				}
			}
			if !ok {
				wireViol = append(wireViol, fmt.Sprintf("request-damaged|channel %d: the request does not arrive as the LANGUAGE package that was sent (%d bytes: % x ...)", m.Channel, len(b), b[:min(len(b), 24)]))
			}
		}
		// request: language "t<task>r<round>n<pkgs>"
		var task, round, n int
		txt := string(m.Body)
		if i := strings.Index(txt, "t"); i >= 0 {
			fmt.Sscanf(txt[i:], "t%dr%dn%d", &task, &round, &n)
		}
		taskOfChan[m.Channel] = task
		var body []byte
		envLen, envSize := 0, 0
		if task >= 1 && task <= len(p.Tasks) && p.Tasks[task-1].EnvSize > 0 {
			envSize = p.Tasks[task-1].EnvSize
			body = append(body, peer.EnvChange(peer.EnvMember{Type: 4, New: fmt.Sprint(envSize), Old: "512"})...)
			envLen = len(body)
			s.Fault("packet-size-change")
		}
		for k := 0; k < n; k++ {
			body = append(body, peer.Done(0x11, 0, c12Marker(task, round, k))...)
		}
		body = append(body, peer.Done(0, 0, 0)...)
		rpks := peer.Packetise(body, peer.CutsBySize(len(body), p.BodySize), peer.BufResponse, m.Channel, true)
		if task >= 1 && task <= len(p.Tasks) && p.Tasks[task-1].Empty > 0 {
			at := (p.Tasks[task-1].Empty - 1) % len(rpks)
			empty := peer.MakePacket(peer.BufResponse, 0, m.Channel, 0, nil)
			rpks = append(rpks[:at], append([][]byte{empty}, rpks[at:]...)...)
			s.Fault("empty-packet-inside-response")
		}
		if envLen > 0 {
			// the packet in which the environment change is complete: when the reader has it, the size is in force
			got := 0
			for _, pk := range rpks {
				got += len(pk) - peer.HeaderSize
				if got >= envLen {
					envDone[&pk[0]] = envSize
					break
				}
			}
		}
		enqueue(m.Channel, rpks)
		if task >= 1 && task <= len(p.Tasks) && round == p.Tasks[task-1].Rounds-1 && p.Tasks[task-1].Trailing > 0 {
			var tb []byte
			for k := 0; k < p.Tasks[task-1].Trailing; k++ {
				tb = append(tb, peer.Done(0x11, 0, c12Marker(task, round+1, k))...)
			}
			trailingSent += p.Tasks[task-1].Trailing
			s.Fault("late-packet-racing-close")
			enqueue(m.Channel, peer.Packetise(tb, nil, peer.BufResponse, m.Channel, false))
		}
	}

	// ---- clients ----
	type taskRes struct {
		newErr                               string
		recs                                 [][]PkgRec // per round
		sendErrs                             []string
		closeErr                             string
		invalid                              int // "invalid channel" connection errors seen
		newCall, newRet, closeCall, closeRet int
		foreign                              []string
		skipped                              bool
		refused                              bool
	}
	res := make([]*taskRes, len(p.Tasks))
	for i := range res {
		res[i] = &taskRes{}
	}
	var connErr, mainErr, connCloseErr string
	var ch0Got []string
	registered := -1
	finalSize := 0
	splitUsed := false
	for _, t := range p.Tasks {
		splitUsed = splitUsed || t.Split
	}
	mainInvalid := 0
	out := s.Run(func() {
		conn, err := tds.NewConn(context.Background(), MkInfo(p.QueueSize, c12ReadTimeout(p), false))
		if err != nil {
			connErr = err.Error()
			return
		}
		ch0, err := conn.NewChannel()
		if err != nil {
			mainErr = err.Error()
			return
		}
		_ = ch0
		if p.IdBase > 0 {
			f := reflect.ValueOf(conn).Elem().FieldByName("tdsChannelCurFreeId")
			*(*uint32)(unsafe.Pointer(f.UnsafeAddr())) = uint32(p.IdBase)
		}
		var ts []*simrt.Task
		for ti := range p.Tasks {
			ti := ti
			tp := p.Tasks[ti]
			ts = append(ts, simrt.Spawn(fmt.Sprintf("c%d", ti+1), func() {
				tr := res[ti]
				for i := 0; i < tp.Delay; i++ {
					simrt.Yield(0)
				}
				ctx, cancel := simrt.WithTimeout(context.Background(), 60*time.Second)
				defer cancel()
				tr.newCall = simrt.Record("newchannel-call", "", "", 0)
				ch, err := conn.NewChannel()
				tr.newRet = simrt.Record("newchannel-ret", "", "", 0)
				if err != nil {
					if strings.Contains(err.Error(), "invalid channel") {
						// the connection error about an unknown-channel packet surfaced here (documented relaxation)
						tr.invalid++
						tr.skipped = true
						return
					}
					if len(p.BadAck) > 0 && (strings.Contains(err.Error(), "header-only") || strings.Contains(err.Error(), "protack")) {
						tr.refused = true
						return
					}
					tr.newErr = err.Error()
					return
				}
				if p.IdJump && ti == 0 {
					// (an atomic store, as the library's own accesses are: no report of the detector, no scheduling point)
					f := reflect.ValueOf(conn).Elem().FieldByName("tdsChannelCurFreeId")
					atomic.AddUint32((*uint32)(unsafe.Pointer(f.UnsafeAddr())), 255)
					simrt.Record("id-counter-put-forward", "", "", 255)
				}
				receive := func() bool {
					var recs []PkgRec
					ok := true
					for n := 0; n < 200; n++ {
						pkg, err := ch.NextPackage(ctx, true)
						if err != nil {
							if strings.Contains(err.Error(), "invalid channel") {
								tr.invalid++
								continue
							}
							recs = append(recs, recErr(err))
							ok = false
							break
						}
						r := recPkg(pkg)
						if d, ok := pkg.(*tds.DonePackage); ok {
							r.Dump = fmt.Sprintf("DONE status=%d count=%d", d.Status, d.Count)
						}
						recs = append(recs, r)
						if r.Final {
							break
						}
					}
					tr.recs = append(tr.recs, recs)
					return ok
				}
				var consumer *simrt.Task
				if tp.Split {
					consumer = simrt.Spawn(fmt.Sprintf("c%dr", ti+1), func() {
						for rd := 0; rd < tp.Rounds; rd++ {
							if !receive() {
								return
							}
						}
					})
				}
				for rd := 0; rd < tp.Rounds; rd++ {
					cmd := fmt.Sprintf("t%dr%dn%d", ti+1, rd, tp.Pkgs)
					if tp.Fill > 0 {
						// token, 4-byte length and status precede the text
						cmd += strings.Repeat(" ", tp.Fill*(conn.PacketSize()-8)-6-len(cmd))
					}
					if err := ch.SendPackage(ctx, &tds.LanguagePackage{Cmd: cmd}); err != nil {
						tr.sendErrs = append(tr.sendErrs, err.Error())
						break
					}
					if !tp.Split {
						receive()
					} else if tp.ResetBetween {
						ch.Reset()
					}
					for i := 0; i < tp.Pause; i++ {
						simrt.Yield(0)
					}
				}
				if consumer != nil {
					simrt.Join(consumer)
				}
				if !tp.NoClose {
					tr.closeCall = simrt.Record("close-call", "", "", 0)
					if err := ch.Close(); err != nil {
						tr.closeErr = err.Error()
					}
					tr.closeRet = simrt.Record("close-ret", "", "", 0)
				}
			}))
		}
		if p.CloseEarly > 0 {
			for i := 0; i < p.CloseEarly; i++ {
				simrt.Yield(0)
			}
			simrt.Record("conn-close-early", "", "", 0)
			if err := conn.Close(); err != nil {
				connCloseErr = err.Error()
			}
			simrt.Join(ts...)
			return
		}
		simrt.Join(ts...)
		// drain connection errors nobody consumed (invalid channel reports): wait with a short deadline, so
		// that queued connection errors are returned before the deadline error
		dctx, dcancel := simrt.WithTimeout(context.Background(), time.Second)
		for i := 0; i < 50; i++ {
			pkg, err := ch0.NextPackage(dctx, true)
			if err != nil && strings.Contains(err.Error(), "invalid channel") {
				mainInvalid++
				continue
			}
			if err == nil && pkg != nil {
				// nothing is ever sent to channel 0 in this world
				ch0Got = append(ch0Got, Dump(pkg))
				continue
			}
			break
		}
		dcancel()
		// the connection's channel table: channel 0 and the logical channels that were set up and not closed -
		// a channel whose NewChannel failed does not exist
		simrt.Sleep(time.Millisecond)
		registered = reflect.ValueOf(conn).Elem().FieldByName("tdsChannels").Len()
		finalSize = conn.PacketSize()
		if err := conn.Close(); err != nil {
			connCloseErr = err.Error()
		}
	})
	StdOutcome(v, out)
	if v.Machinery != "" {
		return v, out
	}
	if connErr != "" || mainErr != "" {
		v.Machinery = "connection setup failed: " + connErr + mainErr
		return v, out
	}
	if out.Budget {
		return v, out
	}
	for _, w := range wireViol {
		parts := strings.SplitN(w, "|", 2)
		v.Violate(parts[0], parts[0], "%s", parts[1])
	}
	for _, c := range out.Crashes {
		v.Violate("panic", "panic "+CrashSig(c), "task %s panicked: %s\n%s", c.Task, c.Value, c.Stack)
	}
	if out.Races > 0 {
		v.Violate("race", "race", "the race detector reported %d data race(s) on this schedule (report in the worker's race log)", out.Races)
	}
	var blocked []simrt.Park
	for _, pk := range out.Parked {
		if pk.Op != "read" {
			blocked = append(blocked, pk)
		}
	}
	if len(blocked) > 0 {
		v.Violate("deadlock", "deadlock "+ParkSig(out, Sites), "tasks blocked forever: %v", out.Parked)
	}
	if p.CloseEarly > 0 {
		for _, pk := range out.Parked {
			if pk.Op == "read" {
				v.Violate("reader-not-ended", "reader goroutine still running after Conn.Close", "the connection was closed while tasks were using it; the reader task is still parked: %v", out.Parked)
			}
		}
		v.Probe("connection-closed-under-load")
		if v.Class == "" {
			v.Nontrivial = fmt.Sprintf("%016x", out.LogHash)
		}
		v.Sample = map[string]interface{}{"tasks": len(p.Tasks), "close_early": p.CloseEarly, "steps": out.Steps}
		return v, out
	}
	if registered >= 0 {
		want := 1
		for ti, tr := range res {
			if !tr.skipped && !tr.refused && tr.newErr == "" && p.Tasks[ti].NoClose {
				want++
			}
		}
		if registered != want {
			v.Violate("channel-table", "channel table does not match the open channels", "%d channels are registered on the connection, %d are open (channel 0 and the logical channels set up and not closed); a channel whose NewChannel failed must not stay registered", registered, want)
		}
	}
	if lastEnv != 0 && finalSize != 0 && finalSize != lastEnv && v.Class == "" {
		complete := true
		for _, tr := range res {
			if tr.skipped || tr.refused || tr.newErr != "" || len(tr.sendErrs) > 0 {
				complete = false
			}
		}
		if complete {
			v.Violate("packet-size", "announced packet size not in force", "the channels' responses announced packet sizes in turn, the last announcement the reader received was %d: the connection's packet size is %d", lastEnv, finalSize)
		}
	}
	for _, d := range ch0Got {
		v.Violate("misrouted", "package delivered to channel 0", "channel 0, to which the server sent nothing, delivered %s", short(d, 200))
	}
	totalInvalid := mainInvalid
	concurrentSetup := false
	exhausted := 0
	refused := 0
	for ti, tr := range res {
		tp := p.Tasks[ti]
		if tr.skipped {
			totalInvalid += tr.invalid
			continue
		}
		if tr.refused {
			refused++
			continue
		}
		if p.IdBase > 0 && strings.Contains(tr.newErr, "exhausted all channel IDs") {
			exhausted++
			continue
		}
		if tr.newErr != "" {
			v.Violate("newchannel-failed", "NewChannel failed although the server acknowledged the setup", "task c%d: NewChannel: %s", ti+1, tr.newErr)
			continue
		}
		for _, e := range tr.sendErrs {
			v.Violate("send-failed", "send-failed", "task c%d: SendPackage: %s", ti+1, e)
		}
		totalInvalid += tr.invalid
		for rd := 0; rd < tp.Rounds && rd < len(tr.recs); rd++ {
			var want []string
			for k := 0; k < tp.Pkgs; k++ {
				want = append(want, fmt.Sprintf("DONE status=17 count=%d", c12Marker(ti+1, rd, k)))
			}
			want = append(want, "DONE status=0 count=0")
			if d := firstDiff(want, dumpsOf(tr.recs[rd])); d != "" {
				v.Violate("misrouted", "channel received wrong packages", "task c%d round %d: %s", ti+1, rd, d)
			}
		}
		if len(tr.recs) < tp.Rounds && len(tr.sendErrs) == 0 {
			v.Violate("misrouted", "round missing", "task c%d: %d of %d rounds completed", ti+1, len(tr.recs), tp.Rounds)
		}
		for tj, o := range res {
			if tj != ti && o.newErr == "" && tr.newCall < o.newRet && o.newCall < tr.newRet {
				concurrentSetup = true
			}
			if tj != ti && tr.closeRet > 0 && o.closeRet > 0 && tr.closeCall < o.closeRet && o.closeCall < tr.closeRet {
				concurrentSetup = true
			}
		}
	}
	if p.IdBase > 0 {
		wantEx := len(p.Tasks) - (65536 - p.IdBase)
		if wantEx < 0 {
			wantEx = 0
		}
		if exhausted != wantEx {
			v.Violate("id-exhaustion", "channel ids beyond 65535", "%d channel ids had been handed out before, %d tasks asked for one more each: %d must be refused (ids end at 65535), %d were", p.IdBase, len(p.Tasks), wantEx, exhausted)
		}
		if wantEx > 0 {
			v.Probe("channel-ids-exhausted")
		}
	}
	// a late packet that reaches the connection after its channel was removed is reported like an unknown-channel packet
	trailingPackets := 0
	for _, t := range p.Tasks {
		if t.Trailing > 0 && t.Rounds > 0 {
			trailingPackets++
		}
	}
	skippedN := 0
	for _, tr := range res {
		if tr.skipped {
			skippedN++
		}
	}
	// (a NewChannel that was handed an "invalid channel" connection error first has failed already, whatever its
	// setup was answered with)
	if refused > badAcks || refused+skippedN < badAcks {
		v.Violate("bad-ack", "setup answered with something else than an acknowledgement", "%d SETUP packets were answered with a packet that is not an acknowledgement, %d NewChannel calls failed for that reason (NewChannel results: %s)", badAcks, refused, func() string {
			var o []string
			for ti, tr := range res {
				o = append(o, fmt.Sprintf("c%d: err=%q skipped=%v refused=%v", ti+1, tr.newErr, tr.skipped, tr.refused))
			}
			return strings.Join(o, "; ")
		}())
	}
	if badAcks > 0 {
		v.Probe("setup-refused")
	}
	must := unknownSent + postCloseSent + postBad
	// a NewChannel that failed (it consumed one of these reports) leaves no channel behind: the acknowledgement the
	// server still sends for it is one more packet for a channel that does not exist
	skippedTasks := 0
	for _, tr := range res {
		if tr.skipped {
			skippedTasks++
		}
	}
	if v.Class == "" && (totalInvalid < must || totalInvalid > must+trailingPackets+skippedTasks) {
		v.Violate("invalid-channel-report", "unknown-channel packets not reported exactly once", "%d packets for a channel that does not exist were injected (%d for a never existing id, %d after their channel's Close had returned; plus %d late packets that may or may not meet a closed channel and %d acknowledgements for channels whose NewChannel had failed), %d 'invalid channel' connection errors surfaced", must, unknownSent, postCloseSent, trailingPackets, skippedTasks, totalInvalid)
	}
	_ = connCloseErr
	_ = trailingSent
	if concurrentSetup {
		v.Probe("concurrent-newchannel-or-close")
	}
	if interleaved {
		v.Probe("interleaved-responses")
	}
	if splitUsed {
		v.Probe("channel-used-by-sender-and-receiver-tasks")
	}
	if concurrentSetup || interleaved {
		v.Nontrivial = fmt.Sprintf("%016x", out.LogHash)
	}
	ids := []int{}
	for c := range chans {
		ids = append(ids, int(c))
	}
	sort.Ints(ids)
	v.Sample = map[string]interface{}{"tasks": len(p.Tasks), "channel_ids": ids, "unknown_injected": unknownSent, "steps": out.Steps, "strategy": p.Knobs.Strategy}
	return v, out
}

// RequiredProbes: a batch in which one of these never fired explored nothing of that kind (exit 2, not a pass).
func (c12) RequiredProbes() []string {
	return []string{"concurrent-newchannel-or-close", "interleaved-responses"}
}

// c12RunChaos: see c12Plan.Chaos.
func c12RunChaos(p *c12Plan, schedSeed uint64, replay []simrt.Choice, lenient, keepLog bool) (*Verdict, *simrt.Outcome) {
	v := &Verdict{}
	cfg := p.Knobs.Config(schedSeed)
	cfg.Replay, cfg.Lenient, cfg.KeepLog = replay, lenient, keepLog
	if cfg.MaxSteps == 0 {
		cfg.MaxSteps = 200000
	}
	s := simrt.New(cfg)
	pr := NewTDSPeer(s)
	pr.OnHeaderOnly = func(pk peer.RecvPacket) {
		if pk.H.Type == peer.BufSetup {
			pr.SendPackets([][]byte{peer.MakePacket(peer.BufProtack, peer.BufstatEOM, pk.H.Channel, 0, nil)})
		}
	}
	chaosMsgs, twinMsgs := 0, 0
	pr.OnMsg = func(m *ClientMsg) {
		if m.Type == peer.BufClose || m.Type == peer.BufSetup {
			return
		}
		chaosMsgs++
		if p.ChaosEnd > 0 && chaosMsgs == p.ChaosEnd {
			if p.ChaosEndKind == 1 {
				pr.Conn.End(simrt.TermReset, false)
				s.Fault("close-reset")
			} else {
				pr.Conn.End(simrt.TermEOF, false)
				s.Fault("close-eof")
			}
			return
		}
		if len(m.Body) == 2 && m.Body[0] == 0x71 {
			pr.SendPackets(peer.Packetise(peer.Done(0, 0, 0), nil, peer.BufResponse, m.Channel, true))
			return
		}
		// a message, an environment change (the packet size stays what it is), a counted and the final DONE
		var body []byte
		body = append(body, peer.EED(4711, 1, 16, "ZZZZZ", 0, 0, "chaos", "srv", "", 1)...)
		body = append(body, peer.EnvChange(peer.EnvMember{Type: 4, New: "512", Old: "512"})...)
		if p.ChaosTwin {
			// a result set and parameters with column names of their own: whatever the parsers of the process share
			// is used by this connection's reader and the twin's at the same time
			cols := []peer.Col{{Name: fmt.Sprintf("main_col_%d", chaosMsgs), Type: peer.TDS_INT4}}
			body = append(body, peer.RowFmt(true, cols...)...)
			body = append(body, peer.Row(cols, []peer.Val{{Raw: peer.RawInt4(int32(chaosMsgs))}})...)
			body = append(body, peer.ParamFmt(true, cols...)...)
			body = append(body, peer.Params(cols, []peer.Val{{Raw: peer.RawInt4(int32(chaosMsgs))}})...)
		}
		body = append(body, peer.Done(0x11, 0, 77)...)
		body = append(body, peer.Done(0, 0, 0)...)
		pr.SendPackets(peer.Packetise(body, peer.CutsBySize(len(body), p.BodySize), peer.BufResponse, m.Channel, true))
	}
	if p.ChaosTwin {
		pr.NewSub = func(cn *simrt.Conn) *TDSPeer {
			sp := SubPeer(s, cn)
			sp.Async = true
			sp.OnMsg = func(m *ClientMsg) {
				if len(m.Body) == 2 && m.Body[0] == 0x71 {
					sp.SendResponse(m.Channel, peer.Done(0, 0, 0), nil)
					return
				}
				twinMsgs++
				cols := []peer.Col{{Name: fmt.Sprintf("twin_col_%d", twinMsgs), Type: peer.TDS_INT4}}
				body := peer.RowFmt(true, cols...)
				body = append(body, peer.Row(cols, []peer.Val{{Raw: peer.RawInt4(int32(twinMsgs))}})...)
				body = append(body, peer.ParamFmt(false, cols...)...)
				body = append(body, peer.Params(cols, []peer.Val{{Raw: peer.RawInt4(int32(twinMsgs))}})...)
				body = append(append(body, peer.Done(0x11, 0, 4242)...), peer.Done(0, 0, 0)...)
				sp.SendResponse(m.Channel, body, []int{3, 11})
			}
			return sp
		}
	}
	var setupErr, chLErr, twinErr string
	twinGot := 0
	connClosed := false
	out := s.Run(func() {
		conn, err := tds.NewConn(context.Background(), MkInfo(p.QueueSize, 5, false))
		if err != nil {
			setupErr = err.Error()
			return
		}
		ch0, err := conn.NewChannel()
		if err != nil {
			setupErr = err.Error()
			return
		}
		chL, err := conn.NewChannel()
		if err != nil {
			chLErr = err.Error()
			return
		}
		chans := []*tds.Channel{ch0, chL}
		var ts []*simrt.Task
		if p.ChaosTwin {
			ts = append(ts, simrt.Spawn("twin", func() {
				c2, err := tds.NewConn(context.Background(), MkInfo(p.QueueSize, 5, false))
				if err != nil {
					twinErr = err.Error()
					return
				}
				t0, err := c2.NewChannel()
				if err != nil {
					twinErr = err.Error()
					return
				}
				ctx, cancel := simrt.WithTimeout(context.Background(), 30*time.Second)
				defer cancel()
				for k := 0; k < 3; k++ {
					if err := t0.SendPackage(ctx, &tds.LanguagePackage{Cmd: "twin"}); err != nil {
						twinErr = err.Error()
						return
					}
					for n := 0; n < 8; n++ {
						pkg, err := t0.NextPackage(ctx, true)
						if err != nil {
							twinErr = err.Error()
							return
						}
						twinGot++
						if d, ok := pkg.(*tds.DonePackage); ok && d.Status == tds.TDS_DONE_FINAL {
							break
						}
					}
				}
				_ = c2.Close()
			}))
		}
		for ti, ops := range p.Chaos {
			ops := ops
			ts = append(ts, simrt.Spawn(fmt.Sprintf("x%d", ti+1), func() {
				for _, o := range ops {
					ch := chans[o.Ch%2]
					ctx, cancel := simrt.WithTimeout(context.Background(), time.Second)
					switch o.Op {
					case "send":
						_ = ch.SendPackage(ctx, &tds.LanguagePackage{Cmd: "chaos"})
					case "recv":
						short, c2 := simrt.WithTimeout(context.Background(), 50*time.Millisecond)
						_, _ = ch.NextPackage(short, true)
						c2()
					case "until":
						short, c2 := simrt.WithTimeout(context.Background(), 50*time.Millisecond)
						_, _ = ch.NextPackageUntil(short, true, nil)
						c2()
					case "poll":
						_, _ = ch.NextPackage(ctx, false)
					case "queue":
						_ = ch.QueuePackage(ctx, &tds.LanguagePackage{Cmd: "chaos-queued"})
					case "flush":
						_ = ch.SendRemainingPackets(ctx)
					case "reset":
						ch.Reset()
					case "lastrx":
						ch.SetLastPkgRx(nil)
					case "lasttx":
						ch.SetLastPkgTx(nil)
					case "eedhook":
						_ = ch.RegisterEEDHooks(func(tds.EEDPackage) {})
					case "envhook":
						_ = ch.RegisterEnvChangeHooks(func(tds.EnvChangeType, string, string) {})
					case "close":
						_ = ch.Close()
					case "connclose":
						_ = conn.Close()
					case "newchan":
						if c, err := conn.NewChannel(); err == nil {
							_ = c.Close()
						}
					case "size":
						_ = conn.PacketSize() + conn.PacketBodySize()
					}
					cancel()
				}
			}))
		}
		simrt.Join(ts...)
		_ = conn.Close()
		connClosed = true
		simrt.Sleep(time.Second)
	})
	StdOutcome(v, out)
	if v.Machinery != "" {
		return v, out
	}
	if setupErr != "" {
		v.Machinery = "connection setup failed: " + setupErr
		return v, out
	}
	if out.Budget {
		return v, out
	}
	if p.ChaosTwin && (twinErr != "" || twinGot != 18) && len(out.Crashes) == 0 {
		v.Violate("twin", "second connection disturbed", "a second connection exchanging three messages (six packages each) at the same time received %d packages %s", twinGot, twinErr)
	}
	if chLErr != "" {
		v.Violate("newchannel-failed", "NewChannel failed although the server acknowledged the setup", "the first logical channel of the connection: NewChannel: %s", chLErr)
	}
	for _, c := range out.Crashes {
		v.Violate("panic", "panic "+CrashSig(c), "task %s panicked: %s\n%s", c.Task, c.Value, c.Stack)
	}
	if out.Races > 0 {
		v.Violate("race", "race", "the race detector reported %d data race(s) on this schedule (report in the worker's race log)", out.Races)
	}
	if len(out.Parked) > 0 && chLErr == "" {
		if connClosed {
			v.Violate("reader-not-ended", "reader goroutine still running after Conn.Close", "every task has returned and the connection is closed; still parked: %v", out.Parked)
		} else {
			v.Violate("deadlock", "deadlock "+ParkSig(out, Sites), "tasks blocked forever: %v", out.Parked)
		}
	}
	v.Probe("api-chaos")
	if v.Class == "" {
		v.Nontrivial = fmt.Sprintf("chaos|%016x", out.LogHash)
	}
	v.Sample = map[string]interface{}{"chaos_tasks": len(p.Chaos), "steps": out.Steps}
	return v, out
}

func min(a, b int) int {
	if a < b {
		return a
	}
	return b
}
