package worlds

import (
	"bytes"
	"context"
	"encoding/json"
	"errors"
	"fmt"
	"io"
	"strings"
	"time"

	"github.com/SAP/go-dblib/tds"
	"github.com/SAP/go-dblib/zz_verif/peer"
	"github.com/SAP/go-dblib/zz_verif/simrt"
)

// C13 — cancelled or closed channels never block and never deliver.

type c13Plan struct {
	Knobs     Knobs  `json:"knobs"`
	Kind      string `json:"kind"` // cancel | closed-calls | conn-close | close-queue | close-send | close-recv
	Logical   bool   `json:"logical"`
	QueueSize int    `json:"queue_size"`
	NPkgs     int    `json:"npkgs"`
	Final     bool   `json:"final"`
	Async     bool   `json:"async"`
	// cancel
	CancelWhat  string `json:"cancel_what,omitempty"` // own | conn
	CancelAfter int    `json:"cancel_after,omitempty"`
	Consumer    string `json:"consumer,omitempty"` // next | until | until-nil
	SendAfter   bool   `json:"send_after,omitempty"`
	// CauseCtx: after the cancellation scenario the channel is also called with a context that was cancelled with a
	// cause (context.WithCancelCause): its Err() is still context.Canceled, and that is what the errors must wrap.
	CauseCtx bool `json:"cause_ctx,omitempty"`
	// WithEED: the response starts with a server message (consumers that use NextPackageUntil collect it before
	// the call is cancelled or the channel closed: the error must still wrap what ended the call).
	WithEED   bool `json:"with_eed,omitempty"`
	FlushFull bool `json:"flush_full,omitempty"` // the cancelled send is the flush of a message that exactly filled its packets
	// SetLast (close-queue) 1 / 2: before Close another goroutine calls SetLastPkgRx / SetLastPkgTx on the channel
	// (with the reader parked on a full receive queue that call waits); Close returns all the same, and so does the
	// setter afterwards.
	SetLast int `json:"set_last,omitempty"`
	// BrokenPipe (closed-calls, conn-close): before the close the connection breaks in the sending direction: the
	// logout or the teardown cannot be written. Close reports that - and has closed the channel all the same.
	BrokenPipe bool `json:"broken_pipe,omitempty"`
	// FloodEED (flood): what keeps arriving are server messages, which NextPackageUntil collects itself.
	FloodEED bool `json:"flood_eed,omitempty"`
	// Flood (cancel): the response has hundreds of packages and no end, the consumer is one NextPackageUntil call whose
	// callback wants them all: packets keep arriving while the call runs and after its context is cancelled. Once
	// cancelled the call may still hand out what was queued at that moment, but it returns - it does not go on for
	// as long as the server keeps sending.
	Flood bool `json:"flood,omitempty"`
	// close
	Logout string `json:"logout,omitempty"` // answer | late | never | partial
	// ConcurrentClose (closed-calls): two goroutines call Close on the channel at the same time.
	ConcurrentClose bool `json:"concurrent_close,omitempty"`
	// DeadPeer (conn-close): the peer has closed its side long before and nobody received: the reader has queued
	// more errors than the connection's error queue holds when Conn.Close is called.
	DeadPeer bool `json:"dead_peer,omitempty"`
	// PendingSetup (conn-close): another goroutine is inside NewChannel, waiting for an acknowledgement the peer
	// never sends, when Conn.Close is called. Close must return and so must that NewChannel.
	PendingSetup bool `json:"pending_setup,omitempty"`
	// BadPackets (close-errqueue): so many packets that cannot be parsed arrive on the idle channel that the
	// channel's error queue overflows before Close is called.
	BadPackets int `json:"bad_packets,omitempty"`
	// TwoSenders (close-send): two goroutines send on the channel while it is closed.
	TwoSenders bool `json:"two_senders,omitempty"`
	// StallWindow >= 0 (closed-calls, conn-close, close-queue): before the close the peer stops reading; the
	// socket still buffers that many bytes, then writes block. -1: the peer keeps reading.
	StallWindow int `json:"stall_window"`
	// ConnClose (close-errqueue): close the connection instead of the channel.
	ConnClose   bool `json:"conn_close,omitempty"`
	LateMs      int  `json:"late_ms,omitempty"`
	DoubleClose bool `json:"double_close,omitempty"`
	CloseAfter  int  `json:"close_after,omitempty"`
	NLogical    int  `json:"nlogical,omitempty"`
	Sends       int  `json:"sends,omitempty"`
	ConsumeSome int  `json:"consume_some,omitempty"`
	// AckTeardown: the server answers the teardown of a logical channel with a header-only acknowledgement (it
	// arrives while Close runs or after it: behind a response nobody received, or for a channel that is gone).
	AckTeardown bool `json:"ack_teardown,omitempty"`
	// Stray (close-errqueue): before the packets that cannot be parsed, that many packets for a channel that does not
	// exist arrive - about as many connection errors as the connection holds, and nobody receives them - and then, on
	// the channel itself, an environment change announcing a packet size that cannot be used.
	Stray int `json:"stray,omitempty"`
}

type c13 struct{}

func init() { Register(c13{}) }

func (c13) ID() string { return "C13" }
func (c13) NRuns(tier string) int {
	if tier == "thorough" {
		return 1000000
	}
	return 12000
}
func (c13) Rule() string {
	return "scenario kinds: cancel (a consumer in NextPackage/NextPackageUntil while packets arrive asynchronously, a canceller cancels its own or the connection's context at a scheduled step; then a send - or the flush of a message that exactly filled its packets - with the cancelled context), close-recv (Close while a consumer is blocked in a receive on the same channel), closed-calls (every API call after Close, double Close, two goroutines closing the same channel at once), conn-close (Conn.Close with 0..2 logical channels), close-queue (Close with 0..capacity+3 abandoned packages queued, reader possibly blocked on a full queue; logout answered, answered late or never), close-send (Close racing SendPackage on the same channel); every sync point is a seeded scheduling choice; bounded liveness = no client task still blocked at quiescence and Close within 60s of simulated time; non-trivial = the cancel/close landed while another task was inside a call on the channel; distinct = distinct (kind, schedule-trace hash)"
}
func (c13) Components() map[string]string {
	return map[string]string{"tds (Conn, reader goroutine, Channel incl. Close/Logout/NextPackage/SendPackage)": "real (rewritten), RWMutex writer preference modelled", "transport": "stub: simrt.Conn", "server": "stub: scripted peer with logout policies", "clock/contexts": "simulated (1-minute logout timeout costs no wall time)"}
}

func (c13) Gen(r *Rand, idx int, tier string) interface{} {
	p := &c13Plan{Knobs: GenKnobs(r)}
	p.Kind = Pick(r, []string{"cancel", "cancel", "closed-calls", "conn-close", "close-queue", "close-queue", "close-send", "close-recv", "close-errqueue", "cancel-send", "cancel-send2", "cancel-queue"})
	p.FlushFull = r.Pct(40)
	p.Logical = r.Pct(40)
	p.QueueSize = Pick(r, []int{0, 1, 2, 3, 5, 100})
	p.NPkgs = r.Intn(p.QueueSize + 4)
	if p.QueueSize == 100 {
		p.NPkgs = r.Intn(8)
	}
	p.Final = r.Pct(30)
	p.ConsumeSome = r.Intn(3)
	// More unconsumed packages than the queue holds park the reader goroutine on the full queue while it holds
	// the read lock (once a listed finding, repaired since): kept to about half of the close scenarios.
	if p.Kind != "cancel" && p.Kind != "close-send" && !r.Pct(50) {
		for c13Pending(p) > p.QueueSize && p.NPkgs > 0 {
			p.NPkgs--
		}
	}
	p.Async = r.Pct(70)
	p.CancelWhat = Pick(r, []string{"own", "own", "conn"})
	p.CancelAfter = r.Intn(12)
	p.Consumer = Pick(r, []string{"next", "until", "until-nil", "until-err"})
	p.SendAfter = r.Pct(50)
	p.CauseCtx = p.Kind == "cancel" && r.Pct(30)
	if p.Kind == "cancel" && r.Pct(25) {
		p.Flood, p.Consumer, p.Final, p.Async = true, "until-all", false, true
		p.NPkgs = 150 + r.Intn(250)
		p.CancelAfter = 5 + r.Intn(60)
		if p.QueueSize == 100 {
			p.QueueSize = 5
		}
	}
	p.WithEED = (p.Consumer == "until-nil" || p.Consumer == "until-err") && (p.Kind == "cancel" || p.Kind == "close-recv") && r.Pct(50)
	p.Logout = Pick(r, []string{"answer", "answer", "late", "never", "partial", "drip"})
	p.LateMs = Pick(r, []int{10, 1000, 59000, 61000})
	p.DoubleClose = r.Pct(40)
	p.ConcurrentClose = p.Kind == "closed-calls" && r.Pct(40)
	p.TwoSenders = p.Kind == "close-send" && r.Pct(40)
	p.DeadPeer = p.Kind == "conn-close" && r.Pct(30)
	p.PendingSetup = p.Kind == "conn-close" && !p.DeadPeer && r.Pct(25)
	p.StallWindow = -1
	if (p.Kind == "closed-calls" || p.Kind == "conn-close" || p.Kind == "close-queue") && !p.DeadPeer && r.Pct(12) {
		p.StallWindow = Pick(r, []int{0, 4, 16, 100})
	}
	if p.Kind == "close-queue" && p.StallWindow < 0 && r.Pct(30) {
		// (3: the consumer itself calls SetLastPkgRx between two receives)
		p.SetLast = 1 + r.Intn(3)
	}
	if (p.Kind == "closed-calls" || p.Kind == "conn-close") && p.StallWindow < 0 && !p.DeadPeer && !p.PendingSetup && r.Pct(12) {
		p.BrokenPipe = true
	}
	if p.Flood && r.Pct(50) {
		p.FloodEED = true
	}
	if p.Kind == "close-errqueue" {
		p.BadPackets = 1 + r.Intn(14)
		p.ConnClose = r.Pct(40)
	}
	p.CloseAfter = r.Intn(10)
	p.NLogical = r.Intn(3)
	p.Sends = 1 + r.Intn(4)
	if (p.Kind == "close-send" || p.Kind == "close-recv" || p.Kind == "close-queue" || p.Kind == "cancel") && p.StallWindow < 0 && r.Pct(10) {
		// a slow server: it pauses now and then (up to 200 ms) and reads on; senders and Close wait for it
		p.Knobs.GenSlow(r, 1200, 200*time.Millisecond)
	}
	// (drawn last: the rest of the plan is what it was)
	p.AckTeardown = p.Logical && r.Pct(50)
	if p.Kind == "close-errqueue" && r.Pct(50) {
		p.Stray = 8 + r.Intn(5)
	}
	return p
}
func (c13) Decode(raw json.RawMessage) (interface{}, error) {
	p := &c13Plan{}
	err := json.Unmarshal(raw, p)
	return p, err
}
func (c13) Shrink(plan interface{}) []interface{} {
	p := plan.(*c13Plan)
	var out []interface{}
	mod := func(f func(q *c13Plan)) {
		q := *p
		f(&q)
		out = append(out, &q)
	}
	if p.NPkgs > 0 {
		mod(func(q *c13Plan) { q.NPkgs-- })
	}
	if p.Async {
		mod(func(q *c13Plan) { q.Async = false })
	}
	if p.Logical {
		mod(func(q *c13Plan) { q.Logical = false })
	}
	if p.DoubleClose {
		mod(func(q *c13Plan) { q.DoubleClose = false })
	}
	if p.CancelAfter > 0 {
		mod(func(q *c13Plan) { q.CancelAfter-- })
	}
	if p.CloseAfter > 0 {
		mod(func(q *c13Plan) { q.CloseAfter-- })
	}
	if p.NLogical > 0 {
		mod(func(q *c13Plan) { q.NLogical-- })
	}
	if p.Sends > 1 {
		mod(func(q *c13Plan) { q.Sends-- })
	}
	if p.ConsumeSome > 0 {
		mod(func(q *c13Plan) { q.ConsumeSome-- })
	}
	if p.Logout != "answer" {
		mod(func(q *c13Plan) { q.Logout = "answer" })
	}
	if p.SendAfter {
		mod(func(q *c13Plan) { q.SendAfter = false })
	}
	if p.Final {
		mod(func(q *c13Plan) { q.Final = false })
	}
	if p.PendingSetup {
		mod(func(q *c13Plan) { q.PendingSetup = false })
	}
	if p.CauseCtx {
		mod(func(q *c13Plan) { q.CauseCtx = false })
	}
	if p.AckTeardown {
		mod(func(q *c13Plan) { q.AckTeardown = false })
	}
	if p.Stray > 0 {
		mod(func(q *c13Plan) { q.Stray = 0 })
	}
	return out
}

// c13Pending is the number of packages left unconsumed when Close is called.
func c13Pending(p *c13Plan) int {
	n := p.NPkgs
	if p.Final {
		n++
	}
	c := p.ConsumeSome
	if p.Kind == "conn-close" {
		c = 0
	}
	if c > p.NPkgs {
		c = p.NPkgs
	}
	return n - c
}

// c13EndPeer ends the peer's side of the current run's connection (set by Run; runs are sequential per process).
var c13EndPeer, c13StallPeer, c13BreakPipe func()

type c13Res struct {
	setupErr   string
	viol       []string // "class|sig|detail"
	cancelSeq  int
	cancelNow  time.Duration
	closeCall  int
	closeRet   int
	closeStart time.Duration
	closeEnd   time.Duration
	closeDone  bool
	inCall     bool // another task was inside a call when cancel/close happened
	delivered  []int32
	// event sequence numbers around a send issued with a cancelled context: nothing may reach the transport in between
	cancelledSend [2]int
	// cancel-send: a multi-packet send whose context is cancelled while it runs
	sendCall, sendRet, sendPackets int
	sendErr                        error
	sendDone                       bool
	// cancel-send2: event sequence number after which nothing of the cancelled sender's package may reach the wire
	lateFrom int
	// connClosed: Conn.Close was called and returned (at connClosedAt): transport closed, reader ended - promptly
	connClosed   bool
	connClosedAt time.Duration
	// flood: packages handed to the callback after the context was cancelled
	afterCancel int
	// flood: the consumer's own steps between the cancellation taking effect and the call's return
	floodSteps int
}

func (r *c13Res) violate(class, sig, format string, a ...interface{}) {
	r.viol = append(r.viol, class+"|"+sig+"|"+fmt.Sprintf(format, a...))
}

func (c13) Run(plan interface{}, schedSeed uint64, replay []simrt.Choice, lenient, keepLog bool) (*Verdict, *simrt.Outcome) {
	p := plan.(*c13Plan)
	v := &Verdict{}
	cfg := p.Knobs.Config(schedSeed)
	cfg.Replay, cfg.Lenient, cfg.KeepLog = replay, lenient, keepLog
	if cfg.MaxSteps == 0 {
		cfg.MaxSteps = 100000
	}
	s := simrt.New(cfg)
	pr := NewTDSPeer(s)
	pr.Async = p.Async
	logoutSeen := 0
	setups := 0
	setupAcked := map[uint16]bool{} // (a teardown is only acknowledged for a channel whose setup was)
	pr.OnHeaderOnly = func(pk peer.RecvPacket) {
		if pk.H.Type == peer.BufSetup {
			setups++
			if p.PendingSetup && c13SetupsDone {
				s.Fault("setup-never-acknowledged")
				return
			}
			setupAcked[pk.H.Channel] = true
			pr.Conn.Deliver(peer.MakePacket(peer.BufProtack, peer.BufstatEOM, pk.H.Channel, 0, nil))
		}
		if pk.H.Type == peer.BufClose && pk.H.Channel != 0 && p.AckTeardown && setupAcked[pk.H.Channel] {
			s.Fault("teardown-acknowledged")
			pr.Conn.Deliver(peer.MakePacket(peer.BufProtack, peer.BufstatEOM, pk.H.Channel, 0, nil))
		}
	}
	// (the library writes the teardown as a full-size packet with an empty - zero-filled - body: it arrives as a message)
	pr.OnMsg = func(m *ClientMsg) {
		if m.Type == peer.BufClose && m.Channel != 0 && p.AckTeardown && len(m.Body) > 0 && setupAcked[m.Channel] {
			s.Fault("teardown-acknowledged")
			pr.Conn.Deliver(peer.MakePacket(peer.BufProtack, peer.BufstatEOM, m.Channel, 0, nil))
		}
		if m.Type == peer.BufClose || m.Type == peer.BufSetup {
			return
		}
		if len(m.Body) > 0 && m.Body[0] == 0x71 { // LOGOUT
			logoutSeen++
			done := peer.Packetise(peer.Done(0, 0, 0), nil, peer.BufResponse, m.Channel, true)
			switch p.Logout {
			case "answer":
				pr.SendPackets(done)
			case "late":
				s.Fault("logout-answered-late")
				pr.Conn.DeliverAfter(time.Duration(p.LateMs)*time.Millisecond, done[0])
			case "drip":
				// a slow server, not a dead one: the logout is answered with one counted DONE (more to come) every
				// thirty seconds, eight of them, never a final one. Close may not wait for each of them afresh.
				s.Fault("logout-answered-drop-by-drop")
				for k := 1; k <= 8; k++ {
					pr.Conn.DeliverAfter(time.Duration(k)*30*time.Second, peer.Packetise(peer.Done(0x11, 0, int32(k)), nil, peer.BufResponse, m.Channel, false)[0])
				}
			case "partial":
				// the header and half of the body, then nothing: the reader sits inside the packet
				s.Fault("logout-answered-in-part")
				pr.SendPartial(done[0][:12])
			default:
				s.Fault("logout-never-answered")
			}
			return
		}
		if strings.Contains(string(m.Body), "bad") {
			if p.Stray > 0 {
				for k := 0; k < p.Stray; k++ {
					pr.SendPackets([][]byte{peer.MakePacket(peer.BufResponse, peer.BufstatEOM, 99, uint8(k), peer.Done(0, 0, 0))})
				}
				pr.SendPackets([][]byte{peer.MakePacket(peer.BufResponse, 0, m.Channel, 0, peer.EnvChange(peer.EnvMember{Type: 4, New: "0", Old: "512"}))})
				s.Fault("stray-packets-then-unusable-packet-size")
			}
			// packets that cannot be parsed: a ROW without any format before it, one per packet
			for k := 0; k < p.BadPackets; k++ {
				pr.SendPackets([][]byte{peer.MakePacket(peer.BufResponse, 0, m.Channel, 0, []byte{0xD1, byte(k), 0, 0, 0})})
			}
			s.Fault("unparsable-packets")
			return
		}
		if !strings.Contains(string(m.Body), "req") {
			return
		}
		var body []byte
		if p.WithEED {
			body = append(body, peer.EED(20001, 1, 16, "ZZZZZ", 0, 0, "a message of the server", "srv", "", 1)...)
		}
		for k := 0; k < p.NPkgs; k++ {
			if p.FloodEED {
				body = append(body, peer.EED(int32(30000+k), 1, 16, "ZZZZZ", 0, 0, "m", "srv", "", 1)...)
				continue
			}
			body = append(body, peer.Done(0x11, 0, int32(1000+k))...)
		}
		eom := p.Final
		if p.Final {
			body = append(body, peer.Done(0, 0, 0)...)
		}
		if len(body) == 0 {
			return
		}
		// one package per packet so that arrival interleaves with the clients
		per := 9
		if p.FloodEED {
			per = len(peer.EED(30000, 1, 16, "ZZZZZ", 0, 0, "m", "srv", "", 1))
		}
		pr.SendPackets(peer.Packetise(body, peer.CutsBySize(len(body), per), peer.BufResponse, m.Channel, eom))
	}

	c13SetupsDone = false
	// (what belongs to the scheduler - the peer, the transport - is changed in the scheduler's goroutine)
	c13StallPeer = func() {
		if p.StallWindow >= 0 {
			simrt.Sched(func() {
				pr.Conn.PeerStalled, pr.Conn.SendWindow = true, p.StallWindow
				s.Fault("peer-stops-reading")
			})
		}
	}
	c13BreakPipe = func() {
		if p.BrokenPipe {
			simrt.Sched(func() {
				pr.Conn.BreakPipe()
				s.Fault("connection-broken-for-writes")
			})
		}
	}
	c13EndPeer = func() {
		simrt.Sched(func() {
			pr.Conn.End(simrt.TermEOF, false)
			s.Fault("close-eof")
		})
	}
	res := &c13Res{cancelSeq: -1}
	var readerParked bool
	out := s.Run(func() {
		parent, cancelParent := simrt.WithCancel(context.Background())
		defer cancelParent()
		conn, err := tds.NewConn(parent, MkInfo(p.QueueSize, 5, false))
		if err != nil {
			res.setupErr = err.Error()
			return
		}
		ch0, err := conn.NewChannel()
		if err != nil {
			res.setupErr = err.Error()
			return
		}
		ch := ch0
		if p.Logical {
			ch, err = conn.NewChannel()
			if err != nil {
				res.setupErr = "logical channel: " + err.Error()
				return
			}
		}
		bg := context.Background()
		switch p.Kind {
		case "cancel":
			c13Cancel(p, res, conn, ch, cancelParent)
		case "closed-calls":
			c13ClosedCalls(p, res, conn, ch)
		case "conn-close":
			c13ConnClose(p, res, conn, ch0, ch)
		case "close-queue":
			c13CloseQueue(p, res, conn, ch)
		case "close-send":
			c13CloseSend(p, res, conn, ch)
		case "close-recv":
			c13CloseRecv(p, res, conn, ch)
		case "close-errqueue":
			c13CloseErrQueue(p, res, conn, ch)
		case "cancel-send":
			c13CancelSend(p, res, conn, ch)
		case "cancel-send2":
			c13CancelSend2(p, res, conn, ch, pr)
		case "cancel-queue":
			c13CancelQueue(p, res, conn, ch)
		}
		_ = bg
	})
	StdOutcome(v, out)
	if v.Machinery != "" {
		return v, out
	}
	if res.setupErr != "" {
		v.Machinery = "setup failed: " + res.setupErr
		return v, out
	}
	if out.Budget {
		return v, out
	}
	for _, c := range out.Crashes {
		v.Violate("panic", "panic "+CrashSig(c), "%s: task %s panicked: %s\n%s", p.Kind, c.Task, c.Value, c.Stack)
	}
	var blocked []simrt.Park
	for _, pk := range out.Parked {
		if strings.HasPrefix(pk.Task, "go@") {
			readerParked = true
			continue
		}
		blocked = append(blocked, pk)
	}
	inWrite := false
	for _, pk := range blocked {
		if pk.Op == "write" {
			inWrite = true
		}
	}
	if inWrite && p.StallWindow >= 0 {
		// the one way a transport write can block in this world: the peer stopped reading
		v.Violate("blocked-write", "close blocks in a transport write to a peer that stopped reading", "%s (peer stopped reading, %d bytes of socket buffer): tasks still blocked when nothing more can happen: %v", p.Kind, p.StallWindow, out.Parked)
	} else if len(blocked) > 0 {
		v.Violate("blocked", "blocked "+p.Kind+" "+ParkSig(out, Sites), "%s: tasks still blocked when nothing more can happen: %v", p.Kind, out.Parked)
	}
	for _, w := range res.viol {
		parts := strings.SplitN(w, "|", 3)
		v.Violate(parts[0], parts[1], "%s", parts[2])
	}
	if res.cancelledSend[1] > 0 {
		for i, sq := range pr.PacketSeq {
			if sq > res.cancelledSend[0] && sq < res.cancelledSend[1] {
				v.Violate("write-after-cancel", "cancel: a send with a cancelled context wrote to the transport", "%s: packet %s reached the transport although the call's context was already cancelled", p.Kind, pr.Asm.Packets[i].H)
			}
		}
		v.Probe("send-with-cancelled-context")
	}
	if p.Flood && v.Class == "" && res.floodSteps > 12*(p.QueueSize+4) {
		// (the consumer's OWN steps after the cancellation had taken effect - a receive costs it four to six: what
		// was queued at that moment may still be handed out, a call that goes on taking what arrives keeps stepping;
		// counts server messages as well, which the callback never sees)
		v.Violate("late-return", "cancel: a receive goes on consuming packages after its context was cancelled", "NextPackageUntil (%d packages arriving, server messages: %v, queue size %d, %s context cancelled): the call made %d more steps after the cancellation before it returned", p.NPkgs, p.FloodEED, p.QueueSize, p.CancelWhat, res.floodSteps)
	}
	if p.Flood && v.Class == "" {
		v.Probe("cancel-while-packets-keep-arriving")
		if res.afterCancel > p.QueueSize+2 {
			v.Violate("late-return", "cancel: a receive goes on consuming packages after its context was cancelled", "NextPackageUntil (callback wants every package, %d packages arriving, queue size %d, %s context cancelled): the callback was handed %d more packages after the cancellation before the call returned", p.NPkgs, p.QueueSize, p.CancelWhat, res.afterCancel)
		}
	}
	if p.Kind == "close-send" && p.Logical && v.Class == "" {
		// the wire of the logical channel: once its teardown has been written nothing follows for that channel - a send
		// that overlaps the Close either goes out in front of the teardown or is refused
		tornAt := -1
		var chanID uint16
		for i, w := range pr.Conn.Wrote {
			if len(w) < 8 {
				continue
			}
			typ, id := w[0], uint16(w[4])<<8|uint16(w[5])
			if tornAt < 0 && typ == peer.BufClose && id != 0 {
				tornAt, chanID = i, id
				continue
			}
			if tornAt >= 0 && id == chanID && typ != peer.BufSetup {
				v.Violate("packet-after-close", "close-send: a packet of the channel was written after its teardown", "channel %d: its teardown was write #%d of the connection; write #%d is another packet of that channel (type %d, %d bytes) - a send that overlapped the Close went out behind the teardown", chanID, tornAt, i, typ, len(w))
				break
			}
		}
		if tornAt >= 0 {
			v.Probe("close-send:teardown-on-the-wire")
		}
	}
	if p.Kind == "cancel-queue" && res.sendDone {
		switch {
		case res.sendErr == nil:
			v.Probe("cancel-queue:queued-before-the-cancellation")
		case res.cancelSeq > res.sendCall && res.cancelSeq < res.sendRet:
			v.Probe("cancel-queue:cancelled-during-the-call")
		default:
			v.Probe("cancel-queue:failed")
		}
	}
	if (p.Kind == "cancel-send2" || p.Kind == "cancel-queue") && res.lateFrom > 0 && v.Class == "" {
		// the package of the sender whose call failed with its context's error: whatever reaches the transport after
		// that call has returned must not contain it (a send with a cancelled context writes nothing - and leaves
		// nothing behind for the next message either)
		// (judged by when the client WROTE the bytes - a slow server reads them later)
		for i, sq := range pr.Conn.WroteAt {
			// (a piece of the marker is enough: what is left behind may be a fragment of the package)
			if sq > res.lateFrom && bytes.Contains(pr.Conn.Wrote[i], []byte(c13MarkB[:8])) {
				v.Violate("write-after-cancel", "cancel-send2: the package of a send that failed with its context's error went out later", "%s: the call returned %q at event %d; bytes of its package were written to the transport at event %d (with the next message)", p.Kind, res.sendErr, res.lateFrom, sq)
				break
			}
		}
		v.Probe("send-cancelled-while-waiting-for-another-sender")
	}
	if p.Kind == "cancel-send" && res.sendDone && v.Class == "" {
		after, during := 0, 0
		for i, sq := range pr.PacketSeq {
			if pr.Asm.Packets[i].H.Type == peer.BufSetup || pr.Asm.Packets[i].H.Type == peer.BufProtack {
				continue
			}
			if sq > res.sendCall && sq < res.sendRet {
				during++
				if res.cancelSeq >= 0 && sq > res.cancelSeq {
					after++
				}
			}
		}
		switch {
		case after > 1:
			v.Violate("write-after-cancel", "cancel-send: packets written after the context was cancelled", "a %d-packet send went on writing %d packets after its context had been cancelled (one may be in flight)", res.sendPackets, after)
		case res.cancelSeq >= 0 && res.cancelSeq < res.sendCall && during > 0:
			v.Violate("write-after-cancel", "cancel: a send with a cancelled context wrote to the transport", "the context was cancelled before SendPackage was called, %d packets were written", during)
		case res.sendErr == nil && during != res.sendPackets:
			v.Violate("wrong-result", "cancel-send: success with a different number of packets", "SendPackage returned nil after %d of %d packets", during, res.sendPackets)
		case res.sendErr != nil && !errors.Is(res.sendErr, context.Canceled):
			v.Violate("wrong-error", "cancel: send error does not wrap the context error", "SendPackage returned %q", res.sendErr)
		}
		if during > 0 && during < res.sendPackets {
			v.Probe("send-cancelled-between-packets")
		}
	}
	// how long Close may take: a logout that is answered (or no logout at all: logical channels) needs no waiting,
	// a late answer is waited for, and only a missing or incomplete one takes the logout timeout of one minute
	closeBound := 61 * time.Second
	usesLogout := !p.Logical || p.Kind == "conn-close" || (p.Kind == "close-errqueue" && p.ConnClose)
	switch {
	case !usesLogout, p.Logout == "answer":
		closeBound = time.Second
	case p.Logout == "late" && p.LateMs < 60000:
		closeBound = time.Duration(p.LateMs)*time.Millisecond + time.Second
	}
	// (only where nobody else receives on the channel: a consumer blocked on it may take the logout's answer)
	// and the reader is free to read the answer: peer alive, no package queue overflowing
	quiet := ((p.Kind == "closed-calls" && !p.ConcurrentClose) || p.Kind == "conn-close") && !p.DeadPeer && c13Pending(p) <= p.QueueSize
	if quiet && res.closeDone && res.closeEnd-res.closeStart > closeBound && res.closeEnd-res.closeStart <= 61*time.Second && p.StallWindow < 0 {
		v.Violate("slow-close", "close took longer than its logout needs", "%s (logout %s, late by %d ms, logical=%v): Close took %v of simulated time, %v would do", p.Kind, p.Logout, p.LateMs, p.Logical, res.closeEnd-res.closeStart, closeBound)
	}
	if res.closeDone && res.closeEnd-res.closeStart > 61*time.Second {
		v.Violate("slow-close", "close took longer than the logout timeout", "%s: Close took %v of simulated time", p.Kind, res.closeEnd-res.closeStart)
	}
	if res.connClosed && v.Class == "" {
		// the reader ends when the connection is closed - not some seconds later (a read on the closed transport
		// returns at once; one EOF poll may be under way)
		for _, e := range out.Ended {
			if strings.HasPrefix(e.Task, "go@") && e.At > res.connClosedAt+2*time.Second {
				v.Violate("reader-not-ended", "reader goroutine outlives Conn.Close", "%s: Conn.Close returned at t=%v, the reader goroutine ended at t=%v", p.Kind, res.connClosedAt, e.At)
			}
		}
		v.Probe("conn-closed-and-judged")
	}
	if (p.Kind == "conn-close" || p.Kind == "close-errqueue" || (p.Kind == "cancel" && res.connClosed)) && v.Class == "" {
		if pr.Conn.CloseCalls == 0 {
			v.Violate("transport-not-closed", "transport not closed by Conn.Close", "Conn.Close returned but the transport's Close was never called")
		}
		if readerParked {
			v.Violate("reader-not-ended", "reader goroutine still running after Conn.Close", "the reader task is still parked after Conn.Close: %v", out.Parked)
		}
	}
	if out.Races > 0 {
		v.Violate("race", "race", "%s: the race detector reported %d data race(s) on this schedule", p.Kind, out.Races)
	}
	v.Probe("kind:" + p.Kind)
	if p.SetLast > 0 {
		v.Probe("close-with-a-setter-of-the-last-package-waiting")
	}
	if p.Kind != "cancel" && p.Kind != "close-send" && c13Pending(p) > p.QueueSize {
		v.Probe("trigger:queue-overflow-at-close")
	}
	if res.inCall {
		v.Probe("landed-inside-call")
		v.Nontrivial = fmt.Sprintf("%s|%016x", p.Kind, out.LogHash)
	}
	v.Sample = map[string]interface{}{"kind": p.Kind, "logical": p.Logical, "queue": p.QueueSize, "npkgs": p.NPkgs, "logout": p.Logout, "strategy": p.Knobs.Strategy, "steps": out.Steps, "sim_time": fmt.Sprint(out.SimTime)}
	return v, out
}

// c13SetupsDone: the setups from here on are not acknowledged (PendingSetup).
var c13SetupsDone bool

var errC13Callback = errors.New("callback rejects the package (harness marker)")

func c13Count(pkg tds.Package) int32 {
	if d, ok := pkg.(*tds.DonePackage); ok {
		return d.Count
	}
	return -1
}

// c13Cancel: a consumer receives while a canceller cancels.
func c13Cancel(p *c13Plan, res *c13Res, conn *tds.Conn, ch *tds.Channel, cancelParent context.CancelFunc) {
	own, cancelOwn := simrt.WithCancel(context.Background())
	defer cancelOwn()
	if err := ch.SendPackage(context.Background(), &tds.LanguagePackage{Cmd: "req"}); err != nil {
		res.setupErr = "send: " + err.Error()
		return
	}
	// (plain on purpose: an atomic would be a happens-before edge between the two tasks and could hide a race of
	// the library; the detector's reports about harness variables are ignored by the worker)
	var consumerIn bool
	var floodSeqs []int
	cancelledSeq, consumerRet := -1, -1
	// the consumer's step counter, sampled by the consumer itself at every package (kept in its own variables: read
	// by the root after the join) - stepsAtCancel is the last sample taken before the cancellation took effect
	stepsAtCancel, consumerRetSteps, cancelSteps := -1, 0, -1
	var stepSamples [][2]int // (event number, own steps)
	consumer := simrt.Spawn("consumer", func() {
		next := int32(1000)
		for i := 0; i < p.NPkgs+6; i++ {
			var pkg tds.Package
			var err error
			consumerIn = true
			switch p.Consumer {
			case "until":
				pkg, err = ch.NextPackageUntil(own, true, func(pk tds.Package) (bool, error) { return true, nil })
			case "until-all":
				pkg, err = ch.NextPackageUntil(own, true, func(pk tds.Package) (bool, error) {
					// (kept in the consumer's own slice and counted after the tasks have been joined: a variable shared with
					// the canceller would be a race of the harness inside the library's call)
					floodSeqs = append(floodSeqs, simrt.Record("flood-package", "", "", 0))
					stepSamples = append(stepSamples, [2]int{floodSeqs[len(floodSeqs)-1], simrt.MySteps()})
					simrt.Yield(0) // the consumer does something with the package
					return false, nil
				})
			case "until-nil":
				_, err = ch.NextPackageUntil(own, true, nil)
			case "until-err":
				// the callback rejects the first package; the library then drains the rest of the response, which
				// never completes here - only the cancellation can end the call
				_, err = ch.NextPackageUntil(own, true, func(pk tds.Package) (bool, error) { return false, errC13Callback })
			default:
				pkg, err = ch.NextPackage(own, true)
			}
			consumerIn = false
			seq := simrt.Record("consumer-ret", "", "", 0)
			if consumerRet < 0 && err != nil {
				consumerRet = seq
				consumerRetSteps = simrt.MySteps()
			}
			if err != nil {
				if p.Consumer == "until-nil" && errors.Is(err, io.EOF) && p.Final {
					// the whole response (with its final DONE) was consumed: the regular end of this call
					return
				}
				wantErr := context.Canceled
				if p.Consumer == "until-err" && errors.Is(err, errC13Callback) {
					// the call reports its callback's error; what matters here is that it returned promptly
					if res.cancelSeq >= 0 && simrt.SimNow() != res.cancelNow {
						res.violate("late-return", "cancel: return not prompt", "cancel at t=%v, receive returned at t=%v", res.cancelNow, simrt.SimNow())
					}
					return
				}
				if !errors.Is(err, wantErr) {
					res.violate("wrong-error", "cancel: error does not wrap the context error", "receive returned %q, which does not wrap %v", err, wantErr)
				} else if res.cancelSeq < 0 || seq < res.cancelSeq {
					res.violate("early-error", "cancel: context error before cancel", "receive returned %q before the context was cancelled", err)
				}
				if simrt.SimNow() != res.cancelNow && res.cancelSeq >= 0 {
					res.violate("late-return", "cancel: return not prompt", "cancel at t=%v, receive returned at t=%v", res.cancelNow, simrt.SimNow())
				}
				return
			}
			if p.Consumer != "until-nil" {
				c := c13Count(pkg)
				if c == 0 && p.Final {
					continue
				}
				if c != next {
					res.violate("wrong-package", "cancel: unexpected package", "consumer received package with marker %d, expected %d", c, next)
				}
				next++
			}
		}
	})
	canceller := simrt.Spawn("canceller", func() {
		for i := 0; i < p.CancelAfter; i++ {
			simrt.Yield(0)
		}
		res.inCall = consumerIn
		res.cancelNow = simrt.SimNow()
		res.cancelSeq = simrt.Record("cancel", p.CancelWhat, "", 0)
		if p.CancelWhat == "conn" {
			cancelParent()
		} else {
			cancelOwn()
		}
		// (cancelling is a scheduling point of its own: the context is cancelled when the call returns, not before)
		cancelledSeq = simrt.Record("cancelled", p.CancelWhat, "", 0)
		cancelSteps = consumer.Steps()
	})
	simrt.Join(consumer, canceller)
	_ = stepSamples
	stepsAtCancel = cancelSteps
	if consumerRetSteps > 0 && stepsAtCancel >= 0 && consumerRetSteps > stepsAtCancel {
		res.floodSteps = consumerRetSteps - stepsAtCancel
	}
	for _, sq := range floodSeqs {
		if cancelledSeq >= 0 && sq > cancelledSeq {
			res.afterCancel++
		}
	}
	if p.SendAfter && p.CancelWhat == "own" && p.FlushFull {
		// queue exactly one packet body with a live context (it is sent at once), then flush with the cancelled one
		raw := tds.NewTokenlessPackage()
		raw.Data.Write(bytes.Repeat([]byte{0x55}, conn.PacketBodySize()))
		if err := ch.QueuePackage(context.Background(), raw); err != nil {
			res.setupErr = "queue: " + err.Error()
			return
		}
		before := simrt.Record("flush-cancelled-call", "", "", 0)
		err := ch.SendRemainingPackets(own)
		after := simrt.Record("flush-cancelled-ret", "", "", 0)
		res.cancelledSend = [2]int{before, after}
		if err == nil {
			res.violate("send-after-cancel", "cancel: flush with cancelled context succeeded", "SendRemainingPackets with a cancelled context returned nil")
		} else if !errors.Is(err, context.Canceled) {
			res.violate("wrong-error", "cancel: send error does not wrap the context error", "SendRemainingPackets with a cancelled context returned %q", err)
		}
	} else if p.SendAfter && p.CancelWhat == "own" {
		before := simrt.Record("send-cancelled-call", "", "", 0)
		err := ch.SendPackage(own, &tds.LanguagePackage{Cmd: "late"})
		after := simrt.Record("send-cancelled-ret", "", "", 0)
		res.cancelledSend = [2]int{before, after}
		if err == nil {
			res.violate("send-after-cancel", "cancel: send with cancelled context succeeded", "SendPackage with a cancelled context returned nil")
		} else if !errors.Is(err, context.Canceled) {
			res.violate("wrong-error", "cancel: send error does not wrap the context error", "SendPackage with a cancelled context returned %q", err)
		}
	}
	// polls after the cancellation: whatever they find (a package, the context's error, nothing), they return - also
	// the second and third one
	for i := 0; i < 3; i++ {
		_, err := ch.NextPackage(own, false)
		if err != nil && !errors.Is(err, tds.ErrNoPackageReady) && !errors.Is(err, context.Canceled) && !errors.Is(err, tds.ErrChannelClosed) && !strings.Contains(err.Error(), "error in TDS") {
			res.violate("wrong-error", "cancel: poll after the cancellation", "poll #%d after the cancellation returned %q", i+1, err)
		}
	}
	if p.CauseCtx && p.CancelWhat == "own" {
		c13CauseCtx(p, res, ch)
	}
	if p.CancelWhat == "conn" {
		// the context given to NewConn was cancelled from outside; the connection is closed afterwards all the same:
		// Conn.Close still closes the channels and the transport and ends the reader
		_ = conn.Close()
		res.connClosed, res.connClosedAt = true, simrt.SimNow()
		pk, err := ch.NextPackage(context.Background(), false)
		if pk != nil || !errors.Is(err, tds.ErrChannelClosed) {
			res.violate("channel-open-after-conn-close", "conn-close: channel not closed", "after the connection's context was cancelled from outside and Conn.Close was called: NextPackage returned (%v, %v)", pk, err)
		}
		simrt.Sleep(time.Second)
	}
}

// c13CauseCtx: a receive and a send with a context that was cancelled with a cause.
func c13CauseCtx(p *c13Plan, res *c13Res, ch *tds.Channel) {
	cctx, ccancel := context.WithCancelCause(context.Background())
	ccancel(errC13Cause)
	simrt.AdoptClosed(cctx.Done())
	for i := 0; i < p.NPkgs+4; i++ {
		// packages that were queued already may still be handed out
		_, err := ch.NextPackage(cctx, true)
		if err == nil {
			continue
		}
		if !errors.Is(err, context.Canceled) {
			res.violate("wrong-error", "cancel: error does not wrap the context error", "a receive with a context cancelled with a cause returned %q, which does not wrap %v", err, context.Canceled)
		}
		break
	}
	before := simrt.Record("send-cancelled-call", "", "", 0)
	err := ch.SendPackage(cctx, &tds.LanguagePackage{Cmd: "late"})
	after := simrt.Record("send-cancelled-ret", "", "", 0)
	if res.cancelledSend[1] == 0 {
		res.cancelledSend = [2]int{before, after}
	}
	if err == nil {
		res.violate("send-after-cancel", "cancel: send with cancelled context succeeded", "SendPackage with a context cancelled with a cause returned nil")
	} else if !errors.Is(err, context.Canceled) {
		res.violate("wrong-error", "cancel: send error does not wrap the context error", "SendPackage with a context cancelled with a cause returned %q", err)
	}
}

var errC13Cause = errors.New("the caller's own reason for giving up (harness marker)")

// c13CancelSend: the context of a send that needs several packets is cancelled while the send runs.
const c13MarkB = "BbBbBbBbBbBbBbBb-marker-of-sender-B"

// c13CancelQueue: one goroutine queues a small package and then one that is longer than a packet, under a context that
// another goroutine cancels at some step; then the channel sends a message. If the second QueuePackage failed with
// its context's error, nothing of its package may be written from then on (whether the first package goes out with
// the next message is the caller's business).
func c13CancelQueue(p *c13Plan, res *c13Res, conn *tds.Conn, ch *tds.Channel) {
	own, cancelOwn := simrt.WithCancel(context.Background())
	defer cancelOwn()
	big := strings.Repeat(c13MarkB, 1+(500+p.Sends*97)/len(c13MarkB))
	sender := simrt.Spawn("sender", func() {
		if err := ch.QueuePackage(context.Background(), &tds.LanguagePackage{Cmd: "first package of the message"}); err != nil {
			res.setupErr = "queue: " + err.Error()
			return
		}
		res.sendCall = simrt.Record("send-call", "queue", "", 0)
		res.sendErr = ch.QueuePackage(own, &tds.LanguagePackage{Cmd: big})
		res.sendRet = simrt.Record("send-ret", "queue", "", 0)
		res.sendDone = true
	})
	canceller := simrt.Spawn("canceller", func() {
		for i := 0; i < p.CancelAfter; i++ {
			simrt.Yield(0)
		}
		simrt.Record("cancel", "own", "", 0)
		cancelOwn()
		res.cancelSeq = simrt.Record("cancelled", "own", "", 0)
	})
	simrt.Join(sender, canceller)
	if res.sendErr != nil {
		if !errors.Is(res.sendErr, context.Canceled) {
			res.violate("wrong-error", "cancel: send error does not wrap the context error", "QueuePackage returned %q", res.sendErr)
		}
		res.lateFrom = res.sendRet
	}
	if err := ch.SendPackage(context.Background(), &tds.LanguagePackage{Cmd: "the next message"}); err != nil {
		res.violate("wrong-result", "cancel-queue: the next send failed", "a send after the cancelled one failed: %v", err)
	}
	simrt.Sleep(10 * time.Millisecond)
}

// c13CancelSend2: two goroutines send on one channel while the server is slow (it has stopped reading for a second, so
// one sender sits in the transport while the other waits for its turn); the waiting sender's context is cancelled
// meanwhile. Then the channel sends one more message. What the two concurrent sends put on the wire is not judged
// (two goroutines that queue and flush on one channel share its message), only: a call that failed with its
// context's error has written nothing from then on.
func c13CancelSend2(p *c13Plan, res *c13Res, conn *tds.Conn, ch *tds.Channel, pr *TDSPeer) {
	own, cancelOwn := simrt.WithCancel(context.Background())
	defer cancelOwn()
	window := []int{0, 8, 100, 511, 600}[p.Sends%5]
	simrt.Sched(func() { pr.Conn.StallFor(window, time.Second) })
	a := simrt.Spawn("senderA", func() {
		_ = ch.SendPackage(context.Background(), &tds.LanguagePackage{Cmd: strings.Repeat("a", 700)})
	})
	b := simrt.Spawn("senderB", func() {
		for i := 0; i < p.CloseAfter%4; i++ {
			simrt.Yield(0)
		}
		res.sendCall = simrt.Record("send-call", "B", "", 0)
		res.sendErr = ch.SendPackage(own, &tds.LanguagePackage{Cmd: c13MarkB})
		res.sendRet = simrt.Record("send-ret", "B", "", 0)
		res.sendDone = true
	})
	canceller := simrt.Spawn("canceller", func() {
		for i := 0; i < p.CancelAfter; i++ {
			simrt.Yield(0)
		}
		simrt.Record("cancel", "own", "", 0)
		cancelOwn()
		res.cancelSeq = simrt.Record("cancelled", "own", "", 0)
	})
	simrt.Join(a, b, canceller)
	if res.sendErr != nil {
		if !errors.Is(res.sendErr, context.Canceled) {
			res.violate("wrong-error", "cancel: send error does not wrap the context error", "sender B's SendPackage returned %q", res.sendErr)
		}
		res.lateFrom = res.sendRet
	}
	simrt.Sleep(2 * time.Second) // the server reads again
	if err := ch.SendPackage(context.Background(), &tds.LanguagePackage{Cmd: "the next message"}); err != nil {
		res.violate("wrong-result", "cancel-send2: the next send failed", "a send after the two concurrent ones failed: %v", err)
	}
	simrt.Sleep(10 * time.Millisecond)
}

func c13CancelSend(p *c13Plan, res *c13Res, conn *tds.Conn, ch *tds.Channel) {
	own, cancelOwn := simrt.WithCancel(context.Background())
	defer cancelOwn()
	res.sendPackets = 2 + p.Sends%3
	cmd := strings.Repeat("y", res.sendPackets*conn.PacketBodySize()-6-100)
	sender := simrt.Spawn("sender", func() {
		res.sendCall = simrt.Record("send-call", "", "", 0)
		res.sendErr = ch.SendPackage(own, &tds.LanguagePackage{Cmd: cmd})
		res.sendRet = simrt.Record("send-ret", "", "", 0)
		res.sendDone = true
	})
	canceller := simrt.Spawn("canceller", func() {
		for i := 0; i < p.CancelAfter*3; i++ {
			simrt.Yield(0)
		}
		res.cancelNow = simrt.SimNow()
		simrt.Record("cancel", "own", "", 0)
		cancelOwn() // a scheduling point of its own: the context is cancelled when this returns, not before
		res.cancelSeq = simrt.Record("cancelled", "own", "", 0)
	})
	simrt.Join(sender, canceller)
}

// c13ClosedCalls: every call after Close reports the closed condition.
func c13ClosedCalls(p *c13Plan, res *c13Res, conn *tds.Conn, ch *tds.Channel) {
	bg, cancel := simrt.WithTimeout(context.Background(), 5*time.Minute)
	defer cancel()
	if p.NPkgs > 0 {
		if err := ch.SendPackage(bg, &tds.LanguagePackage{Cmd: "req"}); err != nil {
			res.setupErr = "send: " + err.Error()
			return
		}
		for i := 0; i < p.ConsumeSome && i < p.NPkgs; i++ {
			ch.NextPackage(bg, true)
		}
		simrt.Sleep(time.Millisecond)
	}
	c13StallPeer()
	c13BreakPipe()
	var closer2 *simrt.Task
	if p.ConcurrentClose {
		// a second goroutine closes the same channel at the same time: whichever Close call returns first, the
		// channel is closed from then on
		closer2 = simrt.Spawn("closer2", func() { _ = ch.Close() })
		defer simrt.Join(closer2)
	}
	res.closeStart = simrt.SimNow()
	_ = ch.Close()
	res.closeEnd = simrt.SimNow()
	res.closeDone = true
	check := func(name string, pkg tds.Package, err error) {
		if pkg != nil {
			res.violate("delivery-after-close", "closed: "+name+" delivered a package", "%s returned a package after Close: %s", name, short(Dump(pkg), 200))
		}
		if err == nil {
			res.violate("no-closed-error", "closed: "+name+" returned nil", "%s returned no error after Close", name)
		} else if !errors.Is(err, tds.ErrChannelClosed) {
			res.violate("wrong-error", "closed: "+name+" error is not ErrChannelClosed", "%s after Close returned %q", name, err)
		}
	}
	pk, err := ch.NextPackage(bg, true)
	check("NextPackage", pk, err)
	pk, err = ch.NextPackage(bg, false)
	check("NextPackage(nowait)", pk, err)
	pk, err = ch.NextPackageUntil(bg, true, func(tds.Package) (bool, error) { return true, nil })
	check("NextPackageUntil", pk, err)
	check("QueuePackage", nil, ch.QueuePackage(bg, &tds.LanguagePackage{Cmd: "x"}))
	check("SendRemainingPackets", nil, ch.SendRemainingPackets(bg))
	check("SendPackage", nil, ch.SendPackage(bg, &tds.LanguagePackage{Cmd: "x"}))
	check("Logout", nil, ch.Logout())
	if cfgL, err := tds.NewLoginConfig(MkInfo(1, 1, false)); err == nil {
		check("Login", nil, ch.Login(bg, cfgL))
	}
	if p.DoubleClose {
		simrt.Record("second-close", "", "", 0)
		_ = ch.Close()
		pk, err = ch.NextPackage(bg, false)
		check("NextPackage after second Close", pk, err)
	}
}

// c13ConnClose: closing the connection closes all channels, the transport and the reader.
func c13ConnClose(p *c13Plan, res *c13Res, conn *tds.Conn, ch0, ch *tds.Channel) {
	bg, cancel := simrt.WithTimeout(context.Background(), 5*time.Minute)
	defer cancel()
	chans := []*tds.Channel{ch0}
	if ch != ch0 {
		chans = append(chans, ch)
	}
	for i := 0; i < p.NLogical; i++ {
		c, err := conn.NewChannel()
		if err != nil {
			res.setupErr = "logical channel: " + err.Error()
			return
		}
		chans = append(chans, c)
	}
	if p.NPkgs > 0 {
		if err := ch.SendPackage(bg, &tds.LanguagePackage{Cmd: "req"}); err != nil {
			res.setupErr = "send: " + err.Error()
			return
		}
		simrt.Sleep(time.Millisecond)
	}
	c13StallPeer()
	c13BreakPipe()
	if p.DeadPeer {
		// the peer goes away and nobody receives: the reader queues one error per read timeout
		c13EndPeer()
		simrt.Sleep(80 * time.Second)
	}
	var pending *simrt.Task
	if p.PendingSetup {
		c13SetupsDone = true
		pending = simrt.Spawn("setup", func() {
			c, err := conn.NewChannel()
			if err == nil {
				res.violate("setup-unacknowledged", "conn-close: NewChannel succeeded without an acknowledgement", "NewChannel returned channel %v although the server never acknowledged the setup", c != nil)
			}
		})
		for i := 0; i < p.CloseAfter; i++ {
			simrt.Yield(0)
		}
	}
	res.closeStart = simrt.SimNow()
	_ = conn.Close()
	res.closeEnd = simrt.SimNow()
	res.closeDone = true
	res.connClosed, res.connClosedAt = true, res.closeEnd
	if pending != nil {
		// it must come back now that the connection is closed (a task that never does shows up as blocked)
		simrt.Join(pending)
	}
	for i, c := range chans {
		pk, err := c.NextPackage(bg, false)
		if pk != nil || !errors.Is(err, tds.ErrChannelClosed) {
			res.violate("channel-open-after-conn-close", "conn-close: channel not closed", "channel #%d after Conn.Close: NextPackage returned (%v, %v)", i, pk, err)
		}
	}
	simrt.Sleep(time.Second)
}

// c13CloseErrQueue: Close (or Conn.Close) while the channel's error queue is full of parse errors nobody consumed.
func c13CloseErrQueue(p *c13Plan, res *c13Res, conn *tds.Conn, ch *tds.Channel) {
	bg, cancel := simrt.WithTimeout(context.Background(), 5*time.Minute)
	defer cancel()
	if err := ch.SendPackage(bg, &tds.LanguagePackage{Cmd: "bad"}); err != nil {
		res.setupErr = "send: " + err.Error()
		return
	}
	simrt.Sleep(time.Second)
	res.inCall = true
	res.closeStart = simrt.SimNow()
	if p.ConnClose {
		_ = conn.Close()
	} else {
		_ = ch.Close()
	}
	res.closeEnd = simrt.SimNow()
	res.closeDone = true
	pk, err := ch.NextPackage(bg, false)
	if pk != nil || !errors.Is(err, tds.ErrChannelClosed) {
		res.violate("delivery-after-close", "closed: NextPackage after Close", "after Close: NextPackage returned (%v, %v)", pk, err)
	}
	if !p.ConnClose {
		_ = conn.Close()
	}
	simrt.Sleep(time.Second)
}

// c13CloseQueue: Close with abandoned packages in the receive queue.
func c13CloseQueue(p *c13Plan, res *c13Res, conn *tds.Conn, ch *tds.Channel) {
	bg, cancel := simrt.WithTimeout(context.Background(), 5*time.Minute)
	defer cancel()
	if err := ch.SendPackage(bg, &tds.LanguagePackage{Cmd: "req"}); err != nil {
		res.setupErr = "send: " + err.Error()
		return
	}
	for i := 0; i < p.ConsumeSome && i < p.NPkgs; i++ {
		ch.NextPackage(bg, true)
	}
	for i := 0; i < p.CloseAfter; i++ {
		simrt.Yield(0)
	}
	c13StallPeer()
	var setter *simrt.Task
	if p.SetLast == 3 {
		// the consumer itself, between two receives (the response consists of DONE packages, which take no notice of
		// the last package): with more packages outstanding than the queue holds the reader is waiting for room
		ch.SetLastPkgRx(nil)
		if c13Pending(p) > 0 {
			ch.NextPackage(bg, true)
		}
	} else if p.SetLast > 0 {
		setter = simrt.Spawn("setter", func() {
			if p.SetLast == 1 {
				ch.SetLastPkgRx(nil)
			} else {
				ch.SetLastPkgTx(nil)
			}
		})
		for i := 0; i < 1+p.CloseAfter%4; i++ {
			simrt.Yield(0)
		}
	}
	res.inCall = true
	res.closeStart = simrt.SimNow()
	res.closeCall = simrt.Record("close-call", "", "", 0)
	_ = ch.Close()
	res.closeRet = simrt.Record("close-ret", "", "", 0)
	res.closeEnd = simrt.SimNow()
	res.closeDone = true
	pk, err := ch.NextPackage(bg, false)
	if pk != nil || !errors.Is(err, tds.ErrChannelClosed) {
		res.violate("delivery-after-close", "closed: NextPackage after Close", "after Close: NextPackage returned (%v, %v)", pk, err)
	}
	if setter != nil {
		simrt.Join(setter)
	}
}

// c13CloseSend: Close racing sends on the same channel.
func c13CloseSend(p *c13Plan, res *c13Res, conn *tds.Conn, ch *tds.Channel) {
	bg, cancel := simrt.WithTimeout(context.Background(), 5*time.Minute)
	defer cancel()
	var senderIn bool // plain on purpose, see consumerIn
	sender := simrt.Spawn("sender", func() {
		for i := 0; i < p.Sends; i++ {
			senderIn = true
			call := simrt.Record("send-call", "", "", 0)
			closedBefore := res.closeDone && res.closeRet > 0 && call > res.closeRet
			err := ch.SendPackage(bg, &tds.LanguagePackage{Cmd: fmt.Sprintf("msg%d", i)})
			senderIn = false
			simrt.Record("send-ret", "", "", 0)
			if closedBefore && err == nil {
				// a send that started after Close returned must fail; one that overlapped may do either
				res.violate("no-closed-error", "close-send: a send that started after Close had returned succeeded", "SendPackage #%d was called after Close had returned and returned nil", i)
			}
			if err != nil && !errors.Is(err, tds.ErrChannelClosed) {
				// other errors are not expected here: the transport is healthy
				res.violate("wrong-error", "close-send: unexpected send error", "SendPackage returned %q", err)
			}
		}
	})
	var sender2 *simrt.Task
	if p.TwoSenders {
		sender2 = simrt.Spawn("sender2", func() {
			for i := 0; i < p.Sends; i++ {
				err := ch.SendPackage(bg, &tds.LanguagePackage{Cmd: fmt.Sprintf("other%d", i)})
				if err != nil && !errors.Is(err, tds.ErrChannelClosed) {
					res.violate("wrong-error", "close-send: unexpected send error", "SendPackage (second sender) returned %q", err)
				}
			}
		})
	}
	closer := simrt.Spawn("closer", func() {
		for i := 0; i < p.CloseAfter; i++ {
			simrt.Yield(0)
		}
		res.inCall = senderIn
		res.closeStart = simrt.SimNow()
		res.closeCall = simrt.Record("close-call", "", "", 0)
		_ = ch.Close()
		res.closeRet = simrt.Record("close-ret", "", "", 0)
		res.closeEnd = simrt.SimNow()
		res.closeDone = true
	})
	if sender2 != nil {
		simrt.Join(sender2)
	}
	simrt.Join(sender, closer)
	if err := ch.SendPackage(bg, &tds.LanguagePackage{Cmd: "after"}); !errors.Is(err, tds.ErrChannelClosed) {
		res.violate("no-closed-error", "closed: SendPackage returned nil", "SendPackage after Close returned %v", err)
	}
}

// c13CloseRecv: Close while a consumer is blocked in a receive on the same channel.
func c13CloseRecv(p *c13Plan, res *c13Res, conn *tds.Conn, ch *tds.Channel) {
	bg, cancel := simrt.WithTimeout(context.Background(), 10*time.Minute)
	defer cancel()
	if p.NPkgs > 0 {
		if err := ch.SendPackage(bg, &tds.LanguagePackage{Cmd: "req"}); err != nil {
			res.setupErr = "send: " + err.Error()
			return
		}
	}
	// (plain on purpose: an atomic would be a happens-before edge between the two tasks and could hide a race of
	// the library; the detector's reports about harness variables are ignored by the worker)
	var consumerIn bool
	// the consumer waits without a deadline of its own: only Close can end its wait
	none := context.Background()
	consumer := simrt.Spawn("consumer", func() {
		for i := 0; i < p.NPkgs+4; i++ {
			consumerIn = true
			var err error
			if p.Consumer == "next" {
				_, err = ch.NextPackage(none, true)
			} else {
				_, err = ch.NextPackageUntil(none, true, func(tds.Package) (bool, error) { return true, nil })
			}
			consumerIn = false
			seq := simrt.Record("consumer-ret", "", "", 0)
			if err != nil {
				if !errors.Is(err, tds.ErrChannelClosed) {
					res.violate("wrong-error", "close-recv: receive error is not ErrChannelClosed", "receive returned %q while the channel was being closed", err)
				}
				return
			}
			if res.closeDone && seq > res.closeRet {
				res.violate("delivery-after-close", "closed: receive delivered a package", "a receive returned a package after Close had returned")
			}
		}
	})
	closer := simrt.Spawn("closer", func() {
		for i := 0; i < p.CloseAfter; i++ {
			simrt.Yield(0)
		}
		res.inCall = consumerIn
		res.closeStart = simrt.SimNow()
		res.closeCall = simrt.Record("close-call", "", "", 0)
		_ = ch.Close()
		res.closeRet = simrt.Record("close-ret", "", "", 0)
		res.closeEnd = simrt.SimNow()
		res.closeDone = true
	})
	simrt.Join(consumer, closer)
}

// RequiredProbes: a batch in which one of these never fired explored nothing of that kind (exit 2, not a pass).
func (c13) RequiredProbes() []string {
	return []string{"landed-inside-call", "kind:cancel", "kind:close-queue", "kind:close-send", "close-send:teardown-on-the-wire", "kind:close-recv", "kind:closed-calls", "kind:conn-close", "send-with-cancelled-context", "send-cancelled-while-waiting-for-another-sender", "cancel-while-packets-keep-arriving", "conn-closed-and-judged"}
}
