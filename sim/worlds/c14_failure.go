package worlds

import (
	"context"
	"encoding/json"
	"fmt"
	"strings"
	"time"

	"github.com/SAP/go-dblib/tds"
	"github.com/SAP/go-dblib/zz_verif/peer"
	"github.com/SAP/go-dblib/zz_verif/simrt"
)

// C14 — transport failure yields a clean prefix and then an error.

type c14Plan struct {
	// Until: the consumer uses NextPackageUntil - "nil": without a callback (it may report the response consumed only
	// if the whole response arrived), "err": with a callback that fails on the first package (the call returns, in
	// time, however the rest of the response fares); then the failure must be reported as to any consumer.
	Until string `json:"until,omitempty"`
	// Bystander: another goroutine waits in a blocking receive on a second channel of the connection (nothing is
	// sent to it): the failure of the transport must reach it as well, within the same bound.
	Bystander bool `json:"bystander,omitempty"`
	Entries      []string `json:"entries,omitempty"`
	Cuts         []int    `json:"cuts,omitempty"`
	K            int      `json:"k"`    // bytes of the wire stream delivered before the failure
	Kind         string   `json:"kind"` // eof | eof-with-data | reset | timeout | write
	ReadTimeoutS int      `json:"read_timeout_s"`
	EOFCostMs    int      `json:"eof_cost_ms"`
	Async        bool     `json:"async,omitempty"`
	ReadSize     int      `json:"read_size,omitempty"` // every transport read returns at most this many bytes (0 = all)
	// QueueSize of the channel's package queue (0 = 100): with 1 or 2 the reader is usually parked on the full
	// queue when the failure arrives.
	QueueSize int `json:"queue_size,omitempty"`
	// FailDelayMs: the failure happens that long after the last delivered byte (the reader and the consumer are
	// already waiting, the read timeout is running).
	FailDelayMs int `json:"fail_delay_ms,omitempty"`
	// write failures: request of ReqLen body bytes, the J-th transport write accepts Accept bytes and fails
	ReqLen int `json:"req_len,omitempty"`
	J      int `json:"j,omitempty"`
	Accept int `json:"accept,omitempty"`
	// DeadReads (write failures): the peer has closed its side before the request, and the client only sends
	// after the reader goroutine has had time to queue more errors than the connection's error queue holds.
	DeadReads bool `json:"dead_reads,omitempty"`
	// BrokenPipe (write failures): every write after the failing one fails too.
	BrokenPipe bool `json:"broken_pipe,omitempty"`
	// EndAfterWrite (write failures): after the failed request the peer closes its side, and the client makes three
	// blocking receives: each must fail within the read timeout, as after any other end of the transport.
	EndAfterWrite bool `json:"end_after_write,omitempty"`
	// PollMs > 0: the consumer polls (NextPackage with wait=false) every PollMs milliseconds instead of blocking:
	// it too gets the prefix and then the error in time.
	PollMs int `json:"poll_ms,omitempty"`
}

type c14 struct{}

func init() { Register(c14{}) }

func (c14) ID() string { return "C14" }

// CheckSeed is VERIF_SEED (set by the worker); enumerating worlds derive their case sets from it.
var CheckSeed uint64 = 1

type c14Resp struct {
	entries []string
	cuts    []int
	wire    int
}

var c14Sets = map[string][]c14Resp{}

func c14Build(tier string) []c14Resp {
	key := fmt.Sprintf("%s/%d", tier, CheckSeed)
	if s, ok := c14Sets[key]; ok {
		return s
	}
	n := 24
	if tier == "thorough" {
		n = 1500
	}
	r := NewRand(Mix(CheckSeed, 0, 1400))
	var set []c14Resp
	// a few fixed shapes first, so that every seed covers them
	fixed := [][]string{{"done/final"}, {"rowfmt2/int4", "row/int4/typ", "row/int4/typ", "done/final"}, {"eed/error", "done/count"}, {"envchange/packsize", "loginack/succeed", "done/final"}}
	// a response whose first packet is exactly as long as the packet size in force (512: 56 counted DONE packages of
	// nine bytes) and does not end the message
	{
		var names []string
		for i := 0; i < 56; i++ {
			names = append(names, "done/count")
		}
		names = append(names, "done/final")
		body, _, _ := buildResponse(names)
		pk := peer.Packetise(body, []int{504}, peer.BufResponse, 0, true)
		set = append(set, c14Resp{names, []int{504}, len(flat(pk))})
		n++
	}
	for tries := 0; len(set) < n && tries < 100000; tries++ {
		var names []string
		if len(set)-1 < len(fixed) {
			names = fixed[len(set)-1]
		} else {
			names = genResponse(r, 5)
		}
		body, ends, err := buildResponse(names)
		if err != nil || len(body) > 260 {
			continue
		}
		var cuts []int
		np := r.Intn(4) // 1..4 packets
		for i := 0; i < np && len(body) > 1; i++ {
			if r.Bool() {
				cuts = append(cuts, ends[r.Intn(len(ends))])
			} else {
				cuts = append(cuts, 1+r.Intn(len(body)-1))
			}
		}
		pk := peer.Packetise(body, cuts, peer.BufResponse, 0, true)
		set = append(set, c14Resp{names, cuts, len(flat(pk))})
	}
	c14Sets[key] = set
	return set
}

var c14Kinds = []string{"eof", "eof-with-data", "reset", "timeout", "transient", "transient-eof", "eof-gap", "reset-with-data"}

const c14WriteRuns = 400

func (c14) NRuns(tier string) int {
	n := 0
	for _, r := range c14Build(tier) {
		n += (r.wire + 1) * len(c14Kinds)
	}
	return n + c14WriteRuns
}
func (c14) Exhaustive(tier string) bool { return true }
func (c14) Rule() string {
	return "enumeration: a set of responses (quick 24, thorough 500; up to 260 body bytes, 1..4 packets, drawn from VERIF_SEED) x EVERY byte offset k in 0..len(wire) x failure kind {EOF, EOF returned together with the last bytes, connection reset, timeout error, one read failing with a timeout error or with (0, io.EOF) after which the stream goes on}; plus 400 request-write failures (write j accepts n bytes and fails); PacketReadTimeout in {1,2,5}s and EOF poll cost vary per case; non-trivial = 0<k<len(wire) or a write fault fired; distinct = distinct (response, k, kind); exhaustive over offsets per response set"
}
func (c14) Components() map[string]string {
	return map[string]string{"tds (reader goroutine incl. EOF busy-wait and read timeout, Channel, parsers)": "real (rewritten)", "transport": "stub: simrt.Conn with close/reset/timeout/write-error faults at exact byte offsets", "server": "stub: sim/peer zoo encoders + packetiser", "clock/contexts": "simulated (read timeouts cost no wall time)"}
}

func (c14) Gen(r *Rand, idx int, tier string) interface{} {
	set := c14Build(tier)
	i := idx
	for _, rs := range set {
		n := (rs.wire + 1) * len(c14Kinds)
		if i < n {
			p := &c14Plan{Entries: rs.entries, Cuts: rs.cuts, K: i / len(c14Kinds), Kind: c14Kinds[i%len(c14Kinds)]}
			p.ReadTimeoutS = []int{1, 2, 5}[idx%3]
			if idx%13 == 7 {
				p.PollMs = []int{1, 50, 300}[(idx/13)%3]
			}
			if idx%11 == 5 && !strings.HasPrefix(p.Kind, "transient") && p.Kind != "eof-gap" {
				// legal: a connection that ended is reported at once (not combined with a transient zero-byte EOF,
				// which a timeout of zero declares to be the end although the stream goes on)
				p.ReadTimeoutS = 0
			}
			p.EOFCostMs = []int{10, 100, 500, 1000}[(idx/3)%4]
			p.Async = idx%7 == 3
			if idx%5 == 2 {
				p.ReadSize = []int{1, 3, 8, 9}[(idx/5)%4]
			}
			if idx%4 == 3 {
				p.QueueSize = []int{1, 2, -1}[(idx/4)%3] // -1: unbuffered
			}
			if idx%9 == 4 && !strings.HasPrefix(p.Kind, "transient") && p.Kind != "eof-gap" && p.PollMs == 0 {
				p.Bystander = true
			}
			if idx%17 == 9 && !strings.HasPrefix(p.Kind, "transient") && p.Kind != "eof-gap" && p.PollMs == 0 && !p.Bystander {
				p.Until = []string{"nil", "err"}[(idx/17)%2]
			}
			if idx%6 == 1 && p.Kind != "eof-with-data" && p.Kind != "reset-with-data" && !strings.HasPrefix(p.Kind, "transient") && p.Kind != "eof-gap" {
				p.FailDelayMs = []int{500, 1000, 2000, 10000}[(idx/6)%4] * p.ReadTimeoutS / 2
			}
			return p
		}
		i -= n
	}
	// write failures
	p := &c14Plan{Kind: "write", ReadTimeoutS: 2, EOFCostMs: 100}
	p.ReqLen = Pick(r, []int{1, 10, 400, 503, 504, 505, 1000, 1100, 1600})
	npk := p.ReqLen/504 + 1
	p.J = r.Intn(npk)
	p.Accept = Pick(r, []int{0, 0, 1, 7, 8, 9, 100, 511})
	p.DeadReads = r.Pct(35)
	p.BrokenPipe = r.Pct(30)
	p.EndAfterWrite = !p.DeadReads && r.Pct(40)
	return p
}
func (c14) Decode(raw json.RawMessage) (interface{}, error) {
	p := &c14Plan{}
	err := json.Unmarshal(raw, p)
	return p, err
}
func (c14) Shrink(plan interface{}) []interface{} {
	p := plan.(*c14Plan)
	var out []interface{}
	if p.Async {
		q := *p
		q.Async = false
		out = append(out, &q)
	}
	if len(p.Cuts) > 0 && p.Kind != "write" {
		// fewer packets, same offset if still valid
		q := *p
		q.Cuts = p.Cuts[:len(p.Cuts)-1]
		body, _, _ := buildResponse(q.Entries)
		if q.K <= len(flat(peer.Packetise(body, q.Cuts, peer.BufResponse, 0, true))) {
			out = append(out, &q)
		}
	}
	return out
}

func (c14) Run(plan interface{}, schedSeed uint64, replay []simrt.Choice, lenient, keepLog bool) (*Verdict, *simrt.Outcome) {
	p := plan.(*c14Plan)
	if p.Kind == "write" {
		return c14RunWrite(p, schedSeed, replay, lenient, keepLog)
	}
	v := &Verdict{}
	body, ends, err := buildResponse(p.Entries)
	if err != nil {
		v.Machinery = err.Error()
		return v, nil
	}
	v.Probe("kind:" + p.Kind)
	rt := time.Duration(p.ReadTimeoutS) * time.Second
	cost := time.Duration(p.EOFCostMs) * time.Millisecond
	drain := 20*rt + 20*cost + 30*time.Second
	base := runResp(simrt.Config{Seed: schedSeed, Strategy: "uniform", ColdQueueLocks: true},
		respDelivery{Packets: peer.Packetise(body, nil, peer.BufResponse, 0, true), TermAt: -1},
		respClient{QueueSize: 100, ReadTimeoutS: p.ReadTimeoutS, DrainFor: drain})
	pk := peer.Packetise(body, p.Cuts, peer.BufResponse, 0, true)
	wire := flat(pk)
	if p.K < 0 || p.K > len(wire) {
		v.Machinery = fmt.Sprintf("offset %d outside the wire stream (%d bytes)", p.K, len(wire))
		return v, nil
	}
	term, withData := simrt.TermEOF, false
	switch p.Kind {
	case "eof-with-data":
		withData = true
	case "reset-with-data":
		// the io.Reader contract allows it: the last bytes that arrived and the error in one Read
		term, withData = simrt.TermReset, true
	case "reset":
		term = simrt.TermReset
	case "timeout":
		term = simrt.TermTimeout
	}
	cfg := simrt.Config{Seed: schedSeed, Strategy: "uniform", ColdQueueLocks: true, EOFReadCostMs: p.EOFCostMs, MaxSteps: 250000, Replay: replay, Lenient: lenient, KeepLog: keepLog}
	if p.Kind == "transient" || p.Kind == "transient-eof" || p.Kind == "eof-gap" {
		return c14RunTransient(p, v, cfg, base, pk, wire, drain)
	}
	got := runResp(cfg, respDelivery{Packets: pk, TermAt: p.K, TermKind: term, TermWithData: withData, Async: p.Async, TermDelay: time.Duration(p.FailDelayMs) * time.Millisecond},
		respClient{QueueSize: c14Queue(p), ReadTimeoutS: p.ReadTimeoutS, DrainFor: drain, ReadSizes: c14ReadSizes(p.ReadSize, len(wire)), MaxErrs: 10, PollEvery: time.Duration(p.PollMs) * time.Millisecond, Bystander: p.Bystander, Until: p.Until})
	out := got.Out
	StdOutcome(v, base.Out)
	StdOutcome(v, out)
	if v.Machinery != "" {
		return v, out
	}
	if base.ConnErr != "" || base.SendErr != "" || len(base.Out.Crashes) > 0 {
		v.Machinery = fmt.Sprintf("baseline run failed: %s %s %v", base.ConnErr, base.SendErr, base.Out.Crashes)
		return v, out
	}
	if len(errsOnly(base.Recs)) > 0 {
		// the library rejects this response even when nothing fails: nothing to compare with (C02 reports such
		// responses the same way); the vacuity guard keeps this from becoming a silent blind spot
		v.Probe("baseline-rejected-response")
		return v, out
	}
	where0 := fmt.Sprintf("%s after %d of %d wire bytes of %v", p.Kind, p.K, len(wire), p.Entries)
	if out.Budget {
		// the client keeps running without simulated time passing and without ever reporting the failure:
		// for the consumer that is "no error" - its deadline can never fire while the reader spins
		v.Budget = false
		v.Violate("livelock", "no error after transport failure: the client spins", "%s: after %d scheduler steps the client is still busy and the consumer has received no error", where0, out.Steps)
		return v, out
	}
	where := fmt.Sprintf("%s after %d of %d wire bytes (packets %v) of %v", p.Kind, p.K, len(wire), pktLens(pk), p.Entries)
	for _, c := range out.Crashes {
		v.Violate("panic", "panic "+CrashSig(c), "%s: task %s panicked: %s\n%s", where, c.Task, c.Value, c.Stack)
	}
	if got.ConnErr != "" || got.SendErr != "" {
		v.Violate("client-error", "client-setup-error", "%s: connect/send failed: %s %s", where, got.ConnErr, got.SendErr)
	}

	if p.Until != "" {
		// A DONE family package with final status in the middle of the response (the zoo has DONEINPROC and
		// DONEPROC with status 0) ends the response for a consumer that reads without a callback: such a call
		// may report "consumed" once for every one of them that arrived before the failure.
		finals, off, bodyGot := 0, 0, 0
		for _, x := range pk {
			if p.K > off+peer.HeaderSize {
				n := p.K - off - peer.HeaderSize
				if n > len(x)-peer.HeaderSize {
					n = len(x) - peer.HeaderSize
				}
				bodyGot += n
			}
			off += len(x)
		}
		for i, n := range p.Entries {
			if e := zooIndex[n]; (e.Kind == "DONE" || e.Kind == "DONEPROC" || e.Kind == "DONEINPROC") && len(e.Bytes) >= 3 && e.Bytes[1] == 0 && e.Bytes[2] == 0 && ends[i] <= bodyGot {
				finals++
			}
		}
		c14Until(p, v, got, where, len(wire), finals)
		return v, out
	}

	// What the baseline delivers: the visible entries in order, then possibly one synthetic final DONE.
	B := pkgsOnly(base.Recs)
	var visEnds []int // body end offset of every visible entry
	for i, n := range p.Entries {
		if zooIndex[n].Visible {
			visEnds = append(visEnds, ends[i])
		}
	}
	synthetic := 0
	switch len(B) - len(visEnds) {
	case 0:
	case 1:
		synthetic = 1
	default:
		v.Machinery = fmt.Sprintf("baseline delivered %d packages for %d visible entries", len(B), len(visEnds))
		return v, out
	}
	// body bytes in completely delivered packets / received at all
	complete, received, off := 0, 0, 0
	eomComplete := false
	for i, x := range pk {
		if off+len(x) <= p.K {
			complete += len(x) - peer.HeaderSize
			if i == len(pk)-1 {
				eomComplete = true
			}
		}
		if p.K > off+peer.HeaderSize {
			n := p.K - off - peer.HeaderSize
			if n > len(x)-peer.HeaderSize {
				n = len(x) - peer.HeaderSize
			}
			received += n
		}
		off += len(x)
	}
	lower, upper := 0, 0
	for _, e := range visEnds {
		if e <= complete {
			lower++
		}
		if e <= received {
			upper++
		}
	}
	// split what the consumer saw at the first error
	var before, after []PkgRec
	var firstErr *PkgRec
	for i := range got.Recs {
		r := got.Recs[i]
		if r.Err != "" {
			if firstErr == nil {
				firstErr = &got.Recs[i]
			}
			continue
		}
		if firstErr == nil {
			before = append(before, r)
		} else {
			after = append(after, r)
		}
	}
	have := append(pkgsOnly(before), pkgsOnly(after)...)
	// 1. a prefix of the response, correct values
	nReal := len(have)
	gotSynthetic := false
	if !isPrefix(have, B) {
		// the only other legal shape: a prefix of the real packages ... which never includes a DONE the server did not send
		v.Violate("wrong-packages", "not-a-prefix", "%s: delivered packages are not a prefix of the response: %s", where, firstDiff(B, have))
	} else if synthetic == 1 && len(have) == len(B) {
		gotSynthetic = true
		nReal--
	}
	if v.Class == "" {
		nBefore := len(pkgsOnly(before))
		if gotSynthetic && len(after) == 0 {
			nBefore--
		}
		if firstErr != nil && nBefore < lower && nReal >= lower {
			// Diagnosis from the event log of the same execution: did the library queue the error before the
			// package (then no consumer can see the prefix first), or the package first and the consumer, parked
			// in its select, was handed the error by the select's random choice (documented by NextPackage)?
			order := "package was queued before the error"
			cfg2 := cfg
			cfg2.Replay, cfg2.Lenient, cfg2.KeepLog = out.Tape, false, true
			again := runResp(cfg2, respDelivery{Packets: pk, TermAt: p.K, TermKind: term, TermWithData: withData, Async: p.Async, TermDelay: time.Duration(p.FailDelayMs) * time.Millisecond},
				respClient{QueueSize: c14Queue(p), ReadTimeoutS: p.ReadTimeoutS, DrainFor: drain, ReadSizes: c14ReadSizes(p.ReadSize, len(wire)), MaxErrs: 10, PollEvery: time.Duration(p.PollMs) * time.Millisecond, Bystander: p.Bystander})
			pkgSends, errSend := 0, -1
			reqAt := -1
			for _, e := range again.Out.Log {
				if e.Task == "root" && e.Op == "write" && e.Info != "8" && reqAt < 0 {
					reqAt = e.Seq // the request: the first thing the client writes that is not a header-only packet
				}
			}
			for _, e := range again.Out.Log {
				if e.Op != "send" && !(e.Op == "select" && strings.Contains(e.Info, "(send)")) {
					continue
				}
				if e.Seq < reqAt {
					continue
				}
				// sends of the reader task: the ones in Conn.ReadFrom itself queue connection errors, all others
				// (wherever the channel code does them) queue packages
				if !strings.HasPrefix(e.Task, "go@") {
					continue
				}
				fn := Sites[e.Site].Func
				if strings.Contains(fn, "(*Conn).ReadFrom") || strings.Contains(fn, "(*Conn).queueError") {
					if errSend < 0 {
						errSend = pkgSends
					}
				} else {
					pkgSends++
				}
			}
			if errSend >= 0 && errSend < lower {
				order = "error was queued before the package"
			} else {
				// Was a package already waiting in the queue when the receive that returned the error was CALLED?
				// Then no random choice is involved: a receive must hand out what is queued before it looks at errors.
				var errSeq, callSeq = -1, -1
				delivered := 0
				for _, r := range again.Recs {
					if r.Err != "" {
						errSeq = r.Seq
						break
					}
					if r.Type != "" {
						delivered++
					}
				}
				for _, e := range again.Out.Log {
					if e.Seq < errSeq && e.Task == "root" && e.Op == "rlock" && strings.Contains(Sites[e.Site].Func, "(*Channel).NextPackage") {
						callSeq = e.Seq
					}
				}
				// (only what the reader queued after the request went out: the acknowledgement of a further channel's
				// setup is handed over the same way, before the exchange begins)
				reqSeq := -1
				for _, e := range again.Out.Log {
					if e.Task == "root" && e.Op == "write" && e.Info != "8" && reqSeq < 0 {
						reqSeq = e.Seq
					}
				}
				queuedAtCall := 0
				for _, e := range again.Out.Log {
					if e.Seq >= callSeq || e.Seq < reqSeq || !strings.HasPrefix(e.Task, "go@") {
						continue
					}
					if (e.Op == "send" || (e.Op == "select" && strings.Contains(e.Info, "(send)"))) && !strings.Contains(Sites[e.Site].Func, "(*Conn).ReadFrom") && !strings.Contains(Sites[e.Site].Func, "(*Conn).queueError") {
						queuedAtCall++
					}
				}
				if errSeq >= 0 && callSeq >= 0 && queuedAtCall > delivered {
					order = "a package was already queued when the receive was called"
				}
			}
			v.Violate("error-before-packages", "error surfaced before packages of completely received packets ("+order+")", "%s: %d packages lie in completely received packets but only %d were delivered before the first error (%d more after it); %s", where, lower, nBefore, len(after), order)
		}
		if nReal < lower {
			v.Violate("lost-packages", "lost: package in completely received packet not delivered", "%s: %d packages lie in completely received packets but only %d were delivered", where, lower, nReal)
		}
		if nReal > upper {
			v.Violate("incomplete-data", "delivered from incomplete data", "%s: %d packages delivered but the bytes of only %d had arrived", where, nReal, upper)
		}
		if gotSynthetic && !eomComplete {
			v.Violate("spurious-done", "spurious final DONE", "%s: a synthetic final DONE was delivered although the end-of-message packet never arrived completely", where)
		}
	}
	// 2. then an error, in time
	bound := got.FailedAt + time.Duration(p.ReadTimeoutS)*time.Second + 2*cost
	isCtx := func(r *PkgRec) bool {
		return strings.Contains(r.Err, "context deadline exceeded") || strings.Contains(r.Err, "context canceled")
	}
	switch {
	case firstErr == nil:
		v.Violate("no-error", "no error after transport failure", "%s: the consumer never received an error", where)
	case isCtx(firstErr):
		v.Violate("no-error", "no error after transport failure: consumer blocked until its own deadline", "%s: the transport failed at t=%v but the consumer only returned when its own context expired at t=%v (read timeout %ds)", where, got.FailedAt, firstErr.Now, p.ReadTimeoutS)
	case firstErr.Now > bound && p.PollMs == 0:
		// (a poll picks at random between "nothing ready" and a queued error, so a polling consumer may find the
		// error a few polls late: for it only "an error before its own deadline" is judged)
		v.Violate("late-error", "error later than the read timeout", "%s: failure at t=%v, first error at t=%v, bound %v", where, got.FailedAt, firstErr.Now, bound)
	}
	if p.Bystander && v.Class == "" {
		v.Probe("bystander-on-another-channel")
		// (the two goroutines take their errors from one queue: the consumer of the response may be handed up to ten
		// of them in a row - one per read timeout / EOF poll - before the bystander gets one)
		byBound := bound + 11*(time.Duration(p.ReadTimeoutS)*time.Second+2*cost)
		switch {
		case !got.BystanderDone:
			v.Violate("no-error", "no error after transport failure: a receive on another channel never returned", "%s: a goroutine waiting on another channel of the connection never returned", where)
		case got.BystanderPkg != "":
			v.Violate("wrong-packages", "a package was delivered to a channel nothing was sent to", "%s: the goroutine waiting on another channel received a %s", where, got.BystanderPkg)
		case strings.Contains(got.BystanderErr, "context deadline exceeded") || strings.Contains(got.BystanderErr, "context canceled"):
			v.Violate("no-error", "no error after transport failure: a receive on another channel blocked until its own deadline", "%s: the transport failed at t=%v; a goroutine waiting on another channel of the connection only returned when its own context expired at t=%v (read timeout %ds)", where, got.FailedAt, got.BystanderAt, p.ReadTimeoutS)
		case got.BystanderAt > byBound:
			v.Violate("late-error", "error later than the read timeout on another channel", "%s: failure at t=%v, the goroutine waiting on another channel got its error at t=%v, bound %v", where, got.FailedAt, got.BystanderAt, byBound)
		}
	}
	// 3. the failure is permanent: every later receive fails as well, in time - none blocks until its own deadline
	if firstErr != nil && !isCtx(firstErr) {
		seenFirst := false
		for i := range got.Recs {
			r := &got.Recs[i]
			if r == firstErr {
				seenFirst = true
				continue
			}
			if seenFirst && r.Err != "" && isCtx(r) {
				v.Violate("later-receive-blocked", "a receive after the first error blocked until its own deadline", "%s: the first error came at t=%v, a later receive only returned when the consumer's context expired at t=%v (read timeout %ds)", where, firstErr.Now, r.Now, p.ReadTimeoutS)
				break
			}
			// each receive is called when the previous one returned: it must return within the bound as well
			if seenFirst && i > 0 && r.Err != "" {
				if gap := r.Now - got.Recs[i-1].Now; gap > time.Duration(p.ReadTimeoutS)*time.Second+2*cost {
					if p.PollMs > 0 {
						continue
					}
					v.Violate("later-receive-late", "a receive after the first error took longer than the read timeout", "%s: receive #%d after the failure was called at t=%v and returned at t=%v (read timeout %ds, poll cost %v)", where, i, got.Recs[i-1].Now, r.Now, p.ReadTimeoutS, cost)
					break
				}
			}
		}
	}
	if p.K > 0 && p.K < len(wire) {
		v.Nontrivial = fmt.Sprintf("%v|%v|%d|%s", p.Entries, p.Cuts, p.K, p.Kind)
	}
	if lower != upper {
		v.Probe("package-complete-in-partial-packet")
	}
	if len(after) > 0 {
		v.Probe("package-after-first-error")
	}
	v.Sample = map[string]interface{}{"entries": p.Entries, "packets": pktLens(pk), "k": p.K, "kind": p.Kind, "read_timeout_s": p.ReadTimeoutS, "delivered": len(have), "first_error_at": fmt.Sprint(errTime(firstErr))}
	return v, out
}

func c14ReadSizes(sz, n int) []int {
	if sz == 0 {
		return nil
	}
	var rs []int
	for i := 0; i < 2*n+32; i++ {
		rs = append(rs, sz)
	}
	return rs
}

func errTime(r *PkgRec) time.Duration {
	if r == nil {
		return -1
	}
	return r.Now
}

func pktLens(pk [][]byte) []int {
	var l []int
	for _, x := range pk {
		l = append(l, len(x))
	}
	return l
}

// c14RunWrite: a transport write fails while the request is being sent.
// c14RunTransient: ONE read fails with a timeout error after K bytes, then the stream goes on. The library may give
// up (a prefix, then errors) or recover (the whole response); it may not deliver anything the server did not send.
func c14RunTransient(p *c14Plan, v *Verdict, cfg simrt.Config, base *respResult, pk [][]byte, wire []byte, drain time.Duration) (*Verdict, *simrt.Outcome) {
	got := runResp(cfg, respDelivery{Packets: pk, TermAt: -1, Async: p.Async},
		respClient{QueueSize: c14Queue(p), ReadTimeoutS: p.ReadTimeoutS, DrainFor: drain, ReadSizes: c14ReadSizes(p.ReadSize, len(wire)), MaxErrs: 10, Transients: []int{p.K}, TransientEOF: p.Kind == "transient-eof" || p.Kind == "eof-gap", TransientFor: c14Gap(p)})
	out := got.Out
	StdOutcome(v, base.Out)
	StdOutcome(v, out)
	if v.Machinery != "" {
		return v, out
	}
	if base.ConnErr != "" || base.SendErr != "" || len(base.Out.Crashes) > 0 {
		v.Machinery = fmt.Sprintf("baseline run failed: %s %s %v", base.ConnErr, base.SendErr, base.Out.Crashes)
		return v, out
	}
	if len(errsOnly(base.Recs)) > 0 {
		// the library rejects this response even when nothing fails: nothing to compare with (C02 reports such
		// responses the same way); the vacuity guard keeps this from becoming a silent blind spot
		v.Probe("baseline-rejected-response")
		return v, out
	}
	what := "a timeout error"
	if p.Kind == "transient-eof" {
		what = "(0, io.EOF)"
	}
	where := fmt.Sprintf("one read fails with "+what+" after %d of %d wire bytes (packets %v) of %v, then the stream goes on", p.K, len(wire), pktLens(pk), p.Entries)
	if p.Kind == "eof-gap" {
		where = fmt.Sprintf("every read returns (0, io.EOF) for %v (read timeout %ds) after %d of %d wire bytes (packets %v) of %v, then the stream goes on", c14Gap(p), p.ReadTimeoutS, p.K, len(wire), pktLens(pk), p.Entries)
	}
	if out.Budget {
		v.Budget = false
		v.Violate("livelock", "the client spins after a transient read error", "%s: after %d scheduler steps the client is still busy", where, out.Steps)
		return v, out
	}
	for _, c := range out.Crashes {
		v.Violate("panic", "panic "+CrashSig(c), "%s: task %s panicked: %s\n%s", where, c.Task, c.Value, c.Stack)
	}
	B, have := pkgsOnly(base.Recs), pkgsOnly(got.Recs)
	if !isPrefix(have, B) {
		v.Violate("wrong-packages", "packages the server did not send after a transient read error", "%s: delivered packages are not a prefix of the response: %s", where, firstDiff(B, have))
	}
	if out.FaultFired["read-eof-gap"] > 0 {
		v.Probe("eof-gap-fired")
	}
	if out.FaultFired["read-transient-error"] > 0 || out.FaultFired["read-eof-gap"] > 0 {
		v.Probe("transient-error-fired")
		if len(errsOnly(got.Recs)) == 0 && len(have) < len(B) {
			v.Violate("no-error", "neither the whole response nor an error after a transient read error", "%s: %d of %d packages delivered and no error reported", where, len(have), len(B))
		}
		v.Nontrivial = fmt.Sprintf("%v|%v|%d|%s", p.Entries, p.Cuts, p.K, p.Kind)
	}
	if len(have) == len(B) {
		v.Probe("transient-recovered")
	} else if v.Class == "" {
		// the library gave up on the connection: then every receive fails, in time - none waits for its own deadline
		for _, r := range got.Recs {
			if r.Err != "" && (strings.Contains(r.Err, "context deadline exceeded") || strings.Contains(r.Err, "context canceled")) {
				v.Violate("later-receive-blocked", "a receive after a transient read error blocked until its own deadline", "%s: %d of %d packages delivered, then a receive only returned when the consumer's context expired at t=%v", where, len(have), len(B), r.Now)
				break
			}
		}
	}
	v.Sample = map[string]interface{}{"kind": p.Kind, "k": p.K, "wire": len(wire), "delivered": len(have), "errors": len(errsOnly(got.Recs))}
	return v, out
}

// c14Gap: how long the (0, io.EOF) reads of kind eof-gap last: longer than the read timeout in two cases of three
// (the library reports the failure - and must not read on in the middle of the packet afterwards), shorter in the third
// (its retry loop recovers).
func c14Gap(p *c14Plan) time.Duration {
	if p.Kind != "eof-gap" {
		return 0
	}
	rt := time.Duration(p.ReadTimeoutS) * time.Second
	switch p.K % 3 {
	case 0:
		return rt/2 + 100*time.Millisecond
	case 1:
		return rt + 1200*time.Millisecond
	}
	return 3*rt + 700*time.Millisecond
}

// c14Until judges the consumer modes that read with NextPackageUntil: what such a call reports may not be better than
// what arrived, and the failure of the transport is reported in time.
func c14Until(p *c14Plan, v *Verdict, got *respResult, where string, wireLen int, finals int) {
	v.Probe("until:" + p.Until)
	rt := time.Duration(p.ReadTimeoutS) * time.Second
	cost := time.Duration(p.EOFCostMs) * time.Millisecond
	bound := got.FailedAt + rt + 2*cost
	var firstErr *PkgRec
	for i := range got.Recs {
		r := &got.Recs[i]
		switch {
		case r.Type == "end-of-response" && p.K < wireLen && firstErr == nil && finals > 0:
			finals--
			v.Probe("until-nil:final-done-in-mid-response")
		case r.Type == "end-of-response" && p.K < wireLen && firstErr == nil:
			v.Violate("spurious-done", "the response is reported as consumed although its end never arrived", "%s: NextPackageUntil without a callback returned as if the response had been consumed, at t=%v", where, r.Now)
			return
		case r.Type == "callback-call-returned":
			if r.Dump == "" {
				v.Violate("callback-error", "the call whose callback failed returned no error", "%s: NextPackageUntil returned nil although its callback failed", where)
				return
			}
			if r.Now > bound+rt+2*cost {
				v.Violate("late-error", "the call whose callback failed returned later than the read timeout", "%s: failure at t=%v, NextPackageUntil (callback failed on the first package) returned at t=%v: %s", where, got.FailedAt, r.Now, short(r.Dump, 200))
				return
			}
		}
		if r.Err != "" && firstErr == nil {
			firstErr = r
		}
	}
	isCtx := func(r *PkgRec) bool {
		return strings.Contains(r.Err, "context deadline exceeded") || strings.Contains(r.Err, "context canceled")
	}
	switch {
	case firstErr == nil:
		v.Violate("no-error", "no error after transport failure", "%s (consumer mode until-%s): the consumer never received an error", where, p.Until)
	case isCtx(firstErr):
		v.Violate("no-error", "no error after transport failure: consumer blocked until its own deadline", "%s (consumer mode until-%s): the transport failed at t=%v but the consumer only returned when its own context expired at t=%v", where, p.Until, got.FailedAt, firstErr.Now)
	case firstErr.Now > bound+rt+2*cost:
		v.Violate("late-error", "error later than the read timeout", "%s (consumer mode until-%s): failure at t=%v, first error at t=%v", where, p.Until, got.FailedAt, firstErr.Now)
	}
}

func c14Queue(p *c14Plan) int {
	if p.QueueSize < 0 {
		return 0
	}
	if p.QueueSize > 0 {
		return p.QueueSize
	}
	return 100
}

func c14RunWrite(p *c14Plan, schedSeed uint64, replay []simrt.Choice, lenient, keepLog bool) (*Verdict, *simrt.Outcome) {
	v := &Verdict{}
	cfg := simrt.Config{Seed: schedSeed, Strategy: "uniform", ColdQueueLocks: true, EOFReadCostMs: p.EOFCostMs, Replay: replay, Lenient: lenient, KeepLog: keepLog}
	s := simrt.New(cfg)
	pr := NewTDSPeer(s)
	pr.OnMsg = func(m *ClientMsg) { pr.SendResponse(0, peer.Done(0, 0, 0), nil) }
	s.Net.Setup = func(c *simrt.Conn) {
		c.WriteFaults = map[int]simrt.WriteFault{p.J: {Accept: p.Accept, Persistent: p.BrokenPipe}}
	}
	var sendErr error
	var recs []PkgRec
	var connErr, second string
	var secondAt time.Duration
	var lateErrs []time.Duration
	closed, firstDone := false, false
	out := s.Run(func() {
		conn, err := tds.NewConn(context.Background(), MkInfo(100, p.ReadTimeoutS, false))
		if err != nil {
			connErr = err.Error()
			return
		}
		ch, err := conn.NewChannel()
		if err != nil {
			connErr = err.Error()
			return
		}
		if p.DeadReads {
			// the connection is dead in both directions: the reader fills the error queue while nobody receives
			pr.Conn.End(simrt.TermEOF, false)
			s.Fault("close-eof")
			simrt.Sleep(time.Duration(15*p.ReadTimeoutS)*time.Second + 15*time.Duration(p.EOFCostMs)*time.Millisecond)
		}
		ctx, cancel := simrt.WithTimeout(context.Background(), 30*time.Second)
		defer cancel()
		cmd := strings.Repeat("x", p.ReqLen)
		sendErr = ch.SendPackage(ctx, &tds.LanguagePackage{Cmd: cmd})
		firstDone = true
		simrt.Sleep(time.Second)
		for i := 0; i < 20; i++ {
			pkg, err := ch.NextPackage(ctx, false)
			if err != nil {
				break
			}
			recs = append(recs, recPkg(pkg))
		}
		if p.EndAfterWrite {
			simrt.Sched(func() {
				pr.Conn.End(simrt.TermEOF, false)
				s.Fault("close-eof")
			})
			for i := 0; i < 3; i++ {
				lctx, lcancel := simrt.WithTimeout(context.Background(), 60*time.Second)
				t0 := simrt.SimNow()
				_, err := ch.NextPackage(lctx, true)
				lcancel()
				if err != nil {
					lateErrs = append(lateErrs, simrt.SimNow()-t0)
				}
			}
		}
		// the connection may be broken, but it must not hang: another request returns (with or without an error)
		// while its context is live, and the connection can be closed
		ctx2, cancel2 := simrt.WithTimeout(context.Background(), 5*time.Second)
		defer cancel2()
		simrt.Record("second-send", "", "", 0)
		second = fmt.Sprint(ch.SendPackage(ctx2, &tds.LanguagePackage{Cmd: "again"}))
		secondAt = simrt.SimNow()
		simrt.Record("conn-close", "", "", 0)
		conn.Close()
		closed = true
	})
	StdOutcome(v, out)
	if v.Machinery != "" {
		return v, out
	}
	if connErr != "" {
		v.Machinery = "connect failed: " + connErr
		return v, out
	}
	where := fmt.Sprintf("write %d of a %d-byte request accepts %d bytes and fails", p.J, p.ReqLen, p.Accept)
	if p.DeadReads {
		where += " (peer closed long before: the error queue is full)"
		v.Probe("write-fault-on-dead-connection")
	}
	for _, c := range out.Crashes {
		v.Violate("panic", "panic "+CrashSig(c), "%s: task %s panicked: %s\n%s", where, c.Task, c.Value, c.Stack)
	}
	fired := out.FaultFired["write-error"] > 0
	if !firstDone && !out.Budget {
		v.Violate("blocked", "request with a failing write never returned "+ParkSig(out, Sites), "%s: SendPackage did not return although its context expired (%v)", where, out.Parked)
	}
	if fired && sendErr == nil && firstDone {
		v.Violate("write-error-swallowed", "write error not reported", "%s: SendPackage returned nil", where)
	}
	if fired && len(recs) > 0 {
		v.Violate("delivery-after-write-error", "package delivered after failed request", "%s: %d packages were delivered afterwards", where, len(recs))
	}
	if v.Class == "" && !out.Budget {
		switch {
		case second == "":
			v.Violate("blocked", "request after a failed write never returned "+ParkSig(out, Sites), "%s: the next SendPackage on the channel did not return although its context expired (%v)", where, out.Parked)
		case !closed:
			v.Violate("blocked", "Conn.Close after a failed write never returned "+ParkSig(out, Sites), "%s: Conn.Close did not return (%v)", where, out.Parked)
		}
	}
	_ = secondAt
	if closed && v.Class == "" && !out.Budget {
		// Conn.Close after a failed write closes what every Conn.Close closes
		if pr.Conn.CloseCalls == 0 {
			v.Violate("transport-not-closed", "transport not closed by Conn.Close after a failed write", "%s: Conn.Close returned, the transport's Close was never called", where)
		}
		for _, pk := range out.Parked {
			if strings.HasPrefix(pk.Task, "go@") {
				v.Violate("reader-not-ended", "reader goroutine still running after Conn.Close", "%s: the reader is still parked after Conn.Close: %v", where, out.Parked)
			}
		}
	}
	if p.EndAfterWrite && v.Class == "" && !out.Budget && closed {
		bound := time.Duration(p.ReadTimeoutS)*time.Second + time.Duration(p.EOFCostMs)*time.Millisecond + time.Second
		for i, d := range lateErrs {
			if d > bound {
				v.Violate("late-error", "receive after a failed write and the end of the transport fails late", "%s, then the peer closed its side: receive #%d failed after %v (read timeout %d s)", where, i+1, d, p.ReadTimeoutS)
			}
		}
		v.Probe("transport-ended-after-write-fault")
	}
	if fired {
		v.Nontrivial = fmt.Sprintf("write|%d|%d|%d", p.ReqLen, p.J, p.Accept)
	}
	v.Probe("kind:write")
	v.Sample = map[string]interface{}{"kind": "write", "req_len": p.ReqLen, "j": p.J, "accept": p.Accept, "send_err": fmt.Sprint(sendErr)}
	return v, out
}

// RequiredProbes: a batch in which one of these never fired explored nothing of that kind (exit 2, not a pass).
func (c14) RequiredProbes() []string {
	return []string{"kind:eof", "kind:eof-with-data", "kind:reset", "kind:timeout", "kind:transient", "kind:transient-eof", "kind:eof-gap", "eof-gap-fired", "kind:reset-with-data", "until:nil", "until:err", "kind:write"}
}
