package worlds

import (
	"encoding/binary"
	"encoding/json"
	"errors"
	"fmt"
	"reflect"

	"github.com/SAP/go-dblib/tds"
	"github.com/SAP/go-dblib/zz_verif/simrt"
)

// C15 — the packet queue behaves as a byte FIFO across packet boundaries.
//
// One task, no transport: histories of queue operations are compared step by
// step with a flat byte slice. The environment events the statement names are
// data that has not arrived yet (read past the end, then restore the saved
// position) and a packet size that changes between writes.

type qOp struct {
	Op  string `json:"op"` // add | bytes | toend | byte | u16 | u32 | u64 | str | read | save | restore | discard | reset | write | w8 | w16 | w32 | w64 | wstr | size | readback
	N   int    `json:"n,omitempty"`
	EOM bool   `json:"eom,omitempty"`
	// Alt selects among the methods that do the same thing (Byte / Uint8 / Int8, Uint16 / Int16, ...,
	// WriteBytes / Write, WriteUint8 / WriteInt8 / WriteByte, ...).
	Alt int `json:"alt,omitempty"`
}

type c15Plan struct {
	Side string `json:"side"` // recv | send
	Size int    `json:"size"` // initial packet size
	Ops  []qOp  `json:"ops"`
	Enum bool   `json:"enum,omitempty"`
	// StartNr: the packets enqueued on the receive side are numbered like the packets of a logical channel,
	// from this number on (the numbers wrap after 255).
	StartNr int `json:"start_nr,omitempty"`
	// Side "send2": two goroutines write integers of Width bytes (2, 4 or 8) to one queue at the same time, N1 and N2
	// of them (the queue's own mutex is a scheduling point in these runs); read back afterwards, every value is there
	// exactly once and each writer's values are in its order.
	Width int `json:"width,omitempty"`
	N1    int `json:"n1,omitempty"`
	N2    int `json:"n2,omitempty"`
}

type c15 struct{}

func init() { Register(c15{}) }

func (c15) ID() string { return "C15" }

var c15Alphabet = []qOp{
	{Op: "add", N: 1}, {Op: "add", N: 3, EOM: true}, {Op: "bytes", N: 1}, {Op: "bytes", N: 2}, {Op: "bytes", N: 4},
	{Op: "u16"}, {Op: "save"}, {Op: "restore"}, {Op: "discard"}, {Op: "reset"},
	{Op: "save", N: 1}, {Op: "restore", N: 1},
}

func c15EnumCount(tier string) int {
	maxLen := 4
	if tier == "thorough" {
		maxLen = 6
	}
	n, p := 0, 1
	for l := 1; l <= maxLen; l++ {
		p *= len(c15Alphabet)
		n += p
	}
	return n
}

func (c15) NRuns(tier string) int {
	if tier == "thorough" {
		return c15EnumCount(tier) + 4000000
	}
	return c15EnumCount(tier) + 20000
}
func (c15) Rule() string {
	return "operation histories on a real PacketQueue against a flat byte model; receive side: AddPacket (bodies of 0..3 packets' worth, EOM flag) interleaved with Bytes(n), Byte, typed reads, String, Read(p), Position/SetPosition (only saved positions not invalidated by a discard), DiscardUntilCurrentPosition, Reset; send side: WriteBytes and typed writes at the end, packet size changes 9..600 between writes, then rewind and read back; up to 40 operations; enumerated part: ALL receive-side sequences up to length 4 (thorough: 6) over a 10-symbol alphabet at packet size 10; non-trivial = a read or write crossed a packet boundary; distinct = distinct operation sequence"
}
func (c15) Components() map[string]string {
	return map[string]string{"tds.PacketQueue": "real (rewritten; its mutex goes through simrt)", "everything else": "not involved (one task, no transport, no clock)"}
}

func (c15) Gen(r *Rand, idx int, tier string) interface{} {
	ne := c15EnumCount(tier)
	if idx < ne {
		// unrank: sequences of length 1, then 2, ...
		p := &c15Plan{Side: "recv", Size: 10, Enum: true}
		i := idx
		l, cnt := 1, len(c15Alphabet)
		for i >= cnt {
			i -= cnt
			cnt *= len(c15Alphabet)
			l++
		}
		for k := 0; k < l; k++ {
			p.Ops = append(p.Ops, c15Alphabet[i%len(c15Alphabet)])
			i /= len(c15Alphabet)
		}
		return p
	}
	if r.Intn(1000) == 0 {
		// one very large read: a value of 16 MiB and a little more (the text and image types announce their length
		// with 32 bits and are read in one piece), enqueued in packets of the largest size
		p := &c15Plan{Side: "recv", Size: 65535}
		total := 16<<20 + r.Intn(70000)
		for got := 0; got < total; got += 65527 {
			p.Ops = append(p.Ops, qOp{Op: "add", N: 65527})
		}
		p.Ops = append(p.Ops, qOp{Op: "bytes", N: 3}, qOp{Op: "bytes", N: total - 3 - r.Intn(3), Alt: 1}, qOp{Op: "toend"})
		return p
	}
	if r.Pct(3) {
		return &c15Plan{Side: "send2", Size: 9 + r.Intn(100), Width: Pick(r, []int{2, 4, 8}), N1: 1 + r.Intn(12), N2: 1 + r.Intn(12)}
	}
	p := &c15Plan{Size: 9 + r.Intn(592), StartNr: Pick(r, []int{0, 0, 250, 253, 255})}
	if r.Pct(25) {
		p.Size = Pick(r, []int{9, 10, 11, 16, 512})
	}
	body := p.Size - 8
	n := 1 + r.Intn(40)
	if r.Pct(65) {
		p.Side = "recv"
		for i := 0; i < n; i++ {
			switch c := r.Intn(100); {
			case c < 25:
				p.Ops = append(p.Ops, qOp{Op: "add", N: r.Intn(3*body + 1), EOM: r.Pct(30)})
			case c < 40:
				p.Ops = append(p.Ops, qOp{Op: "bytes", N: r.Intn(2*body + 3)})
			case c < 43:
				// read exactly up to the end of what is queued (the cursor then sits behind the last packet)
				p.Ops = append(p.Ops, qOp{Op: "toend"})
			case c < 44 && r.Pct(60):
				// with nothing unread: write exactly one or two packet bodies (the cursor moves behind them, to the
				// very end of a full packet), so that written and enqueued data follow each other in one queue
				p.Ops = append(p.Ops, qOp{Op: "wrfull", N: 1 + r.Intn(2)})
			case c < 45:
				// read exactly up to the end of the packet at the cursor (the cursor then sits on a packet boundary
				// with unread packets behind it)
				p.Ops = append(p.Ops, qOp{Op: "toedge"})
			case c < 50:
				p.Ops = append(p.Ops, qOp{Op: "byte"})
			case c < 55:
				p.Ops = append(p.Ops, qOp{Op: "u16"})
			case c < 60:
				p.Ops = append(p.Ops, qOp{Op: "u32"})
			case c < 64:
				p.Ops = append(p.Ops, qOp{Op: "u64"})
			case c < 68:
				p.Ops = append(p.Ops, qOp{Op: "str", N: r.Intn(body + 4)})
			case c < 75:
				p.Ops = append(p.Ops, qOp{Op: "read", N: r.Intn(body + 4)})
			case c < 83:
				p.Ops = append(p.Ops, qOp{Op: "save", N: r.Intn(3)})
			case c < 90:
				p.Ops = append(p.Ops, qOp{Op: "restore", N: r.Intn(3)})
			case c < 97:
				p.Ops = append(p.Ops, qOp{Op: "discard"})
			default:
				p.Ops = append(p.Ops, qOp{Op: "reset"})
			}
		}
		for i := range p.Ops {
			p.Ops[i].Alt = r.Intn(3)
		}
		if r.Pct(15) {
			// "look back" episode at a random place: remember a position, read everything, remember the end, go back,
			// re-read a little, return to the end, then new data arrives and is read
			a, b := r.Intn(3), r.Intn(3)
			for b == a {
				b = r.Intn(3)
			}
			ep := []qOp{{Op: "add", N: 1 + r.Intn(2*body)}, {Op: "save", N: a}, {Op: "bytes", N: r.Intn(3)}, {Op: "toend"}, {Op: "save", N: b},
				{Op: "restore", N: a}, {Op: "bytes", N: 1 + r.Intn(2)}, {Op: "restore", N: b}, {Op: "add", N: 1 + r.Intn(2*body)}, {Op: "bytes", N: 1 + r.Intn(3)}}
			at := r.Intn(len(p.Ops) + 1)
			p.Ops = append(append(append([]qOp{}, p.Ops[:at]...), ep...), p.Ops[at:]...)
		}
	} else {
		p.Side = "send"
		for i := 0; i < n; i++ {
			switch c := r.Intn(100); {
			case c < 40:
				p.Ops = append(p.Ops, qOp{Op: "write", N: r.Intn(3*body + 1)})
			case c < 48:
				p.Ops = append(p.Ops, qOp{Op: "w8"})
			case c < 56:
				p.Ops = append(p.Ops, qOp{Op: "w16"})
			case c < 64:
				p.Ops = append(p.Ops, qOp{Op: "w32"})
			case c < 70:
				p.Ops = append(p.Ops, qOp{Op: "w64"})
			case c < 78:
				p.Ops = append(p.Ops, qOp{Op: "wstr", N: r.Intn(body + 4)})
			case c < 86:
				// fill the open packet exactly (the cursor then sits at the very end of a full packet), usually
				// followed at once by a small typed write
				p.Ops = append(p.Ops, qOp{Op: "wfill"})
				if r.Pct(70) {
					p.Ops = append(p.Ops, qOp{Op: Pick(r, []string{"w8", "w8", "w16", "w32", "w64"})})
				}
			default:
				p.Ops = append(p.Ops, qOp{Op: "size", N: 9 + r.Intn(592)})
			}
		}
		for i := range p.Ops {
			p.Ops[i].Alt = r.Intn(3)
		}
		p.Ops = append(p.Ops, qOp{Op: "readback"})
	}
	return p
}
func (c15) Decode(raw json.RawMessage) (interface{}, error) {
	p := &c15Plan{}
	err := json.Unmarshal(raw, p)
	return p, err
}
func (c15) Shrink(plan interface{}) []interface{} {
	p := plan.(*c15Plan)
	var out []interface{}
	for i := range p.Ops {
		if p.Ops[i].Op == "readback" {
			continue
		}
		q := *p
		q.Enum = false
		q.Ops = append(append([]qOp{}, p.Ops[:i]...), p.Ops[i+1:]...)
		out = append(out, &q)
	}
	for i, o := range p.Ops {
		if o.N > 1 {
			q := *p
			q.Enum = false
			q.Ops = append([]qOp{}, p.Ops...)
			q.Ops[i].N = o.N / 2
			out = append(out, &q)
		}
	}
	return out
}

// layout reads the packets of a queue through reflection (read-only).
func c15Layout(q *tds.PacketQueue) (caps []int, hdr []int) {
	v := reflect.ValueOf(q).Elem().FieldByName("queue")
	for i := 0; i < v.Len(); i++ {
		pk := v.Index(i).Elem()
		caps = append(caps, pk.FieldByName("Data").Len())
		hdr = append(hdr, int(pk.FieldByName("Header").FieldByName("Length").Uint()))
	}
	return
}

func (c15) Run(plan interface{}, schedSeed uint64, replay []simrt.Choice, lenient, keepLog bool) (*Verdict, *simrt.Outcome) {
	p := plan.(*c15Plan)
	v := &Verdict{}
	var viol []string
	crossed := false
	wroteAfterFill := false
	fail := func(class, sig, format string, a ...interface{}) {
		if len(viol) == 0 {
			viol = []string{class, sig, fmt.Sprintf(format, a...)}
		}
	}
	s := simrt.New(simrt.Config{Seed: schedSeed, ColdQueueLocks: p.Side != "send2", Replay: replay, Lenient: lenient, KeepLog: keepLog, MaxSteps: 100000})
	out := s.Run(func() {
		size := p.Size
		q := tds.NewPacketQueue(func() int { return size })
		next := byte(1)
		gen := func(n int) []byte {
			b := make([]byte, n)
			for i := range b {
				b[i] = next
				next = next*5 + 3
			}
			return b
		}
		if p.Side == "send2" {
			writer := func(w, n int) func() {
				return func() {
					for i := 0; i < n; i++ {
						val := uint64(w)<<8 | uint64(i+1)
						var err error
						switch p.Width {
						case 2:
							err = q.WriteUint16(uint16(val))
						case 4:
							err = q.WriteUint32(uint32(val)<<8 | 0x5a)
						default:
							err = q.WriteUint64(val<<40 | 0x5a5a5a5a5a)
						}
						if err != nil {
							fail("write-error", "write returned an error", "writer %d, value %d: %v", w, i+1, err)
						}
					}
				}
			}
			a, b := simrt.Spawn("writer1", writer(1, p.N1)), simrt.Spawn("writer2", writer(2, p.N2))
			simrt.Join(a, b)
			q.SetPosition(0, 0)
			next := map[int]int{1: 1, 2: 1}
			for k := 0; k < p.N1+p.N2 && len(viol) == 0; k++ {
				var val uint64
				var err error
				switch p.Width {
				case 2:
					var x uint16
					x, err = q.Uint16()
					val = uint64(x)
				case 4:
					var x uint32
					x, err = q.Uint32()
					if x&0xff != 0x5a {
						fail("wrong-bytes", "concurrent writers: a value is torn", "value #%d read back as %#x", k, x)
					}
					val = uint64(x >> 8)
				default:
					var x uint64
					x, err = q.Uint64()
					if x&0xffffffffff != 0x5a5a5a5a5a {
						fail("wrong-bytes", "concurrent writers: a value is torn", "value #%d read back as %#x", k, x)
					}
					val = x >> 40
				}
				if err != nil {
					fail("spurious-error", "concurrent writers: written values do not read back", "value #%d of %d: %v", k, p.N1+p.N2, err)
					break
				}
				w, i := int(val>>8), int(val&0xff)
				if (w != 1 && w != 2) || i != next[w] {
					fail("wrong-bytes", "concurrent writers: values lost, duplicated or out of order", "value #%d read back is (writer %d, number %d); expected number %d of writer 1 or %d of writer 2", k, w, i, next[1], next[2])
					break
				}
				next[w]++
			}
			crossed = true
			return
		}
		if p.Side == "recv" {
			var all []byte // bytes of all packets since the last reset/discard point
			pos := 0
			type saved struct {
				pk, data int
				abs      int
			}
			var sv *saved
			var bounds []int // absolute offsets of packet ends
			type keptBytes struct {
				got, want []byte
				op        int
			}
			var kept []keptBytes
			opi := -1
			wrote := false
			expectRead := func(op string, n int, got []byte, err error) {
				if pos+n <= len(all) {
					if err != nil {
						fail("spurious-error", "read of available bytes failed: "+op, "op %s(%d) at offset %d of %d available: error %v", op, n, pos, len(all), err)
						return
					}
					want := all[pos : pos+n]
					if string(got) != string(want) {
						fail("wrong-bytes", "read returned wrong bytes: "+op, "op %s(%d) at offset %d: got %x, want %x", op, n, pos, got, want)
					}
					for _, b := range bounds {
						if b > pos && b < pos+n {
							crossed = true
						}
					}
					pos += n
					return
				}
				if err == nil {
					fail("missing-error", "read beyond the available bytes succeeded: "+op, "op %s(%d) at offset %d with only %d bytes available returned %x and no error", op, n, pos, len(all)-pos, got)
				} else if !errors.Is(err, tds.ErrNotEnoughBytes) {
					fail("wrong-error", "read beyond the end: wrong error: "+op, "op %s(%d): error %v", op, n, err)
				}
				// the cursor is unspecified now: the discipline (the library's own) is to restore the saved position
				q.SetPosition(sv.pk, sv.data)
				pos = sv.abs
			}
			nextNr := p.StartNr
			var slots [3]*saved
			// beforeRead: a read that is going to run out of bytes is only issued with a saved position at hand
			beforeRead := func(n int) {
				if pos+n > len(all) && sv == nil {
					a, b := q.Position()
					sv = &saved{a, b, pos}
				}
			}
			for _, o := range p.Ops {
				opi++
				if len(viol) > 0 {
					return
				}
				switch o.Op {
				case "add":
					b := gen(o.N)
					pk := &tds.Packet{Header: tds.PacketHeader{Length: uint16(8 + len(b)), PacketNr: uint8(nextNr), Channel: 1}, Data: b}
					nextNr++
					if o.EOM {
						pk.Header.Status = tds.TDS_BUFSTAT_EOM
					}
					q.AddPacket(pk)
					all = append(all, b...)
					bounds = append(bounds, len(all))
				case "bytes":
					beforeRead(o.N)
					got, err := q.Bytes(o.N)
					if err == nil && len(got) != o.N {
						fail("wrong-length", "Bytes returned wrong length", "Bytes(%d) returned %d bytes", o.N, len(got))
					}
					expectRead("Bytes", o.N, got, err)
					if err == nil && len(got) > 0 {
						if o.Alt == 1 {
							// the caller owns what it was given: it may overwrite it and append to it
							for i := range got {
								got[i] = 0xEE
							}
							_ = append(got, 0xEE, 0xEE, 0xEE, 0xEE)
						} else {
							kept = append(kept, keptBytes{got, append([]byte{}, got...), opi})
						}
					}
				case "toend":
					if n := len(all) - pos; n > 0 {
						got, err := q.Bytes(n)
						expectRead("Bytes(to the end)", n, got, err)
					}
				case "wrfull":
					if pos == len(all) {
						b := gen(o.N * (p.Size - 8))
						if err := q.WriteBytes(b); err != nil {
							fail("write-error", "write failed", "WriteBytes(%d): %v", len(b), err)
						}
						for k := 0; k < o.N; k++ {
							bounds = append(bounds, len(all)+(k+1)*(p.Size-8))
						}
						all = append(all, b...)
						pos = len(all)
						wrote = true
						for i := range b {
							b[i] = 0xEE // the caller's buffer is the caller's again
						}
					}
				case "toedge":
					for _, b := range bounds {
						if b > pos {
							got, err := q.Bytes(b - pos)
							expectRead("Bytes(to the end of the packet)", b-pos, got, err)
							break
						}
					}
				case "byte":
					beforeRead(1)
					switch o.Alt {
					case 1:
						b, err := q.Uint8()
						expectRead("Uint8", 1, []byte{b}, err)
					case 2:
						b, err := q.Int8()
						expectRead("Int8", 1, []byte{byte(b)}, err)
					default:
						b, err := q.Byte()
						expectRead("Byte", 1, []byte{b}, err)
					}
				case "u16":
					beforeRead(2)
					b := make([]byte, 2)
					if o.Alt == 1 {
						x, err := q.Int16()
						binary.LittleEndian.PutUint16(b, uint16(x))
						expectRead("Int16", 2, b, err)
					} else {
						x, err := q.Uint16()
						binary.LittleEndian.PutUint16(b, x)
						expectRead("Uint16", 2, b, err)
					}
				case "u32":
					beforeRead(4)
					b := make([]byte, 4)
					if o.Alt == 1 {
						x, err := q.Int32()
						binary.LittleEndian.PutUint32(b, uint32(x))
						expectRead("Int32", 4, b, err)
					} else {
						x, err := q.Uint32()
						binary.LittleEndian.PutUint32(b, x)
						expectRead("Uint32", 4, b, err)
					}
				case "u64":
					beforeRead(8)
					b := make([]byte, 8)
					if o.Alt == 1 {
						x, err := q.Int64()
						binary.LittleEndian.PutUint64(b, uint64(x))
						expectRead("Int64", 8, b, err)
					} else {
						x, err := q.Uint64()
						binary.LittleEndian.PutUint64(b, x)
						expectRead("Uint64", 8, b, err)
					}
				case "str":
					beforeRead(o.N)
					x, err := q.String(o.N)
					expectRead("String", o.N, []byte(x), err)
				case "read":
					beforeRead(o.N)
					buf := make([]byte, o.N)
					for i := range buf {
						buf[i] = 0xEE
					}
					n, err := q.Read(buf)
					if err == nil && n != o.N {
						fail("wrong-length", "Read returned wrong count", "Read(%d bytes) returned n=%d", o.N, n)
					}
					expectRead("Read", o.N, buf, err)
				case "save":
					// three independent saved positions (o.N); the latest one is also where a failed read goes back to
					a, b := q.Position()
					sv = &saved{a, b, pos}
					slots[o.N%3] = sv
				case "restore":
					if x := slots[o.N%3]; x != nil {
						q.SetPosition(x.pk, x.data)
						pos = x.abs
					}
				case "discard":
					q.DiscardUntilCurrentPosition()
					all = all[pos:]
					var nb []int
					for _, b := range bounds {
						if b > pos {
							nb = append(nb, b-pos)
						}
					}
					bounds = nb
					pos = 0
					sv, slots = nil, [3]*saved{} // invalidated
				case "reset":
					q.Reset()
					all, pos, sv, bounds, slots = nil, 0, nil, nil, [3]*saved{}
				}
				// with unread bytes the queue may not claim that everything was consumed (nor end-of-message)
				if len(viol) == 0 && pos < len(all) {
					if q.AllPacketsConsumed() {
						fail("wrong-state", "AllPacketsConsumed with unread bytes", "after op %s: %d of %d bytes are unread but AllPacketsConsumed() is true", o.Op, len(all)-pos, len(all))
					} else if q.IsEOM() {
						fail("wrong-state", "IsEOM with unread bytes", "after op %s: %d bytes are unread but IsEOM() is true", o.Op, len(all)-pos)
					}
				}
			}
			_ = wrote
			// what a read returned belongs to the caller: nothing the queue does later may change it
			for _, k := range kept {
				if len(viol) == 0 && string(k.got) != string(k.want) {
					fail("aliased", "bytes returned by a read changed afterwards", "the %d bytes returned by op #%d (Bytes) were %x and are %x after the later operations", len(k.want), k.op, k.want, k.got)
				}
			}
			// finally every unread byte must still be readable
			if len(viol) == 0 && pos < len(all) {
				n := len(all) - pos
				beforeRead(n)
				got, err := q.Bytes(n)
				expectRead("final Bytes", n, got, err)
			}
			return
		}
		// send side
		var written []byte
		var caps []int // model: capacity of every packet opened so far
		fill := 0      // bytes in the last packet
		write := func(b []byte) {
			rest := len(b)
			for rest > 0 {
				if len(caps) == 0 || fill == caps[len(caps)-1] {
					caps = append(caps, size-8)
					fill = 0
					if len(caps) > 1 {
						crossed = true
					}
				}
				k := caps[len(caps)-1] - fill
				if k > rest {
					k = rest
				}
				fill += k
				rest -= k
			}
			written = append(written, b...)
		}
		exactFill := false
		for _, o := range p.Ops {
			if len(viol) > 0 {
				return
			}
			var err error
			if exactFill && o.Op[0] == 'w' {
				wroteAfterFill = true
			}
			exactFill = false
			switch o.Op {
			case "write":
				b := gen(o.N)
				if o.Alt == 1 {
					var n int
					n, err = q.Write(b)
					if err == nil && n != len(b) {
						err = fmt.Errorf("Write(%d bytes) returned n=%d", len(b), n)
					}
				} else {
					err = q.WriteBytes(b)
				}
				write(b)
				// the caller's buffer is the caller's again once the write has returned (io.Writer: "must not retain p")
				for i := range b {
					b[i] = 0xEE
				}
			case "wfill":
				n := size - 8
				if len(caps) > 0 && fill < caps[len(caps)-1] {
					n = caps[len(caps)-1] - fill
				}
				b := gen(n)
				err = q.WriteBytes(b)
				write(b)
				for i := range b {
					b[i] = 0xEE
				}
				exactFill = true
				continue
			case "w8":
				b := gen(1)
				switch o.Alt {
				case 1:
					err = q.WriteInt8(int8(b[0]))
				case 2:
					err = q.WriteByte(b[0])
				default:
					err = q.WriteUint8(b[0])
				}
				write(b)
			case "w16":
				b := gen(2)
				if o.Alt == 1 {
					err = q.WriteInt16(int16(binary.LittleEndian.Uint16(b)))
				} else {
					err = q.WriteUint16(binary.LittleEndian.Uint16(b))
				}
				write(b)
			case "w32":
				b := gen(4)
				if o.Alt == 1 {
					err = q.WriteInt32(int32(binary.LittleEndian.Uint32(b)))
				} else {
					err = q.WriteUint32(binary.LittleEndian.Uint32(b))
				}
				write(b)
			case "w64":
				b := gen(8)
				if o.Alt == 1 {
					err = q.WriteInt64(int64(binary.LittleEndian.Uint64(b)))
				} else {
					err = q.WriteUint64(binary.LittleEndian.Uint64(b))
				}
				write(b)
			case "wstr":
				b := gen(o.N)
				err = q.WriteString(string(b))
				write(b)
			case "size":
				size = o.N
			case "readback":
				gotCaps, hdr := c15Layout(q)
				if fmt.Sprint(gotCaps) != fmt.Sprint(caps) {
					fail("layout", "written data not laid out in full packets of the current size", "packet capacities are %v, the model (each packet filled before the next is opened, sized at opening) has %v", gotCaps, caps)
				}
				for i := range hdr {
					if i < len(gotCaps) && hdr[i] != gotCaps[i]+8 {
						fail("layout", "header length differs from capacity", "packet %d: header length %d, capacity %d", i, hdr[i], gotCaps[i])
					}
				}
				pk, di := q.Position()
				if len(caps) > 0 && fill < caps[len(caps)-1] && (pk != len(caps)-1 || di != fill) {
					fail("layout", "write cursor not at the end of the data", "cursor (%d,%d), model (%d,%d)", pk, di, len(caps)-1, fill)
				}
				q.SetPosition(0, 0)
				// everything but the unfilled rest of the last packet reads back
				got, err := q.Bytes(len(written))
				if len(written) > 0 && fill == caps[len(caps)-1] || len(written) == 0 {
					// last packet exactly full (or nothing written): a clean read
				}
				if string(got) != string(written) {
					fail("wrong-bytes", "written bytes do not read back", "wrote %d bytes, read back differs (err %v): got %x want %x", len(written), err, clipBytes(got), clipBytes(written))
				}
				// and a read beyond what was written reports not-enough-bytes (it does not hand out the unused rest of
				// the last packet)
				if len(viol) == 0 && len(written) > 0 {
					q.SetPosition(0, 0)
					k := 1 + len(written)%3
					more, err2 := q.Bytes(len(written) + k)
					if err2 == nil {
						fail("read-beyond-written", "send side: a read beyond the written bytes succeeded", "wrote %d bytes (last packet holds %d of %d), Bytes(%d) returned %d bytes and no error: the tail is % x", len(written), fill, caps[len(caps)-1], len(written)+k, len(more), clipBytes(more[len(written):]))
					} else if !errors.Is(err2, tds.ErrNotEnoughBytes) {
						fail("wrong-error", "read beyond the end: wrong error: send side", "Bytes(%d) with %d bytes written: error %v", len(written)+k, len(written), err2)
					}
					v.Probe("read-beyond-the-written-bytes")
				}
			}
			if err != nil {
				fail("write-error", "write returned an error", "op %s: %v", o.Op, err)
			}
		}
	})
	StdOutcome(v, out)
	if v.Machinery != "" {
		return v, out
	}
	for _, c := range out.Crashes {
		v.Violate("panic", "panic "+CrashSig(c), "side %s size %d ops %v: panicked: %s\n%s", p.Side, p.Size, p.Ops, c.Value, c.Stack)
	}
	if len(viol) > 0 {
		v.Violate(viol[0], viol[1], "side %s, packet size %d, ops %v: %s", p.Side, p.Size, opsString(p.Ops), viol[2])
	}
	BlockedTasks(v, out, fmt.Sprintf("side %s, packet size %d, ops %v: an operation never returned", p.Side, p.Size, opsString(p.Ops)))
	if crossed {
		v.Nontrivial = p.Side + opsString(p.Ops) + fmt.Sprint(p.Size)
		v.Probe("crossed-packet-boundary")
	}
	if p.Enum {
		v.Probe("enumerated")
	}
	if wroteAfterFill {
		v.Probe("write-at-the-end-of-an-exactly-filled-packet")
	}
	if p.Size == 65535 && len(p.Ops) > 200 {
		v.Probe("read-of-16-MiB")
	}
	v.Probe("side:" + p.Side)
	v.Sample = map[string]interface{}{"side": p.Side, "size": p.Size, "ops": opsString(p.Ops)}
	return v, out
}

func clipBytes(b []byte) []byte {
	if len(b) > 48 {
		return b[:48]
	}
	return b
}

func opsString(ops []qOp) string {
	s := ""
	for _, o := range ops {
		s += o.Op
		if o.N != 0 {
			s += fmt.Sprint(o.N)
		}
		if o.EOM {
			s += "!"
		}
		s += " "
	}
	return s
}

// RequiredProbes: a batch in which one of these never fired explored nothing of that kind (exit 2, not a pass).
func (c15) RequiredProbes() []string {
	return []string{"crossed-packet-boundary", "enumerated", "side:send", "side:recv", "side:send2", "write-at-the-end-of-an-exactly-filled-packet", "read-of-16-MiB"}
}
