package worlds

import (
	"encoding/json"
	"fmt"
	"reflect"
	"sort"
	"strings"
	"time"
	"unsafe"

	"github.com/SAP/go-dblib/namepool"
	"github.com/SAP/go-dblib/zz_verif/simrt"
	"github.com/anishathalye/porcupine"
)

// C18 — pooled names are unique among concurrent holders.

type c18Op struct {
	Op   string `json:"op"`   // acq | relp | reln | reln2 | nil | nilname | hold
	Slot int    `json:"slot"` // which of the task's name variables
	N    int    `json:"n,omitempty"`
}

type c18Plan struct {
	Knobs  Knobs  `json:"knobs"`
	Format string `json:"format"`
	// MoreFormats: further pools of the same process (a task's name variable i belongs to pool i mod #pools).
	MoreFormats []string  `json:"more_formats,omitempty"`
	Progs       [][]c18Op `json:"progs"`
	// Jump > 0: a pool that has been in use for a very long time - the root first acquires Early names (held to the
	// end), then the id counter of every pool is put forward to Jump (through reflection: minting four billion ids
	// one by one is not an option), then the tasks start. Ids stay unique and non-zero however many were minted.
	Jump  uint64 `json:"jump,omitempty"`
	Early int    `json:"early,omitempty"`
}

type c18 struct{}

func init() { Register(c18{}) }

func (c18) ID() string { return "C18" }
func (c18) NRuns(tier string) int {
	if tier == "thorough" {
		return 1500000
	}
	return 20000
}
func (c18) Rule() string {
	return "each run = G tasks (1..8, thorough up to 64) running random programs over Acquire/hold/Release(pool)/Release(name)/double release/Release(nil) on one namepool (20% of the runs: two or three pools in the process, a held name is re-read at every step; 12% wide: each task first holds 6..45 names at once, releases them all, some twice, then continues), sync.Pool replaced by a seeded model with drop-on-put, any-item-on-get and GC-empties-pool faults; non-trivial = at least two tasks held names concurrently or a pooled id was reused; distinct = distinct hash of the (task,site) schedule trace"
}
func (c18) Components() map[string]string {
	return map[string]string{"namepool": "real (rewritten)", "sync.Pool": "stub: simrt.Pool contract model", "sync/atomic": "real atomics behind a scheduling point", "goroutine scheduling": "simulated (simrt baton scheduler)"}
}

var c18Formats = []string{"%d", "stmt%d", "c_%d_x", "%05d", "%x", "noverb", "", "%v", "%d%%", "cursor_%d",
	"load_100%%_%d", "%%%d", "%%d%d", "%d_%d", "%s%d", "%[1]d-%[1]d", "% d", "%+d", "%-6d|", "%q", "tab\t%d", "ünï%d", "%c%d",
	// long formats: the text is the format applied to the id, however long that is
	strings.Repeat("n", 254) + "%d", strings.Repeat("prefix_", 40) + "%d_tail", "%0300d"}

func (c18) Gen(r *Rand, idx int, tier string) interface{} {
	p := &c18Plan{Knobs: GenKnobs(r), Format: Pick(r, c18Formats)}
	if r.Pct(20) {
		for k := 1 + r.Intn(2); k > 0; k-- {
			// the same format in two pools is the interesting case: their names may coincide, their ids are independent
			if r.Bool() {
				p.MoreFormats = append(p.MoreFormats, p.Format)
			} else {
				p.MoreFormats = append(p.MoreFormats, Pick(r, c18Formats))
			}
		}
	}
	maxG := 8
	if tier == "thorough" && r.Pct(10) {
		maxG = 64
	}
	g := 1 + r.Intn(maxG)
	if r.Pct(50) && g > 4 {
		g = 2 + r.Intn(3)
	}
	wide := !r.Pct(88)
	if wide {
		g = 1 + r.Intn(3)
	}
	long := !wide && r.Pct(3)
	if long {
		g = 2 // few holders, many acquisitions: the pool-eviction faults drive the id counter far up
	}
	if !wide && !long && r.Intn(250) == 0 {
		// very many names held at once by one task (more than 1024), a few released and taken again, all released,
		// all taken again: whatever parks released ids has to hold thousands of them
		n := 1030 + r.Intn(300)
		var prog []c18Op
		for i := 0; i < n; i++ {
			prog = append(prog, c18Op{Op: "acq", Slot: i})
		}
		for i := 0; i < 5; i++ {
			prog = append(prog, c18Op{Op: "reln", Slot: i})
		}
		for i := 0; i < 3; i++ {
			prog = append(prog, c18Op{Op: "acq", Slot: i})
		}
		for i := 0; i < n; i++ {
			prog = append(prog, c18Op{Op: Pick(r, []string{"relp", "reln"}), Slot: i})
		}
		for i := 0; i < n; i++ {
			prog = append(prog, c18Op{Op: "acq", Slot: i})
		}
		p.Progs = [][]c18Op{prog}
		p.MoreFormats = nil
		p.Format = Pick(r, []string{"%d", "n%d", "%05d"})
		p.Knobs.Strategy, p.Knobs.TargetSite, p.Knobs.TargetNth = "uniform", 0, 0
		return p
	}
	for t := 0; t < g; t++ {
		n := 2 + r.Intn(10)
		if g > 16 {
			n = 2 + r.Intn(4)
		}
		if long {
			n = 500 + r.Intn(300)
		}
		var prog []c18Op
		slots := 1 + r.Intn(3)
		if wide {
			// many names held at once, all released (some twice), then ordinary traffic over the same variables
			slots = 6 + r.Intn(40)
			for i := 0; i < slots; i++ {
				prog = append(prog, c18Op{Op: "acq", Slot: i})
			}
			for i := 0; i < slots; i++ {
				prog = append(prog, c18Op{Op: Pick(r, []string{"relp", "reln"}), Slot: i})
				if r.Pct(25) {
					prog = append(prog, c18Op{Op: Pick(r, []string{"relp", "reln"}), Slot: r.Intn(i + 1)})
				}
			}
			n = slots
		}
		for i := 0; i < n; i++ {
			s := r.Intn(slots)
			switch c := r.Intn(20); {
			case c < 8:
				prog = append(prog, c18Op{Op: "acq", Slot: s})
			case c < 12:
				prog = append(prog, c18Op{Op: "relp", Slot: s})
			case c < 16:
				prog = append(prog, c18Op{Op: "reln", Slot: s})
			case c < 17:
				prog = append(prog, c18Op{Op: Pick(r, []string{"nil", "nil", "nilname"})})
			default:
				prog = append(prog, c18Op{Op: "hold", N: 1 + r.Intn(3)})
			}
		}
		p.Progs = append(p.Progs, prog)
	}
	if r.Pct(6) {
		p.Jump = Pick(r, []uint64{1<<8 - 2, 1<<15 - 2, 1<<16 - 3, 1<<31 - 2, 1<<32 - 3, 1<<32 - 1, 1<<53 - 1, 1<<63 - 2}) - uint64(r.Intn(3))
		p.Early = 1 + r.Intn(4)
	}
	return p
}

func (c18) Decode(raw json.RawMessage) (interface{}, error) {
	p := &c18Plan{}
	err := json.Unmarshal(raw, p)
	return p, err
}

func (c18) Shrink(plan interface{}) []interface{} {
	p := plan.(*c18Plan)
	var out []interface{}
	// drop a task
	for i := range p.Progs {
		if len(p.Progs) > 1 {
			q := *p
			q.Progs = append(append([][]c18Op{}, p.Progs[:i]...), p.Progs[i+1:]...)
			out = append(out, &q)
		}
	}
	// drop an op
	for i := range p.Progs {
		for j := range p.Progs[i] {
			q := *p
			q.Progs = append([][]c18Op{}, p.Progs...)
			q.Progs[i] = append(append([]c18Op{}, p.Progs[i][:j]...), p.Progs[i][j+1:]...)
			out = append(out, &q)
		}
	}
	if p.Format != "%d" {
		q := *p
		q.Format = "%d"
		out = append(out, &q)
	}
	if p.Early > 1 {
		q := *p
		q.Early--
		out = append(out, &q)
	}
	return out
}

// c18SetCounter puts the id counter of a pool forward (field idCounter: an unsigned integer or a sync/atomic
// integer type). The value is stored modulo the width of the field - that is what the counter would hold after so
// many increments. It returns false if the pool has no such field (the probe then stays at zero).
func c18SetCounter(pl interface{}, to uint64) bool {
	rv := reflect.ValueOf(pl)
	if rv.Kind() != reflect.Ptr || rv.Elem().Kind() != reflect.Struct {
		return false
	}
	f := rv.Elem().FieldByName("idCounter")
	if !f.IsValid() {
		return false
	}
	if f.Kind() == reflect.Struct && f.NumField() > 0 {
		f = f.Field(f.NumField() - 1) // atomic.Uint32 / atomic.Uint64: the value is the last field
	}
	if !f.CanAddr() {
		return false
	}
	ptr := unsafe.Pointer(f.UnsafeAddr())
	switch f.Kind() {
	case reflect.Uint64, reflect.Int64, reflect.Uint, reflect.Int, reflect.Uintptr:
		*(*uint64)(ptr) = to
	case reflect.Uint32, reflect.Int32:
		*(*uint32)(ptr) = uint32(to)
	case reflect.Uint16, reflect.Int16:
		*(*uint16)(ptr) = uint16(to)
	default:
		return false
	}
	return true
}

type c18Hold struct {
	id       uint64
	text     string
	from, to int // event seq: acquire returned, release invoked (to<0: never released)
	task     string
	acqCall  int
	relRet   int
	pool     int
}

func (c18) Run(plan interface{}, schedSeed uint64, replay []simrt.Choice, lenient, keepLog bool) (*Verdict, *simrt.Outcome) {
	p := plan.(*c18Plan)
	cfg := p.Knobs.Config(schedSeed)
	cfg.Replay, cfg.Lenient, cfg.KeepLog = replay, lenient, keepLog
	s := simrt.New(cfg)
	v := &Verdict{}

	type taskRes struct {
		holds []*c18Hold
		errs  []string
	}
	res := make([]*taskRes, len(p.Progs))
	for i := range res {
		res[i] = &taskRes{}
	}
	early := &taskRes{}
	jumped := false

	out := s.Run(func() {
		type namePool interface {
			Acquire() *namepool.Name
			Release(*namepool.Name)
		}
		formats := append([]string{p.Format}, p.MoreFormats...)
		var pools []namePool
		for _, f := range formats {
			pools = append(pools, namepool.Pool(f))
		}
		pool := pools[0]
		var ts []*simrt.Task
		if p.Jump > 0 {
			for i := 0; i < p.Early; i++ {
				call := simrt.Record("acq-call", "", "", 0)
				n := pool.Acquire()
				h := &c18Hold{id: n.ID(), text: n.Name(), task: "root", to: -1, acqCall: call, pool: 0}
				h.from = simrt.Record("acq-ret", h.text, "", int64(h.id))
				early.holds = append(early.holds, h)
			}
			for _, pl := range pools {
				if c18SetCounter(pl, p.Jump) {
					jumped = true
				}
			}
		}
		for ti := range p.Progs {
			ti := ti
			ts = append(ts, simrt.Spawn(fmt.Sprintf("c%d", ti), func() {
				tr := res[ti]
				names := map[int]*namepool.Name{}
				live := map[int]*c18Hold{}
				// a held name keeps its id and text whatever the other holders do
				checkHeld := func() {
					for slot, h := range live {
						if h.to >= 0 || names[slot] == nil {
							continue
						}
						if id, text := names[slot].ID(), names[slot].Name(); id != h.id || text != h.text {
							tr.errs = append(tr.errs, fmt.Sprintf("a held name changed: acquired as id %d %q, now id %d %q", h.id, h.text, id, text))
							h.id, h.text = id, text
						}
					}
				}
				release := func(slot int, viaPool bool) {
					n := names[slot]
					if n == nil {
						return
					}
					checkHeld()
					pool := pools[slot%len(pools)]
					h := live[slot]
					seq := simrt.Record("rel-call", "", "", 0)
					if h != nil && h.to < 0 {
						h.to = seq
					}
					if viaPool {
						pool.Release(n)
					} else {
						n.Release()
					}
					r := simrt.Record("rel-ret", "", "", 0)
					if h != nil && h.relRet == 0 {
						h.relRet = r
					}
					if n.Name() != "" || n.String() != "" {
						tr.errs = append(tr.errs, fmt.Sprintf("released name not cleared: %q", n.Name()))
					} else if *n != (namepool.Name{}) {
						tr.errs = append(tr.errs, "released name not cleared: text empty but id or pool still set")
					}
				}
				for _, op := range p.Progs[ti] {
					switch op.Op {
					case "acq":
						if old := live[op.Slot]; old != nil && old.to < 0 {
							// overwriting a held name without releasing it: it simply stays held forever
							_ = old
						}
						call := simrt.Record("acq-call", "", "", 0)
						n := pools[op.Slot%len(pools)].Acquire()
						id := n.ID()
						h := &c18Hold{id: id, text: n.Name(), task: fmt.Sprintf("c%d", ti), to: -1, acqCall: call, pool: op.Slot % len(pools)}
						h.from = simrt.Record("acq-ret", h.text, "", int64(id))
						if n.String() != n.Name() {
							tr.errs = append(tr.errs, "String() != Name()")
						}
						tr.holds = append(tr.holds, h)
						names[op.Slot] = n
						live[op.Slot] = h
					case "relp":
						release(op.Slot, true)
					case "reln":
						release(op.Slot, false)
					case "nil":
						pool.Release(nil)
					case "nilname":
						// releasing nil through the name's own method
						var none *namepool.Name
						none.Release()
					case "hold":
						for i := 0; i < op.N; i++ {
							simrt.Yield(0)
							checkHeld()
						}
					}
				}
			}))
		}
		simrt.Join(ts...)
	})

	StdOutcome(v, out)
	if v.Machinery != "" {
		return v, out
	}
	for _, c := range out.Crashes {
		v.Violate("panic", "panic "+CrashSig(c), "task %s panicked: %s\n%s", c.Task, c.Value, c.Stack)
	}
	if len(out.Parked) > 0 && !out.Budget {
		v.Violate("deadlock", "deadlock "+ParkSig(out, Sites), "tasks never finished: %v", out.Parked)
	}
	if out.Races > 0 {
		v.Violate("race", "race", "the race detector reported %d race(s) on this schedule", out.Races)
	}

	if jumped {
		v.Probe("id-counter-put-forward")
	}
	var all []*c18Hold
	for _, tr := range append(res, early) {
		for _, e := range tr.errs {
			v.Violate("wrong-value", "name-state", "%s", e)
		}
		all = append(all, tr.holds...)
	}
	sort.Slice(all, func(i, j int) bool { return all[i].from < all[j].from })
	const inf = int(^uint(0) >> 1)
	end := func(h *c18Hold) int {
		if h.to < 0 {
			return inf
		}
		return h.to
	}
	concurrent := false
	reused := false
	seen := map[[2]uint64]bool{}
	for i, a := range all {
		if a.id == 0 {
			v.Violate("wrong-value", "id-zero", "Acquire returned id 0 (text %q)", a.text)
		}
		formats := append([]string{p.Format}, p.MoreFormats...)
		if want := fmt.Sprintf(formats[a.pool], a.id); a.text != want {
			v.Violate("wrong-value", "text-mismatch", "name text %q is not format %q applied to id %d (%q)", a.text, formats[a.pool], a.id, want)
		}
		if seen[[2]uint64{uint64(a.pool), a.id}] {
			reused = true
		}
		seen[[2]uint64{uint64(a.pool), a.id}] = true
		for _, b := range all[i+1:] {
			if b.from >= end(a) || b.pool != a.pool {
				continue
			}
			// a and b overlap
			if a.task != b.task {
				concurrent = true
			}
			if a.id == b.id {
				v.Violate("duplicate-id", "duplicate-id", "id %d held by %s (events %d..%d) and by %s (events %d..%d) at the same time",
					a.id, a.task, a.from, a.to, b.task, b.from, b.to)
			} else if a.text == b.text && fmt.Sprintf(formats[a.pool], a.id) != fmt.Sprintf(formats[a.pool], b.id) {
				// (a format that maps both ids to the same text - %c or %q of numbers that are no code points -
				// leaves no choice: the text must be the format applied to the id)
				v.Violate("duplicate-text", "duplicate-text", "text %q held twice at the same time (ids %d, %d)", a.text, a.id, b.id)
			}
		}
	}

	// porcupine: linearizability against "set of live ids"
	if v.Class == "" && len(all) > 0 && len(all) <= 60 && len(p.MoreFormats) == 0 {
		type in struct {
			acquire bool
			id      uint64
		}
		var ops []porcupine.Operation
		maxSeq := 0
		for _, h := range all {
			if h.from > maxSeq {
				maxSeq = h.from
			}
			if h.relRet > maxSeq {
				maxSeq = h.relRet
			}
		}
		for i, h := range all {
			ops = append(ops, porcupine.Operation{ClientId: i % 64, Input: in{true, 0}, Call: int64(h.acqCall), Output: h.id, Return: int64(h.from)})
			if h.to >= 0 {
				ret := h.relRet
				if ret == 0 {
					ret = maxSeq + 1
				}
				ops = append(ops, porcupine.Operation{ClientId: i % 64, Input: in{false, h.id}, Call: int64(h.to), Output: uint64(0), Return: int64(ret)})
			}
		}
		model := porcupine.Model{
			Init: func() interface{} { return map[uint64]bool{} },
			Step: func(state, input, output interface{}) (bool, interface{}) {
				st := state.(map[uint64]bool)
				i := input.(in)
				if i.acquire {
					id := output.(uint64)
					if st[id] || id == 0 {
						return false, st
					}
					ns := make(map[uint64]bool, len(st)+1)
					for k := range st {
						ns[k] = true
					}
					ns[id] = true
					return true, ns
				}
				ns := make(map[uint64]bool, len(st))
				for k := range st {
					if k != i.id {
						ns[k] = true
					}
				}
				return true, ns
			},
			Equal: func(a, b interface{}) bool {
				x, y := a.(map[uint64]bool), b.(map[uint64]bool)
				if len(x) != len(y) {
					return false
				}
				for k := range x {
					if !y[k] {
						return false
					}
				}
				return true
			},
		}
		switch porcupine.CheckOperationsTimeout(model, ops, 10*time.Second) {
		case porcupine.Illegal:
			v.Violate("not-linearizable", "not-linearizable", "history of %d operations is not linearizable against the live-id-set model", len(ops))
		case porcupine.Unknown:
			v.Probe("porcupine-unknown")
		default:
			v.Probe("porcupine-ok")
		}
	}

	ps := s.PoolStats()
	v.ProbeN("pool-get", ps.Gets)
	v.ProbeN("pool-put", ps.Puts)
	v.ProbeN("fault:pool-drop-on-put", ps.Drops)
	v.ProbeN("fault:pool-gc-empties", ps.GCs)
	v.ProbeN("pool-reuse", ps.Reuses)
	if concurrent {
		v.Probe("concurrent-holders")
	}
	if reused {
		v.Probe("id-reused")
	}
	if concurrent || reused {
		v.Nontrivial = fmt.Sprintf("%016x", out.LogHash)
	}
	if len(all) > 0 {
		maxLive := 0
		for _, a := range all {
			n := 0
			for _, b := range all {
				if b.from <= a.from && end(b) > a.from {
					n++
				}
			}
			if n > maxLive {
				maxLive = n
			}
		}
		if maxLive > 16 {
			v.Probe("more-than-16-held-at-once")
		}
		if maxLive > 40 {
			v.Probe("more-than-40-held-at-once")
		}
	}
	v.Sample = map[string]interface{}{"format": p.Format, "tasks": len(p.Progs), "holds": len(all), "steps": out.Steps}
	return v, out
}

// RequiredProbes: a batch in which one of these never fired explored nothing of that kind (exit 2, not a pass).
func (c18) RequiredProbes() []string {
	return []string{"concurrent-holders", "id-reused", "fault:pool-gc-empties?pool-get", "fault:pool-drop-on-put?pool-get", "porcupine-ok"}
}
