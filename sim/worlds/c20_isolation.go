package worlds

import (
	"database/sql"
	"encoding/json"
	"fmt"
	"math"

	dblib "github.com/SAP/go-dblib"
	"github.com/SAP/go-dblib/zz_verif/simrt"
)

// C20 — isolation level mapping is a deterministic, consistent function.
//
// The only nondeterminism is map iteration order; the rewriter put it behind
// simrt.MapKeys, whose permutation is a Fisher-Yates shuffle driven by the
// choice stream. One run = one iteration order pi (given as its Fisher-Yates
// choice digits); every call in the run first uses the canonical order and
// then pi, and both must give the same answers.

type c20Plan struct {
	Order  int   `json:"order"`  // index into the mixed-radix space of Fisher-Yates choice sequences
	Digits []int `json:"digits"` // the choices (n = len+1 keys): digit i is drawn from [0, len+1-i)
	NKeys  int   `json:"nkeys"`
	// CallSeed orders the evaluations of a run (every call is made twice, at shuffled positions): the answers may
	// not depend on what was evaluated before - in this run or, one run being one process, in this process.
	CallSeed uint64 `json:"call_seed"`
	// Tasks is the number of tasks of the concurrent execution.
	Tasks int `json:"tasks"`
	// ConcFirst: the concurrent execution is the first thing the process does (a lazily built table is then
	// built under contention).
	ConcFirst bool  `json:"conc_first,omitempty"`
	Knobs     Knobs `json:"knobs"`
}

type c20 struct{}

func init() { Register(c20{}) }

const c20Keys = 7

func (c20) ID() string { return "C20" }
func (c20) NRuns(tier string) int {
	if tier == "thorough" {
		return 5040 * 4 // every order with four call orders / schedules
	}
	return 720
}
func (c20) Rule() string {
	return "one run = one fresh worker process and one iteration order of the 7-key level map (orders enumerated as Fisher-Yates choice sequences, without replacement; thorough = all 5040, four runs each = exhaustive over orders); each run evaluates sql levels -8..64 (and values around +-2^8, 2^16, 2^31, 2^32 and the extremes) forward and ASE levels -3..8 (and the same outliers) backward, every call twice at seeded shuffled positions, (1) under the canonical map order, (2) under the run's order, (3) from 2..4 concurrent tasks under a seeded schedule and the race detector (in every second run this comes first, so that whatever the process builds lazily is built under contention); all answers for one input must agree and match the statement's table; non-trivial = order differs from canonical; distinct = distinct (order, call seed)"
}
func (c20) Components() map[string]string {
	return map[string]string{"isolationlevels.go": "real (rewritten)", "map iteration order": "stub: simrt.MapKeys seeded permutation", "goroutine scheduling": "simulated (simrt baton scheduler) in the concurrent execution", "process": "real: one OS process per run"}
}

func c20Digits(order int) []int {
	// digits for i = n-1 .. 1, radix i+1
	d := make([]int, 0, c20Keys-1)
	for i := c20Keys - 1; i >= 1; i-- {
		d = append(d, order%(i+1))
		order /= i + 1
	}
	return d
}

func (c20) Gen(r *Rand, idx int, tier string) interface{} {
	order := idx % 5040
	if tier != "thorough" {
		order = (idx*7 + idx%7) % 5040
	}
	return &c20Plan{Order: order, Digits: c20Digits(order), NKeys: c20Keys, CallSeed: r.Uint64(), Tasks: 2 + r.Intn(3), Knobs: GenKnobs(r), ConcFirst: idx%2 == 1}
}

func (c20) Decode(raw json.RawMessage) (interface{}, error) {
	p := &c20Plan{}
	err := json.Unmarshal(raw, p)
	return p, err
}

func (c20) Shrink(plan interface{}) []interface{} { return nil }
func (c20) Exhaustive(tier string) bool           { return tier == "thorough" }

func (c20) Run(plan interface{}, schedSeed uint64, replay []simrt.Choice, lenient, keepLog bool) (*Verdict, *simrt.Outcome) {
	p := plan.(*c20Plan)
	v := &Verdict{}

	// the calls of a run: kind f = FromGo (+ ToGo of the result), t = ToGo, s = String
	type call struct {
		kind byte
		x    int
	}
	type answer struct {
		c   call
		ans string
		who string
	}
	var calls []call
	for rep := 0; rep < 2; rep++ {
		for x := -8; x <= 64; x++ {
			calls = append(calls, call{'f', x})
		}
		for l := -3; l <= 8; l++ {
			calls = append(calls, call{'t', l}, call{'s', l})
		}
		// values that a table indexed by a narrower integer type would fold onto valid levels
		for _, base := range []int{1 << 8, 1 << 16, 1 << 31, 1 << 32, -(1 << 8), -(1 << 16), -(1 << 31), -(1 << 32)} {
			for k := 0; k <= 7; k++ {
				calls = append(calls, call{'f', base + k}, call{'t', base + k}, call{'s', base + k})
			}
		}
		for _, x := range []int{math.MaxInt64, math.MinInt64, math.MaxInt32, math.MinInt32} {
			calls = append(calls, call{'f', x}, call{'t', x}, call{'s', x})
		}
	}
	cr := NewRand(p.CallSeed)
	for i := len(calls) - 1; i > 0; i-- {
		j := cr.Intn(i + 1)
		calls[i], calls[j] = calls[j], calls[i]
	}
	do := func(c call) string {
		switch c.kind {
		case 'f':
			l, err := dblib.ASEIsolationLevelFromGo(sql.IsolationLevel(c.x))
			if err != nil {
				if l != dblib.ASELevelInvalid {
					return fmt.Sprintf("error+level%d", int(l))
				}
				return "error"
			}
			return fmt.Sprintf("%d back=%d", int(l), int(l.ToGo()))
		case 't':
			return fmt.Sprint(int(dblib.ASEIsolationLevel(c.x).ToGo()))
		default:
			return fmt.Sprintf("%q", dblib.ASEIsolationLevel(c.x).String())
		}
	}
	eval := func(who string, rot int, yield bool) []answer {
		out := make([]answer, 0, len(calls))
		for i := range calls {
			c := calls[(i+rot)%len(calls)]
			out = append(out, answer{c, do(c), who})
			if yield {
				simrt.Yield(0)
			}
		}
		return out
	}

	// Three simulated executions: the canonical map order (Fisher-Yates choices that never swap), the run's
	// order (the choice tape is the order's digit sequence, cycled for every map iteration), and a concurrent one.
	tape := func(identity bool) []simrt.Choice {
		var t []simrt.Choice
		for i, d := range p.Digits {
			n := p.NKeys - i
			if identity {
				d = n - 1
			}
			t = append(t, simrt.Choice{N: n, C: d})
		}
		return t
	}
	var ref, got []answer
	var out1, out2, out *simrt.Outcome
	conc := make([][]answer, p.Tasks)
	sequential := func() {
		s1 := simrt.New(simrt.Config{Seed: schedSeed, Replay: tape(true), Lenient: true, Cycle: true})
		out1 = s1.Run(func() { ref = eval("canonical order", 0, false) })
		s2 := simrt.New(simrt.Config{Seed: schedSeed, Replay: tape(false), Lenient: true, Cycle: true})
		out2 = s2.Run(func() { got = eval("run's order", 0, false) })
	}
	concurrent := func() {
		cfg := p.Knobs.Config(schedSeed)
		cfg.Replay, cfg.Lenient, cfg.KeepLog = replay, lenient, keepLog
		s3 := simrt.New(cfg)
		out = s3.Run(func() {
			var ts []*simrt.Task
			for ti := 0; ti < p.Tasks; ti++ {
				ti := ti
				ts = append(ts, simrt.Spawn(fmt.Sprintf("t%d", ti), func() {
					conc[ti] = eval(fmt.Sprintf("concurrent task %d", ti), ti*37, true)
				}))
			}
			simrt.Join(ts...)
		})
	}
	if p.ConcFirst {
		concurrent()
		sequential()
	} else {
		sequential()
		concurrent()
	}
	StdOutcome(v, out1)
	StdOutcome(v, out2)
	StdOutcome(v, out)
	if v.Machinery != "" {
		return v, out
	}
	for _, o := range []*simrt.Outcome{out1, out2, out} {
		for _, c := range o.Crashes {
			v.Violate("panic", "panic "+CrashSig(c), "panicked: %s\n%s", c.Value, c.Stack)
		}
	}
	if len(out.Parked) > 0 && !out.Budget {
		v.Violate("deadlock", "deadlock "+ParkSig(out, Sites), "concurrent evaluation never finished: %v", out.Parked)
	}
	if out.Races > 0 {
		v.Violate("race", "race", "the race detector reported %d data race(s) between concurrent translations", out.Races)
	}
	if v.Class != "" || ref == nil || got == nil {
		return v, out
	}

	// forward mapping, as the statement gives it
	want := map[int]string{
		int(sql.LevelDefault):         fmt.Sprint(int(dblib.ASELevelReadCommitted)),
		int(sql.LevelReadUncommitted): fmt.Sprint(int(dblib.ASELevelReadUncommitted)),
		int(sql.LevelReadCommitted):   fmt.Sprint(int(dblib.ASELevelReadCommitted)),
		int(sql.LevelRepeatableRead):  fmt.Sprint(int(dblib.ASELevelRepeatableRead)),
		int(sql.LevelSerializable):    fmt.Sprint(int(dblib.ASELevelSerializableRead)),
	}
	levels := map[string]bool{}
	for _, w := range want {
		levels[w] = true
	}
	if len(levels) != 4 {
		v.Violate("wrong-value", "ase-levels-not-distinct", "the four ASE levels are not four distinct values: %v", want)
	}
	all := append(append([]answer{}, ref...), got...)
	for _, c := range conc {
		all = append(all, c...)
	}
	first := map[call]answer{}
	for _, a := range all {
		kind := map[byte]string{'f': "FromGo", 't': "ToGo", 's': "String"}[a.c.kind]
		if f, seen := first[a.c]; !seen {
			first[a.c] = a
		} else if f.ans != a.ans {
			cls := "inconsistent"
			if f.who == "canonical order" && a.who == "run's order" {
				cls = "order-dependent"
			}
			v.Violate(cls, fmt.Sprintf("%s %s %d", cls, kind, a.c.x), "%s(%d) = %s (%s) but %s (%s); map order %v, call seed %d", kind, a.c.x, f.ans, f.who, a.ans, a.who, p.Digits, p.CallSeed)
		}
		if a.c.kind != 'f' {
			continue
		}
		w, supported := want[a.c.x]
		switch {
		case !supported:
			if a.ans != "error" {
				v.Violate("wrong-value", fmt.Sprintf("forward sql=%d", a.c.x), "ASEIsolationLevelFromGo(%d) = %s, want an error (%s)", a.c.x, a.ans, a.who)
			}
		case a.c.x == int(sql.LevelDefault):
			if a.ans != w+" back="+fmt.Sprint(int(sql.LevelReadCommitted)) {
				v.Violate("wrong-value", fmt.Sprintf("forward sql=%d", a.c.x), "ASEIsolationLevelFromGo(default) = %s, want level %s which translates back to read committed (%s)", a.ans, w, a.who)
			}
		default:
			if a.ans != fmt.Sprintf("%s back=%d", w, a.c.x) {
				cls, sig := "wrong-value", fmt.Sprintf("forward sql=%d", a.c.x)
				if len(a.ans) > len(w) && a.ans[:len(w)+1] == w+" " {
					cls, sig = "roundtrip", fmt.Sprintf("roundtrip sql=%d", a.c.x)
				}
				v.Violate(cls, sig, "ASEIsolationLevelFromGo(%d) and back = %s, want level %s and back=%d (%s; map order %v)", a.c.x, a.ans, w, a.c.x, a.who, p.Digits)
			}
		}
	}
	nontrivial := false
	for i, d := range p.Digits {
		if d != p.NKeys-i-1 {
			nontrivial = true
		}
	}
	if nontrivial {
		v.Nontrivial = fmt.Sprintf("%d|%d", p.Order, p.CallSeed)
	}
	v.ProbeN("map-iterations", len(out2.Tape)/len(p.Digits))
	v.ProbeN("concurrent-evaluations", len(conc)*len(calls))
	v.Sample = map[string]interface{}{"order": p.Order, "digits": p.Digits, "tasks": p.Tasks, "calls": len(all)}
	return v, out
}
