package worlds

import (
	"database/sql"
	"encoding/json"
	"fmt"

	dblib "github.com/SAP/go-dblib"
	"github.com/SAP/go-dblib/zz_verif/simrt"
)

// C20 — isolation level mapping is a deterministic, consistent function.
//
// The only nondeterminism is map iteration order; the rewriter put it behind
// simrt.MapKeys, whose permutation is a Fisher-Yates shuffle driven by the
// choice stream. One run = one iteration order pi (given as its Fisher-Yates
// choice digits); every call in the run first uses the canonical order and
// then pi, and both must give the same answers.

type c20Plan struct {
	Order  int   `json:"order"`  // index into the mixed-radix space of Fisher-Yates choice sequences
	Digits []int `json:"digits"` // the choices (n = len+1 keys): digit i is drawn from [0, len+1-i)
	NKeys  int   `json:"nkeys"`
}

type c20 struct{}

func init() { Register(c20{}) }

const c20Keys = 7

func (c20) ID() string { return "C20" }
func (c20) NRuns(tier string) int {
	if tier == "thorough" {
		return 5040
	}
	return 720
}
func (c20) Rule() string {
	return "one run per iteration order of the 7-key level map (orders enumerated as Fisher-Yates choice sequences, without replacement; thorough = all 5040 = exhaustive); each run evaluates sql levels -8..64 forward and ASE levels -3..8 backward under the canonical order and under the run's order; non-trivial = order differs from canonical; distinct = distinct order"
}
func (c20) Components() map[string]string {
	return map[string]string{"isolationlevels.go": "real (rewritten)", "map iteration order": "stub: simrt.MapKeys seeded permutation"}
}

func c20Digits(order int) []int {
	// digits for i = n-1 .. 1, radix i+1
	d := make([]int, 0, c20Keys-1)
	for i := c20Keys - 1; i >= 1; i-- {
		d = append(d, order%(i+1))
		order /= i + 1
	}
	return d
}

func (c20) Gen(r *Rand, idx int, tier string) interface{} {
	order := idx
	if tier != "thorough" {
		order = (idx*7 + idx%7) % 5040
	}
	return &c20Plan{Order: order, Digits: c20Digits(order), NKeys: c20Keys}
}

func (c20) Decode(raw json.RawMessage) (interface{}, error) {
	p := &c20Plan{}
	err := json.Unmarshal(raw, p)
	return p, err
}

func (c20) Shrink(plan interface{}) []interface{} { return nil }
func (c20) Exhaustive(tier string) bool           { return tier == "thorough" }

func (c20) Run(plan interface{}, schedSeed uint64, replay []simrt.Choice, lenient, keepLog bool) (*Verdict, *simrt.Outcome) {
	p := plan.(*c20Plan)
	v := &Verdict{}

	type answers struct {
		fwd    map[int]string
		toGo   map[int]int
		str    map[int]string
		rt     map[int]int
		nCalls int
	}
	eval := func() *answers {
		a := &answers{fwd: map[int]string{}, toGo: map[int]int{}, str: map[int]string{}, rt: map[int]int{}}
		for x := -8; x <= 64; x++ {
			l, err := dblib.ASEIsolationLevelFromGo(sql.IsolationLevel(x))
			if err != nil {
				a.fwd[x] = "error"
				if l != dblib.ASELevelInvalid {
					a.fwd[x] = fmt.Sprintf("error+level%d", int(l))
				}
			} else {
				a.fwd[x] = fmt.Sprintf("%d", int(l))
				a.rt[x] = int(l.ToGo())
				a.nCalls++
			}
		}
		for l := -3; l <= 8; l++ {
			a.toGo[l] = int(dblib.ASEIsolationLevel(l).ToGo())
			a.str[l] = dblib.ASEIsolationLevel(l).String()
			a.nCalls += 2
		}
		return a
	}

	// Two simulated executions: the canonical order (Fisher-Yates choices that never swap) and the run's
	// order. The choice tape is the order's digit sequence, cycled for every map iteration of the run.
	tape := func(identity bool) []simrt.Choice {
		var t []simrt.Choice
		for i, d := range p.Digits {
			n := p.NKeys - i
			if identity {
				d = n - 1
			}
			t = append(t, simrt.Choice{N: n, C: d})
		}
		return t
	}
	var ref, got *answers
	s1 := simrt.New(simrt.Config{Seed: schedSeed, Replay: tape(true), Lenient: true, Cycle: true})
	out1 := s1.Run(func() { ref = eval() })
	s2 := simrt.New(simrt.Config{Seed: schedSeed, Replay: tape(false), Lenient: true, Cycle: true, KeepLog: keepLog})
	out := s2.Run(func() { got = eval() })
	StdOutcome(v, out1)
	StdOutcome(v, out)
	if v.Machinery != "" {
		return v, out
	}
	for _, o := range []*simrt.Outcome{out1, out} {
		for _, c := range o.Crashes {
			v.Violate("panic", "panic "+CrashSig(c), "panicked: %s\n%s", c.Value, c.Stack)
		}
	}
	if v.Class != "" || ref == nil || got == nil {
		return v, out
	}

	// forward mapping, as the statement gives it
	want := map[int]string{
		int(sql.LevelDefault):         fmt.Sprint(int(dblib.ASELevelReadCommitted)),
		int(sql.LevelReadUncommitted): fmt.Sprint(int(dblib.ASELevelReadUncommitted)),
		int(sql.LevelReadCommitted):   fmt.Sprint(int(dblib.ASELevelReadCommitted)),
		int(sql.LevelRepeatableRead):  fmt.Sprint(int(dblib.ASELevelRepeatableRead)),
		int(sql.LevelSerializable):    fmt.Sprint(int(dblib.ASELevelSerializableRead)),
	}
	levels := map[string]bool{}
	for _, w := range want {
		levels[w] = true
	}
	if len(levels) != 4 {
		v.Violate("wrong-value", "ase-levels-not-distinct", "the four ASE levels are not four distinct values: %v", want)
	}
	for _, a := range []*answers{ref, got} {
		for x := -8; x <= 64; x++ {
			w, supported := want[x]
			if !supported {
				w = "error"
			}
			if a.fwd[x] != w {
				v.Violate("wrong-value", fmt.Sprintf("forward sql=%d", x), "ASEIsolationLevelFromGo(%d) = %s, want %s (order %v)", x, a.fwd[x], w, p.Digits)
			}
		}
		// there and back for supported non-default levels
		for x, back := range a.rt {
			if x != int(sql.LevelDefault) && back != x {
				v.Violate("roundtrip", fmt.Sprintf("roundtrip sql=%d", x), "ToGo(FromGo(%d)) = %d under iteration order %v", x, back, p.Digits)
			}
		}
	}
	// backward mapping and printing: one answer per level whatever the iteration order
	for l := -3; l <= 8; l++ {
		if ref.toGo[l] != got.toGo[l] {
			v.Violate("order-dependent", fmt.Sprintf("ToGo ase=%d", l), "ASEIsolationLevel(%d).ToGo() = %d under the canonical map order but %d under order %v", l, ref.toGo[l], got.toGo[l], p.Digits)
		}
		if ref.str[l] != got.str[l] {
			v.Violate("order-dependent", fmt.Sprintf("String ase=%d", l), "ASEIsolationLevel(%d).String() = %q under the canonical map order but %q under order %v", l, ref.str[l], got.str[l], p.Digits)
		}
	}
	nontrivial := false
	for i, d := range p.Digits {
		if d != p.NKeys-i-1 {
			nontrivial = true
		}
	}
	if nontrivial {
		v.Nontrivial = fmt.Sprint(p.Order)
	}
	v.ProbeN("map-iterations", len(out.Tape)/len(p.Digits))
	v.Sample = map[string]interface{}{"order": p.Order, "digits": p.Digits, "toGo": got.toGo}
	return v, out
}
