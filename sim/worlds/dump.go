package worlds

import (
	"fmt"
	"reflect"
	"sort"
	"strings"
	"time"
	"unsafe"
)

// Dump renders any value canonically: pointers are followed, unexported
// fields are read, bytes.Buffer prints as its unread bytes, maps are sorted.
// Two packages decoded from the same bytes along the same code path have
// equal dumps; no addresses appear in the output.
func Dump(x interface{}) string {
	var b strings.Builder
	d := dumper{b: &b, path: map[uintptr]bool{}}
	d.val(reflect.ValueOf(x), 0)
	return b.String()
}

type dumper struct {
	b    *strings.Builder
	path map[uintptr]bool
}

var timeType = reflect.TypeOf(time.Time{})

func (d *dumper) val(v reflect.Value, depth int) {
	b := d.b
	if !v.IsValid() {
		b.WriteString("nil")
		return
	}
	if depth > 24 {
		b.WriteString("<deep>")
		return
	}
	switch v.Kind() {
	case reflect.Bool:
		fmt.Fprintf(b, "%v", v.Bool())
	case reflect.Int, reflect.Int8, reflect.Int16, reflect.Int32, reflect.Int64:
		fmt.Fprintf(b, "%d", v.Int())
	case reflect.Uint, reflect.Uint8, reflect.Uint16, reflect.Uint32, reflect.Uint64, reflect.Uintptr:
		fmt.Fprintf(b, "%d", v.Uint())
	case reflect.Float32, reflect.Float64:
		fmt.Fprintf(b, "%v", v.Float())
	case reflect.Complex64, reflect.Complex128:
		fmt.Fprintf(b, "%v", v.Complex())
	case reflect.String:
		fmt.Fprintf(b, "%q", v.String())
	case reflect.Ptr:
		if v.IsNil() {
			b.WriteString("nil")
			return
		}
		p := v.Pointer()
		if d.path[p] {
			b.WriteString("<cycle>")
			return
		}
		d.path[p] = true
		b.WriteString("&")
		d.val(v.Elem(), depth+1)
		delete(d.path, p)
	case reflect.Interface:
		if v.IsNil() {
			b.WriteString("nil")
			return
		}
		fmt.Fprintf(b, "(%s)", v.Elem().Type().String())
		d.val(v.Elem(), depth+1)
	case reflect.Slice, reflect.Array:
		if v.Kind() == reflect.Slice && v.IsNil() {
			b.WriteString("nil")
			return
		}
		if v.Type().Elem().Kind() == reflect.Uint8 {
			b.WriteString("x'")
			for i := 0; i < v.Len(); i++ {
				fmt.Fprintf(b, "%02x", v.Index(i).Uint())
			}
			b.WriteString("'")
			return
		}
		b.WriteString("[")
		for i := 0; i < v.Len(); i++ {
			if i > 0 {
				b.WriteString(",")
			}
			d.val(v.Index(i), depth+1)
		}
		b.WriteString("]")
	case reflect.Map:
		if v.IsNil() {
			b.WriteString("nil")
			return
		}
		type kv struct{ k, v string }
		var kvs []kv
		it := v.MapRange()
		for it.Next() {
			var kb, vb strings.Builder
			(&dumper{b: &kb, path: d.path}).val(it.Key(), depth+1)
			(&dumper{b: &vb, path: d.path}).val(it.Value(), depth+1)
			kvs = append(kvs, kv{kb.String(), vb.String()})
		}
		sort.Slice(kvs, func(i, j int) bool { return kvs[i].k < kvs[j].k })
		b.WriteString("map{")
		for i, e := range kvs {
			if i > 0 {
				b.WriteString(",")
			}
			b.WriteString(e.k + ":" + e.v)
		}
		b.WriteString("}")
	case reflect.Struct:
		t := v.Type()
		if t.PkgPath() == "bytes" && t.Name() == "Buffer" {
			buf := v.FieldByName("buf")
			off := int(v.FieldByName("off").Int())
			b.WriteString("buffer x'")
			for i := off; i < buf.Len(); i++ {
				fmt.Fprintf(b, "%02x", buf.Index(i).Uint())
			}
			b.WriteString("'")
			return
		}
		if t == timeType && v.CanAddr() {
			tm := (*time.Time)(unsafe.Pointer(v.UnsafeAddr()))
			b.WriteString("time(" + tm.UTC().Format(time.RFC3339Nano) + ")")
			return
		}
		if t.PkgPath() == "math/big" && t.Name() == "Int" {
			// neg bool, abs nat([]Word)
			b.WriteString("big(")
			if v.Field(0).Bool() {
				b.WriteString("-")
			}
			abs := v.Field(1)
			for i := abs.Len() - 1; i >= 0; i-- {
				fmt.Fprintf(b, "%016x", abs.Index(i).Uint())
			}
			b.WriteString(")")
			return
		}
		if t.PkgPath() == "sync" {
			b.WriteString(t.Name())
			return
		}
		b.WriteString(t.Name() + "{")
		for i := 0; i < v.NumField(); i++ {
			if i > 0 {
				b.WriteString(" ")
			}
			b.WriteString(t.Field(i).Name + ":")
			d.val(v.Field(i), depth+1)
		}
		b.WriteString("}")
	case reflect.Func:
		if v.IsNil() {
			b.WriteString("nil")
		} else {
			b.WriteString("func")
		}
	case reflect.Chan:
		b.WriteString("chan")
	case reflect.UnsafePointer:
		b.WriteString("unsafe")
	default:
		fmt.Fprintf(b, "<%s>", v.Kind())
	}
}
