// Package worlds holds, per property, the workload generator (plan), the
// world that runs a plan under the simulator against the rewritten library,
// and the oracle that judges the recorded history.
package worlds

import (
	"encoding/json"
	"fmt"
	"sort"
	"strings"
	"time"

	"github.com/SAP/go-dblib/zz_verif/simrt"
)

// Rand is the plan stream (splitmix64).
type Rand struct{ s uint64 }

func NewRand(seed uint64) *Rand { return &Rand{s: seed} }
func (r *Rand) Uint64() uint64 {
	r.s += 0x9e3779b97f4a7c15
	z := r.s
	z = (z ^ (z >> 30)) * 0xbf58476d1ce4e5b9
	z = (z ^ (z >> 27)) * 0x94d049bb133111eb
	return z ^ (z >> 31)
}
func (r *Rand) Intn(n int) int {
	if n <= 0 {
		return 0
	}
	return int(r.Uint64() % uint64(n))
}
func (r *Rand) Bool() bool         { return r.Uint64()&1 == 1 }
func (r *Rand) Pct(p int) bool     { return r.Intn(100) < p }
func (r *Rand) Range(a, b int) int { return a + r.Intn(b-a+1) }
func (r *Rand) Bytes(n int) []byte {
	b := make([]byte, n)
	for i := range b {
		b[i] = byte(r.Uint64())
	}
	return b
}
func Pick[T any](r *Rand, xs []T) T { return xs[r.Intn(len(xs))] }

// Mix derives a stream seed from the check seed, a run index and a stream tag.
func Mix(seed uint64, idx int, tag uint64) uint64 {
	r := Rand{s: seed*0x9e3779b97f4a7c15 ^ uint64(idx)*0xbf58476d1ce4e5b9 ^ tag*0x94d049bb133111eb}
	r.Uint64()
	return r.Uint64()
}

// Knobs are the simulator knobs every plan carries (swarm-randomised per run).
type Knobs struct {
	Strategy       string `json:"strategy"`
	StickyP        int    `json:"sticky_p,omitempty"`
	PCTDepth       int    `json:"pct_depth,omitempty"`
	ColdQueueLocks bool   `json:"cold_queue_locks"`
	EOFReadCostMs  int    `json:"eof_read_cost_ms,omitempty"`
	MaxSteps       int    `json:"max_steps,omitempty"`
	CtxErrPoints   bool   `json:"ctx_err_points,omitempty"`
	TargetSite     int    `json:"target_site,omitempty"`
	TargetNth      int    `json:"target_nth,omitempty"`
	// Slow: pauses of the server (it stops reading the connection for a while: the client's writes block once the
	// socket buffer is full and go on afterwards). A slow peer changes when things happen, never what happens.
	Slow []simrt.Stall `json:"slow,omitempty"`
}

// GenSlow draws 1..3 pauses of the peer: after 0..maxByte bytes received, socket buffer 0..2000 bytes, lasting up to
// maxFor. Worlds opt in (their timing oracles must tolerate the delay).
func (k *Knobs) GenSlow(r *Rand, maxByte int, maxFor time.Duration) {
	n := 1 + r.Intn(3)
	at := 0
	for i := 0; i < n; i++ {
		at += r.Intn(maxByte/n + 1)
		d := []time.Duration{time.Millisecond, 20 * time.Millisecond, maxFor}[r.Intn(3)]
		if d > maxFor {
			d = maxFor
		}
		k.Slow = append(k.Slow, simrt.Stall{AtByte: at, Window: Pick(r, []int{0, 1, 7, 8, 100, 511, 512, 513, 2000}), For: d})
	}
}

// GenKnobs draws scheduler knobs.
func GenKnobs(r *Rand) Knobs {
	k := Knobs{ColdQueueLocks: !r.Pct(10)}
	switch r.Intn(10) {
	case 0, 1, 2, 3, 4:
		k.Strategy = "sticky"
		k.StickyP = Pick(r, []int{5, 20, 50})
	case 5, 6, 7:
		k.Strategy = "pct"
		k.PCTDepth = 1 + r.Intn(3)
	default:
		k.Strategy = "uniform"
	}
	k.CtxErrPoints = r.Pct(50)
	if len(Sites) > 0 && r.Pct(12) {
		// targeted preemption: one site of the rewritten library, drawn from the site table
		k.Strategy, k.StickyP, k.PCTDepth = "target", 0, 0
		k.TargetSite = 1 + r.Intn(len(Sites))
		if r.Pct(50) {
			k.TargetNth = 1 + r.Intn(12)
		}
	}
	return k
}

func (k Knobs) Config(schedSeed uint64) simrt.Config {
	return simrt.Config{
		Seed:           schedSeed,
		Strategy:       k.Strategy,
		StickyP:        k.StickyP,
		PCTDepth:       k.PCTDepth,
		ColdQueueLocks: k.ColdQueueLocks,
		CtxErrPoints:   k.CtxErrPoints,
		TargetSite:     k.TargetSite,
		TargetNth:      k.TargetNth,
		EOFReadCostMs:  k.EOFReadCostMs,
		MaxSteps:       k.MaxSteps,
		SlowPeer:       k.Slow,
	}
}

// Verdict is the oracle's judgement of one run.
type Verdict struct {
	Class      string         `json:"class,omitempty"` // "" = the property held on this run
	Sig        string         `json:"sig,omitempty"`   // structural signature (for known findings)
	Detail     string         `json:"detail,omitempty"`
	Machinery  string         `json:"machinery,omitempty"` // the machinery could not decide (exit 2)
	Budget     bool           `json:"budget,omitempty"`
	Nontrivial string         `json:"nontrivial,omitempty"` // key of the distinct non-trivial case, "" if trivial
	Probes     map[string]int `json:"probes,omitempty"`
	Sample     interface{}    `json:"sample,omitempty"`
}

func (v *Verdict) Probe(name string) {
	if v.Probes == nil {
		v.Probes = map[string]int{}
	}
	v.Probes[name]++
}

func (v *Verdict) ProbeN(name string, n int) {
	if v.Probes == nil {
		v.Probes = map[string]int{}
	}
	v.Probes[name] += n
}

// Violate records the first violation of a run.
func (v *Verdict) Violate(class, sig, format string, a ...interface{}) {
	if v.Class != "" {
		return
	}
	v.Class = class
	v.Sig = sig
	v.Detail = fmt.Sprintf(format, a...)
}

// Prop is one property's world.
type Prop interface {
	ID() string
	// NRuns is the number of runs of a tier.
	NRuns(tier string) int
	// Gen builds the plan of run idx (a JSON-marshalable value).
	Gen(r *Rand, idx int, tier string) interface{}
	// Decode parses a plan back from JSON.
	Decode(raw json.RawMessage) (interface{}, error)
	// Run executes the plan. replay may be nil.
	Run(plan interface{}, schedSeed uint64, replay []simrt.Choice, lenient, keepLog bool) (*Verdict, *simrt.Outcome)
	// Shrink proposes smaller plans (for the minimiser).
	Shrink(plan interface{}) []interface{}
	// Rule describes how cases are generated and what makes one non-trivial.
	Rule() string
	// Components describes what ran real code and what was a stub.
	Components() map[string]string
}

var registry = map[string]Prop{}

func Register(p Prop)       { registry[p.ID()] = p }
func Lookup(id string) Prop { return registry[id] }
func IDs() []string {
	var ids []string
	for k := range registry {
		ids = append(ids, k)
	}
	sort.Strings(ids)
	return ids
}

// common verdict helpers

// StdOutcome folds scheduler-level outcomes every world treats alike into the
// verdict: machinery problems, replay divergence, budget, crashes and races
// are left to the property's oracle.
func StdOutcome(v *Verdict, out *simrt.Outcome) {
	if out.Machinery != "" {
		v.Machinery = "simulator: " + out.Machinery
	}
	if out.Diverged != "" {
		v.Machinery = "REPLAY-DIVERGED: " + out.Diverged
	}
	if out.Budget {
		v.Budget = true
	}
}

// BlockedTasks reports a violation when a run ended with tasks that can never go on, other than a reader goroutine
// of the library waiting in Read for more bytes (which is where it belongs while the connection is open).
func BlockedTasks(v *Verdict, out *simrt.Outcome, what string) {
	if out == nil || out.Budget || out.Livelock != "" || v.Class != "" {
		return
	}
	for _, pk := range out.Parked {
		if pk.Op == "read" && strings.HasPrefix(pk.Task, "go@") {
			continue
		}
		v.Violate("blocked", "blocked "+ParkSig(out, Sites), "%s: tasks still blocked when nothing more can happen: %v", what, out.Parked)
		return
	}
}

// ClientBlocked is BlockedTasks for the tasks of the harness only (the calls a user makes): goroutines the library
// started are not looked at.
func ClientBlocked(v *Verdict, out *simrt.Outcome, what string) {
	// (a run that was ended by the livelock detector leaves its tasks where they were: that is the detector's verdict)
	if out == nil || out.Budget || out.Livelock != "" || v.Class != "" {
		return
	}
	for _, pk := range out.Parked {
		if strings.HasPrefix(pk.Task, "go@") {
			continue
		}
		v.Violate("blocked", "blocked "+ParkSig(out, Sites), "%s: a call of the client never returned: %v", what, out.Parked)
		return
	}
}

// ParkSig renders the parked tasks of a deadlock as a structural signature.
func ParkSig(out *simrt.Outcome, sites map[int]SiteInfo) string {
	var parts []string
	for _, p := range out.Parked {
		si := sites[p.Site]
		parts = append(parts, fmt.Sprintf("%s:%s", si.Func, p.Op))
	}
	sort.Strings(parts)
	return "{" + strings.Join(parts, ",") + "}"
}

// SiteInfo is one entry of the rewriter's site table.
type SiteInfo struct {
	ID   int    `json:"id"`
	Pos  string `json:"pos"`
	Func string `json:"func"`
	Op   string `json:"op"`
	Cold bool   `json:"cold,omitempty"`
}

// Sites is the site table of the build (loaded by the worker).
var Sites = map[int]SiteInfo{}

// CrashSig gives a structural signature for a panic: the panic text without
// addresses/numbers plus the innermost library function on the stack.
func CrashSig(c simrt.Crash) string {
	fn := ""
	for _, line := range strings.Split(c.Stack, "\n") {
		if strings.HasPrefix(line, "github.com/SAP/go-dblib/") && !strings.Contains(line, "/zz_verif/") {
			fn = line
			if i := strings.LastIndex(fn, "("); i > 0 {
				fn = fn[:i]
			}
			fn = strings.TrimPrefix(fn, "github.com/SAP/go-dblib/")
			break
		}
	}
	val := c.Value
	// strip digits so that indices/lengths do not split one finding into many
	var b strings.Builder
	lastHash := false
	for _, ch := range val {
		if ch >= '0' && ch <= '9' {
			if !lastHash {
				b.WriteByte('#')
				lastHash = true
			}
			continue
		}
		lastHash = false
		b.WriteRune(ch)
	}
	val = b.String()
	if len(val) > 80 {
		val = val[:80]
	}
	return fn + ": " + val
}
