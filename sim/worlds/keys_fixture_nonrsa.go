package worlds

// Public keys that are valid PKIX SubjectPublicKeyInfo structures but not RSA keys (fixtures).

var nonRSAKeys = map[string]string{
	"ecdsa":            "-----BEGIN PUBLIC KEY-----\nMFkwEwYHKoZIzj0CAQYIKoZIzj0DAQcDQgAEcsCTUxjNHo4op0rIgkwNB7hWZFhd\nVEUNrIrVSIjzKMBE73oTqgMd4t+veODsRR2UqqG66G7I9Er8+mDRjxqiQA==\n-----END PUBLIC KEY-----\n",
	"ecdsa-rsalabel":   "-----BEGIN RSA PUBLIC KEY-----\nMFkwEwYHKoZIzj0CAQYIKoZIzj0DAQcDQgAEcsCTUxjNHo4op0rIgkwNB7hWZFhd\nVEUNrIrVSIjzKMBE73oTqgMd4t+veODsRR2UqqG66G7I9Er8+mDRjxqiQA==\n-----END RSA PUBLIC KEY-----\n",
	"ed25519":          "-----BEGIN PUBLIC KEY-----\nMCowBQYDK2VwAyEAayquFWA7yHdl1UViqJg+ytL/Ni1XJydVVRwMQuKRF9o=\n-----END PUBLIC KEY-----\n",
	"ed25519-rsalabel": "-----BEGIN RSA PUBLIC KEY-----\nMCowBQYDK2VwAyEAayquFWA7yHdl1UViqJg+ytL/Ni1XJydVVRwMQuKRF9o=\n-----END RSA PUBLIC KEY-----\n",
}
