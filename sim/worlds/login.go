package worlds

import (
	"bytes"
	"context"
	"crypto/rsa"
	"crypto/sha1"
	"crypto/x509"
	"encoding/binary"
	"encoding/hex"
	"encoding/json"
	"encoding/pem"
	"fmt"
	"math/big"
	"strings"
	"time"

	"github.com/SAP/go-dblib/tds"
	"github.com/SAP/go-dblib/zz_verif/peer"
	"github.com/SAP/go-dblib/zz_verif/simrt"
)

// Shared world of C08 (login succeeds exactly when the server accepted it)
// and C09 (passwords never cross the wire in clear under encryption).

// lPkg is one package of a scripted login reply.
type lPkg struct {
	K      string  `json:"k"`               // ack | msg | paramfmt | params | done | cap | env | eedinfo | ret
	S      int     `json:"s,omitempty"`     // ack status / done status / msg id / env packet size
	Types  []uint8 `json:"types,omitempty"` // paramfmt+params column types
	Cipher int32   `json:"cipher,omitempty"`
	Key    string  `json:"key,omitempty"`  // ok | empty | garbage | trailing | pkix | small
	Zero   string  `json:"zero,omitempty"` // cap: "" | all | req | resp
}

type loginPlan struct {
	Knobs     Knobs `json:"knobs"`
	Encrypted bool  `json:"encrypted"`
	KeyBits   int   `json:"key_bits"`
	NonceLen  int   `json:"nonce_len"`
	// NonceShape: "" a counting pattern; "zero-end" / "zero-start": the last / first byte is 0x00; "zeros": all
	// bytes 0x00; "spaces-end": the last two bytes are blanks (a nonce is binary data: every byte counts)
	NonceShape string `json:"nonce_shape,omitempty"`
	Remote     int    `json:"remote"`
	// NoDeadline (with CancelAtMs / CancelAtStep): the caller's context has no deadline of its own (context.WithCancel):
	// the cancellation is all that ends it.
	NoDeadline bool `json:"no_deadline,omitempty"`
	// Deaf (C08): the server accepts the connection and stops reading before the login begins; its socket buffer
	// takes DeafWindow more bytes. It never answers, so the login cannot succeed - and must be back when its context
	// expires, whether it is waiting for a reply or for room to write.
	Deaf       bool `json:"deaf,omitempty"`
	DeafWindow int  `json:"deaf_window,omitempty"`
	// CapVariant: which capabilities the scripted server grants - 0: a scattered set; 1: whole mask bytes (0xff)
	// among them; 2: everything; 3: alternating bit patterns.
	CapVariant int    `json:"cap_variant,omitempty"`
	Phase1     []lPkg `json:"phase1"`
	Phase2     []lPkg `json:"phase2"`
	Trunc1     int    `json:"trunc1"` // -1: deliver all with end-of-message; j: deliver only the first j packages, no end-of-message
	Trunc2     int    `json:"trunc2"`
	Cuts1      []int  `json:"cuts1,omitempty"`
	Cuts2      []int  `json:"cuts2,omitempty"`
	ReadSizes  []int  `json:"read_sizes,omitempty"`
	Async      bool   `json:"async,omitempty"`
	Class      string `json:"class"` // MUST-SUCCEED | MUST-FAIL | EITHER, by construction
	Edit       string `json:"edit"`
	// credentials (C09)
	User     string   `json:"user"`
	Password string   `json:"password_hex"`
	RemoteN  []string `json:"remote_names,omitempty"`
	RemotePw []string `json:"remote_pw_hex,omitempty"`
	Host     string   `json:"host"`
	App      string   `json:"app"`
	// Twin: a second login (own connection, own credentials, same server script) runs concurrently.
	Twin         bool     `json:"twin,omitempty"`
	TwinPassword string   `json:"twin_password_hex,omitempty"`
	TwinRemotePw []string `json:"twin_remote_pw_hex,omitempty"`
	// TwinAltKey: the twin's server presents a different RSA key of the same size (same host and server name).
	TwinAltKey bool `json:"twin_alt_key,omitempty"`
	altKey     bool
	// Storm > 0 (C08): the same login is made Storm times in a row (each on a new connection, the server answering
	// with the same script) and then once more against a server that answers with the valid script: that control
	// login must succeed - what failed or odd logins leave behind in the process may not break a later one.
	Storm int `json:"storm,omitempty"`
	// Prime (C08): before the login under test a login against a server answering with the valid script is made on
	// its own connection (user name prefix "prime_"); it must succeed, and its connection's capabilities must still
	// be the ones ITS server returned after the other logins of the run.
	Prime bool `json:"prime,omitempty"`
	// EndKind (C08): "eof" / "reset": after a reply that stops early (Trunc1/Trunc2 >= 0) the server ends the
	// connection instead of falling silent; "eof-after" / "reset-after": it ends the connection right after the
	// complete last reply (the acceptance stands, what Login makes of it is not judged - see the listed C14 finding).
	EndKind string `json:"end_kind,omitempty"`
	// GapMs (C08): the packets of every reply arrive that far apart (simulated milliseconds).
	GapMs int `json:"gap_ms,omitempty"`
	// CancelAtMs (C08): the caller cancels Login's context at that simulated time (the deadline stays at 30 s).
	CancelAtMs int `json:"cancel_at_ms,omitempty"`
	// CancelAtStep (C08): the caller cancels Login's context after that many scheduling steps of a second task -
	// that is: anywhere inside Login, also between two operations that no simulated time separates (after the
	// last package of a message was queued and before it is flushed, say).
	CancelAtStep int `json:"cancel_at_step,omitempty"`
	// Relogin (C09): when Login has returned, it is called once more on the same channel and connection; the server
	// answers that second attempt with the valid script. Nothing random may be used twice.
	Relogin bool `json:"relogin,omitempty"`
	// ReusePlain (C09): the login configuration object is first used for a login WITHOUT password encryption on
	// another connection (first connection of the run, valid plain script), then switched back to encryption and
	// used for the login under test: nothing of the first use may leak into the second.
	ReusePlain bool `json:"reuse_plain,omitempty"`
}

const (
	ackSucceed   = 5
	ackFail      = 6
	ackNegotiate = 7
	msgEncrypt4  = 35
)

func loginBase(encrypted bool) (p1, p2 []lPkg) {
	if !encrypted {
		return []lPkg{{K: "ack", S: ackSucceed}, {K: "done", S: 0}}, nil
	}
	p1 = []lPkg{
		{K: "ack", S: ackNegotiate},
		{K: "msg", S: msgEncrypt4},
		{K: "paramfmt", Types: []uint8{peer.TDS_INT4, peer.TDS_LONGBINARY, peer.TDS_LONGBINARY}},
		{K: "params", Types: []uint8{peer.TDS_INT4, peer.TDS_LONGBINARY, peer.TDS_LONGBINARY}, Cipher: 1, Key: "ok"},
		{K: "done", S: 0},
	}
	p2 = []lPkg{{K: "ack", S: ackSucceed}, {K: "cap"}, {K: "done", S: 0}}
	return
}

// loginEdits enumerates all single edits of the base script with their class by construction.
type loginEdit struct {
	desc  string
	class string
	apply func(p *loginPlan)
}

func required(k string) bool {
	return k == "ack" || k == "msg" || k == "paramfmt" || k == "params" || k == "cap"
}

func loginEdits(encrypted bool) []loginEdit {
	var es []loginEdit
	p1, p2 := loginBase(encrypted)
	phases := [][]lPkg{p1, p2}
	get := func(p *loginPlan, ph int) *[]lPkg {
		if ph == 0 {
			return &p.Phase1
		}
		return &p.Phase2
	}
	for ph, base := range phases {
		ph := ph
		for i, pk := range base {
			i, pk := i, pk
			// delete
			cls := "EITHER"
			if required(pk.K) {
				cls = "MUST-FAIL"
			}
			es = append(es, loginEdit{fmt.Sprintf("delete %s of reply %d", pk.K, ph+1), cls, func(p *loginPlan) {
				l := get(p, ph)
				*l = append(append([]lPkg{}, (*l)[:i]...), (*l)[i+1:]...)
			}})
			// duplicate
			cls = "EITHER"
			if required(pk.K) {
				cls = "MUST-FAIL"
			}
			es = append(es, loginEdit{fmt.Sprintf("duplicate %s of reply %d", pk.K, ph+1), cls, func(p *loginPlan) {
				l := get(p, ph)
				n := append([]lPkg{}, (*l)[:i+1]...)
				n = append(n, (*l)[i])
				*l = append(n, (*l)[i+1:]...)
			}})
			// swap with next
			if i+1 < len(base) {
				cls = "MUST-FAIL"
				es = append(es, loginEdit{fmt.Sprintf("swap %s and %s of reply %d", pk.K, base[i+1].K, ph+1), cls, func(p *loginPlan) {
					l := get(p, ph)
					n := append([]lPkg{}, *l...)
					n[i], n[i+1] = n[i+1], n[i]
					*l = n
				}})
			}
			// truncate the reply after i packages (nothing more is ever sent)
			missing := false
			for _, later := range base[i:] {
				if required(later.K) {
					missing = true
				}
			}
			cls = "EITHER"
			if missing {
				cls = "MUST-FAIL"
			}
			es = append(es, loginEdit{fmt.Sprintf("reply %d stops after %d packages", ph+1, i), cls, func(p *loginPlan) {
				if ph == 0 {
					p.Trunc1 = i
				} else {
					p.Trunc2 = i
				}
			}})
			// field alternatives
			set := func(desc, class string, f func(x *lPkg)) {
				es = append(es, loginEdit{fmt.Sprintf("reply %d %s: %s", ph+1, pk.K, desc), class, func(p *loginPlan) {
					l := get(p, ph)
					n := append([]lPkg{}, *l...)
					f(&n[i])
					if n[i].K == "params" {
						// the format package announces what the parameter package carries
						for j := range n {
							if n[j].K == "paramfmt" {
								n[j].Types = n[i].Types
							}
						}
					}
					*l = n
				}})
			}
			switch pk.K {
			case "ack":
				for _, st := range []int{ackSucceed, ackFail, ackNegotiate, 0, 255} {
					if st == pk.S {
						continue
					}
					st := st
					set(fmt.Sprintf("status %d", st), "MUST-FAIL", func(x *lPkg) { x.S = st })
				}
			case "msg":
				for _, id := range []int{1, 14, 30, 34, 0} {
					id := id
					set(fmt.Sprintf("message id %d", id), "MUST-FAIL", func(x *lPkg) { x.S = id })
				}
			case "paramfmt":
				// the format decides count and types of the parameters; the params package follows it
			case "params":
				set("two parameters", "MUST-FAIL", func(x *lPkg) { x.Types = x.Types[:2] })
				set("four parameters", "MUST-FAIL", func(x *lPkg) { x.Types = append(append([]uint8{}, x.Types...), peer.TDS_INT4) })
				set("cipher as INT2", "MUST-FAIL", func(x *lPkg) { x.Types = []uint8{peer.TDS_INT2, x.Types[1], x.Types[2]} })
				set("key as VARBINARY", "MUST-FAIL", func(x *lPkg) { x.Types = []uint8{x.Types[0], peer.TDS_VARBINARY, x.Types[2]} })
				set("key as LONGCHAR", "MUST-FAIL", func(x *lPkg) { x.Types = []uint8{x.Types[0], peer.TDS_LONGCHAR, x.Types[2]} })
				set("nonce as VARBINARY", "MUST-FAIL", func(x *lPkg) { x.Types = []uint8{x.Types[0], x.Types[1], peer.TDS_VARBINARY} })
				for _, c := range []int32{0, 2, -1} {
					c := c
					set(fmt.Sprintf("cipher %d", c), "MUST-FAIL", func(x *lPkg) { x.Cipher = c })
				}
				for _, k := range []string{"empty", "garbage", "trailing", "small", "whitespace", "notpem", "ecdsa", "ecdsa-rsalabel", "ed25519", "ed25519-rsalabel"} {
					k := k
					set("key "+k, "MUST-FAIL", func(x *lPkg) { x.Key = k })
				}
				// the same RSA key in PKIX form: the statement does not say whether that is usable
				set("key pkix", "EITHER", func(x *lPkg) { x.Key = "pkix" })
			case "cap":
				set("all masks zero", "MUST-FAIL", func(x *lPkg) { x.Zero = "all" })
				set("request mask zero", "EITHER", func(x *lPkg) { x.Zero = "req" })
				set("response mask zero", "EITHER", func(x *lPkg) { x.Zero = "resp" })
				// other shapes of the capability package: no capability granted at all is "all-zero capabilities"
				set("no types at all", "MUST-FAIL", func(x *lPkg) { x.Zero = "none" })
				// (masks without a single byte grant nothing either: the same all-zero answer spelled shorter)
				set("masks of length zero", "MUST-FAIL", func(x *lPkg) { x.Zero = "len0" })
				set("request type only", "EITHER", func(x *lPkg) { x.Zero = "onlyreq" })
				set("response type only", "EITHER", func(x *lPkg) { x.Zero = "onlyresp" })
				set("with security type", "EITHER", func(x *lPkg) { x.Zero = "sec" })
				set("unknown type", "EITHER", func(x *lPkg) { x.Zero = "unknown" })
				set("types twice", "EITHER", func(x *lPkg) { x.Zero = "dup" })
				set("response before request", "EITHER", func(x *lPkg) { x.Zero = "swapped" })
				set("one-byte masks", "EITHER", func(x *lPkg) { x.Zero = "short" })
				set("255-byte masks", "EITHER", func(x *lPkg) { x.Zero = "long" })
			case "done":
				for _, st := range []int{0x01, 0x02, 0x10, 0x12} {
					st := st
					set(fmt.Sprintf("status %#x", st), "EITHER", func(x *lPkg) { x.S = st })
				}
			}
		}
	}
	es = append(es, loginEdit{"the server never replies", "MUST-FAIL", func(p *loginPlan) { p.Trunc1 = 0 }})
	return es
}

func hexOf(b []byte) string { return hex.EncodeToString(b) }
func unhex(s string) []byte {
	b, _ := hex.DecodeString(s)
	return b
}

// genLoginPlan: idx < number of single edits => that edit on the plain script; otherwise random (benign decorations, multi-edit).
func genLoginPlan(r *Rand, encrypted bool) *loginPlan {
	p := &loginPlan{Knobs: GenKnobs(r), Encrypted: encrypted, Trunc1: -1, Trunc2: -1, Class: "MUST-SUCCEED", Edit: "none"}
	p.Phase1, p.Phase2 = loginBase(encrypted)
	p.KeyBits = Pick(r, []int{1024, 1536, 2048})
	p.NonceLen = Pick(r, []int{1, 8, 16, 32, 64, 1 + r.Intn(64)})
	p.NonceShape = Pick(r, []string{"", "", "", "", "zero-end", "zero-start", "zeros", "spaces-end"})
	// the nonce plus the 32-byte session key must fit into one RSA-OAEP/SHA-1 block, or no login can succeed
	if max := p.KeyBits/8 - 42 - 32; p.NonceLen > max {
		p.NonceLen = max
	}
	p.Remote = r.Intn(4)
	p.User = "u" + randName(r, r.Intn(20))
	p.Host = "h" + randName(r, r.Intn(20))
	p.App = "a" + randName(r, r.Intn(20))
	p.Password = hexOf([]byte("pw-" + randName(r, 5+r.Intn(12))))
	for i := 0; i < p.Remote; i++ {
		p.RemoteN = append(p.RemoteN, "srv"+randName(r, r.Intn(10)))
		p.RemotePw = append(p.RemotePw, hexOf([]byte("rpw-"+randName(r, 4+r.Intn(12)))))
	}
	p.CapVariant = r.Intn(4)
	return p
}

func randName(r *Rand, n int) string {
	const al = "abcdefghijklmnopqrstuvwxyzABCDEFGHIJKLMNOPQRSTUVWXYZ0123456789_"
	b := make([]byte, n)
	for i := range b {
		b[i] = al[r.Intn(len(al))]
	}
	return string(b)
}

// decorate inserts benign (invisible) packages and draws packetisation/read plans.
func decorate(r *Rand, p *loginPlan) {
	ins := func(l []lPkg) []lPkg {
		var out []lPkg
		for _, x := range l {
			if r.Pct(20) {
				out = append(out, lPkg{K: "eedinfo", S: 1000 + r.Intn(1000)})
			}
			if r.Pct(15) {
				out = append(out, lPkg{K: "env", S: Pick(r, []int{512, 1024, 2048, 4096, 300}), Zero: Pick(r, []string{"", "", "db-first", "three", "lead0", "lead0-three"})})
			}
			out = append(out, x)
		}
		return out
	}
	p.Phase1 = ins(p.Phase1)
	p.Phase2 = ins(p.Phase2)
	for c := r.Intn(4); c > 0; c-- {
		p.Cuts1 = append(p.Cuts1, 1+r.Intn(400))
	}
	for c := r.Intn(3); c > 0; c-- {
		p.Cuts2 = append(p.Cuts2, 1+r.Intn(80))
	}
	if r.Pct(30) {
		for k := 0; k < 30; k++ {
			p.ReadSizes = append(p.ReadSizes, r.Intn(40))
		}
	}
	p.Async = r.Pct(50)
}

func (p *loginPlan) keyPEM() ([]byte, *rsa.PrivateKey) {
	bits := p.KeyBits
	k := rsaKeys[bits]
	if p.altKey {
		k = rsaKeysAlt[bits]
	}
	blk, _ := pem.Decode([]byte(k.Priv))
	priv, _ := x509.ParsePKCS1PrivateKey(blk.Bytes)
	return []byte(k.PubPKCS1), priv
}

func (p *loginPlan) nonce() []byte {
	n := make([]byte, p.NonceLen)
	for i := range n {
		n[i] = byte(0xA0 + i%16)
	}
	switch p.NonceShape {
	case "zero-end":
		n[len(n)-1] = 0
	case "zero-start":
		n[0] = 0
	case "zeros":
		for i := range n {
			n[i] = 0
		}
	case "spaces-end":
		n[len(n)-1] = ' '
		if len(n) > 1 {
			n[len(n)-2] = ' '
		}
	}
	return n
}

func (pk lPkg) encode(p *loginPlan) []byte {
	switch pk.K {
	case "ack":
		return peer.LoginAck(uint8(pk.S), [4]byte{5, 0, 0, 0}, "simserver", [4]byte{16, 0, 0, 0})
	case "msg":
		return peer.Msg(1, uint16(pk.S))
	case "paramfmt", "params":
		var cols []peer.Col
		for i, t := range pk.Types {
			c := peer.Col{Name: fmt.Sprintf("p%d", i), Type: t}
			switch t {
			case peer.TDS_LONGBINARY, peer.TDS_LONGCHAR:
				c.MaxLen = 4096
			case peer.TDS_VARBINARY:
				c.MaxLen = 255
			}
			cols = append(cols, c)
		}
		if pk.K == "paramfmt" {
			return peer.ParamFmt(false, cols...)
		}
		pub, _ := p.keyPEM()
		key := pub
		switch pk.Key {
		case "empty":
			key = nil
		case "garbage":
			key = []byte("-----BEGIN RSA PUBLIC KEY-----\nQUJDREVGR0g=\n-----END RSA PUBLIC KEY-----\n")
		case "trailing":
			key = append(append([]byte{}, pub...), []byte("trailing")...)
		case "pkix":
			key = []byte(rsaKeys[p.KeyBits].PubPKIX)
			if p.altKey {
				key = []byte(rsaKeysAlt[p.KeyBits].PubPKIX)
			}
		case "small":
			key = []byte(rsaKeys[512].PubPKCS1)
		case "ecdsa", "ecdsa-rsalabel", "ed25519", "ed25519-rsalabel":
			// a well-formed public key of another algorithm
			key = []byte(nonRSAKeys[pk.Key])
		case "whitespace":
			key = []byte("\n \n")
		case "notpem":
			key = []byte{0x30, 0x82, 0x01, 0x0a, 0x02, 0x82, 0x01, 0x01, 0x00, 0xff, 0x00, 0x13, 0x37}
		}
		var vals []peer.Val
		for i, t := range pk.Types {
			var raw []byte
			switch i {
			case 0:
				if t == peer.TDS_INT2 {
					raw = peer.RawInt2(int16(pk.Cipher))
				} else {
					raw = peer.RawInt4(pk.Cipher)
				}
			case 1:
				raw = key
				if t == peer.TDS_VARBINARY && len(raw) > 255 {
					raw = raw[:255]
				}
			case 2:
				raw = p.nonce()
			default:
				raw = peer.RawInt4(0)
			}
			vals = append(vals, peer.Val{Raw: raw})
		}
		return peer.Params(cols, vals)
	case "done":
		return peer.Done(uint16(pk.S), 0, 0)
	case "cap":
		req, resp := capMasks()
		switch pk.Zero {
		case "all":
			req, resp = make([]byte, len(req)), make([]byte, len(resp))
		case "req":
			req = make([]byte, len(req))
		case "resp":
			resp = make([]byte, len(resp))
		case "none":
			return peer.CapabilityFull(nil, nil, nil)
		case "len0":
			return peer.Capability([]byte{}, []byte{})
		case "onlyreq":
			return peer.CapabilityFull(req, nil, nil)
		case "onlyresp":
			return peer.CapabilityFull(nil, resp, nil)
		case "sec":
			return peer.CapabilityFull(req, resp, []byte{0x01, 0x02})
		case "unknown":
			b := peer.Capability(req, resp)
			extra := []byte{0x09, 0x02, 0xff, 0xff}
			b = append(b, extra...)
			l := int(b[1]) | int(b[2])<<8
			l += len(extra)
			b[1], b[2] = byte(l), byte(l>>8)
			return b
		case "dup":
			b := peer.Capability(req, resp)
			extra := append([]byte{}, b[3:]...)
			b = append(b, extra...)
			l := int(b[1]) | int(b[2])<<8
			l += len(extra)
			b[1], b[2] = byte(l), byte(l>>8)
			return b
		case "swapped":
			b := peer.Capability(req, resp)
			r1 := append([]byte{}, b[3:3+2+len(req)]...)
			r2 := append([]byte{}, b[3+2+len(req):]...)
			return append(append(append([]byte{}, b[:3]...), r2...), r1...)
		case "short":
			return peer.Capability([]byte{0x02}, []byte{0x02})
		case "long":
			big := make([]byte, 255)
			big[254], big[0] = 0x02, 0x80
			return peer.Capability(big, append([]byte{}, big...))
		}
		return peer.Capability(req, resp)
	case "env":
		size := peer.EnvMember{Type: 4, New: fmt.Sprint(pk.S), Old: "512"}
		if strings.HasPrefix(pk.Zero, "lead0") {
			// a decimal number all the same
			size.New, size.Old = "0"+size.New, "0512"
		}
		switch pk.Zero {
		case "db-first":
			// several members in one package, the packet size not the first of them
			return peer.EnvChange(peer.EnvMember{Type: 1, New: "master", Old: "tempdb"}, size)
		case "three", "lead0-three":
			return peer.EnvChange(peer.EnvMember{Type: 2, New: "us_english", Old: ""}, peer.EnvMember{Type: 3, New: "utf8", Old: "iso_1"}, size)
		}
		return peer.EnvChange(size)
	case "eedinfo":
		return peer.EED(int32(pk.S), 1, 10, "", 2, 0, "informational", "srv", "", 0)
	}
	panic("unknown login package kind " + pk.K)
}

// capMasks is what the scripted server grants.
// capsDiffOf compares a connection's capabilities with the masks the valid script's server returns.
func capsDiffOf(conn *tds.Conn) string {
	diff := ""
	req, resp := capMasks()
	for n := 0; n < len(req)*8; n++ {
		want := req[len(req)-1-n/8]&(1<<uint(n%8)) != 0
		if conn.Caps.HasCapability(tds.CapabilityRequest, n) != want {
			diff = fmt.Sprintf("request capability %d: connection has %v, server returned %v", n, !want, want)
		}
	}
	for n := 0; n < len(resp)*8; n++ {
		want := resp[len(resp)-1-n/8]&(1<<uint(n%8)) != 0
		if conn.Caps.HasCapability(tds.CapabilityResponse, n) != want {
			diff = fmt.Sprintf("response capability %d: connection has %v, server returned %v", n, !want, want)
		}
	}
	return diff
}

// capVariant is set from the plan at the start of every run (runs are sequential within a worker process).
var capVariant int

func capMasks() (req, resp []byte) {
	req = peer.CapMask(14, 1, 3, 5, 6, 12, 13, 18, 24, 39, 62, 73, 101)
	resp = peer.CapMask(7, 1, 2, 9, 35, 40)
	switch capVariant {
	case 1:
		// whole bytes of the masks set
		for c := 40; c < 48; c++ {
			req[len(req)-1-c/8] |= 1 << uint(c%8)
		}
		for c := 16; c < 24; c++ {
			resp[len(resp)-1-c/8] |= 1 << uint(c%8)
		}
		req[0], resp[len(resp)-1] = 0xff, 0xff
	case 2:
		for i := range req {
			req[i] = 0xff
		}
		for i := range resp {
			resp[i] = 0xff
		}
	case 3:
		for i := range req {
			req[i] = []byte{0x55, 0xaa, 0x7f, 0xfe, 0x80, 0x01}[i%6]
		}
		for i := range resp {
			resp[i] = []byte{0xaa, 0x55, 0xfe, 0x7f}[i%4]
		}
	}
	return
}

// ---- running a login ----

type loginObs struct {
	setupErr   string
	loginErr   error
	returnedAt time.Duration
	deadline   time.Duration
	closeOK    bool
	closeErr   string
	capsDiff   string
	packetSize int
	sent       []ClientMsg
	randLog    []simrt.RandDraw
	cfgErr     string
	twin       *loginObs
	control    *loginObs
	prime      *loginObs
	conn       *tds.Conn
	capsLater  string
	relogin    *loginObs
	plainErr   error
	plainSent  []ClientMsg
}

func runLogin(p *loginPlan, schedSeed uint64, replay []simrt.Choice, lenient, keepLog bool) (*loginObs, *simrt.Outcome, *TDSPeer) {
	cfg := p.Knobs.Config(schedSeed)
	cfg.Replay, cfg.Lenient, cfg.KeepLog = replay, lenient, keepLog
	if cfg.MaxSteps == 0 {
		cfg.MaxSteps = 200000
	}
	s := simrt.New(cfg)
	pr := NewTDSPeer(s)
	capVariant = p.CapVariant
	wire := func(pr *TDSPeer, p *loginPlan) {
		pr.Async = p.Async
		reply := func(items []lPkg, trunc int, cuts []int, isLast bool) {
			eom := true
			if trunc >= 0 {
				if trunc < len(items) {
					items = items[:trunc]
				}
				eom = false
				s.Fault("reply-truncated")
			}
			var body []byte
			for _, it := range items {
				body = append(body, it.encode(p)...)
			}
			endNow := func() {
				kind := simrt.TermEOF
				if strings.HasPrefix(p.EndKind, "reset") {
					kind = simrt.TermReset
				}
				s.Fault("connection-ended-by-server")
				return_ := func() { pr.Conn.End(kind, false) }
				if pr.Async || p.GapMs > 0 {
					s.After(time.Duration(p.GapMs*(len(cuts)+2))*time.Millisecond, "end connection", return_)
				} else {
					return_()
				}
			}
			if len(body) == 0 && !eom {
				if p.EndKind == "eof" || p.EndKind == "reset" {
					endNow()
				}
				return
			}
			pks := peer.Packetise(body, cuts, peer.BufResponse, 0, eom)
			if p.GapMs > 0 {
				for i, pk := range pks {
					pr.Conn.DeliverAfter(time.Duration(i*p.GapMs)*time.Millisecond, pk)
				}
			} else {
				pr.SendPackets(pks)
			}
			if (!eom && (p.EndKind == "eof" || p.EndKind == "reset")) || (eom && isLast && strings.HasSuffix(p.EndKind, "-after")) {
				endNow()
			}
		}
		logins := 0
		pr.OnMsg = func(m *ClientMsg) {
			switch {
			case len(m.Body) == 2 && m.Body[0] == 0x71 && m.Type != peer.BufLogin: // logout (token and options byte)
				pr.SendPackets(peer.Packetise(peer.Done(0, 0, 0), nil, peer.BufResponse, 0, true))
			case p.Relogin && m.Type == peer.BufLogin && m.Index > 0:
				// a second login attempt on this connection: answered with the valid script
				logins++
				q := *p
				q.Phase1, q.Phase2 = loginBase(p.Encrypted)
				q.Trunc1, q.Trunc2, q.Cuts1, q.Cuts2, q.EndKind = -1, -1, nil, nil, ""
				p = &q
				reply(p.Phase1, p.Trunc1, p.Cuts1, !p.Encrypted)
			case p.Relogin && logins > 0 && p.Encrypted:
				reply(p.Phase2, p.Trunc2, p.Cuts2, true)
			case m.Index == 0:
				if f, _, err := parseLoginRecord(m.Body); err == nil {
					switch user := string(f["lusername"].value); {
					case p.TwinAltKey && strings.HasPrefix(user, "twin_"):
						q := *p
						q.altKey = true
						p = &q
					case strings.HasPrefix(user, "prime_"), strings.HasPrefix(user, "ctl_"):
						q := *p
						q.Phase1, q.Phase2 = loginBase(p.Encrypted)
						q.Trunc1, q.Trunc2, q.Cuts1, q.Cuts2 = -1, -1, nil, nil
						p = &q
					}
				}
				reply(p.Phase1, p.Trunc1, p.Cuts1, !p.Encrypted)
			case m.Index == 1 && p.Encrypted:
				reply(p.Phase2, p.Trunc2, p.Cuts2, true)
			}
		}
	}
	if p.ReusePlain {
		q := *p
		q.Encrypted = false
		q.Phase1, q.Phase2 = loginBase(false)
		q.Trunc1, q.Trunc2, q.Cuts1, q.Cuts2 = -1, -1, nil, nil
		wire(pr, &q)
	} else {
		wire(pr, p)
	}
	pr.NewSub = func(c *simrt.Conn) *TDSPeer {
		sp := SubPeer(s, c)
		wire(sp, p)
		return sp
	}
	s.Net.Setup = func(c *simrt.Conn) { c.ReadSizes = p.ReadSizes }
	obs := &loginObs{}
	mainObs := obs
	twin := &loginObs{}
	client := func(obs *loginObs, user, password string, remotePw []string) {
		info := MkInfo(100, 5, false)
		info.Username = user
		info.Password = password
		info.ClientHostname = p.Host
		conn, err := tds.NewConn(context.Background(), info)
		if err != nil {
			obs.setupErr = err.Error()
			return
		}
		ch, err := conn.NewChannel()
		if err != nil {
			obs.setupErr = err.Error()
			return
		}
		lc, err := tds.NewLoginConfig(info)
		if err != nil {
			obs.cfgErr = err.Error()
			return
		}
		lc.AppName = p.App
		if !p.Encrypted {
			lc.Encrypt = 0
		}
		for i := range p.RemoteN {
			lc.RemoteServers = append(lc.RemoteServers, tds.LoginConfigRemoteServer{Name: p.RemoteN[i], Password: string(unhex(remotePw[i]))})
		}
		if p.ReusePlain && obs == mainObs {
			// this first connection is used for the plain login with the same configuration object
			enc := lc.Encrypt
			lc.Encrypt = 0
			pctx, pcancel := simrt.WithTimeout(context.Background(), 30*time.Second)
			obs.plainErr = ch.Login(pctx, lc)
			pcancel()
			lc.Encrypt = enc
			conn2, err := tds.NewConn(context.Background(), info)
			if err != nil {
				obs.setupErr = err.Error()
				return
			}
			if ch, err = conn2.NewChannel(); err != nil {
				obs.setupErr = err.Error()
				return
			}
			conn = conn2
		}
		if p.Deaf && obs == mainObs {
			window := p.DeafWindow
			simrt.Sched(func() {
				pr.Conn.PeerStalled, pr.Conn.SendWindow = true, window
				s.Fault("peer-stops-reading")
			})
		}
		ctx, cancel := simrt.WithTimeout(context.Background(), 30*time.Second)
		if p.NoDeadline && (p.CancelAtMs > 0 || p.CancelAtStep > 0) && obs == mainObs {
			cancel()
			ctx, cancel = simrt.WithCancel(context.Background())
		}
		defer cancel()
		obs.deadline = simrt.SimNow() + 30*time.Second
		if p.CancelAtMs > 0 && obs == mainObs {
			at := time.Duration(p.CancelAtMs) * time.Millisecond
			if at < obs.deadline {
				obs.deadline = at
			}
			canceller := simrt.Spawn("canceller", func() {
				if d := at - simrt.SimNow(); d > 0 {
					simrt.Sleep(d)
				}
				simrt.Record("cancel-login-context", "", "", 0)
				cancel()
			})
			defer simrt.Join(canceller)
		}
		if p.CancelAtStep > 0 && obs == mainObs {
			canceller := simrt.Spawn("canceller", func() {
				for i := 0; i < p.CancelAtStep; i++ {
					simrt.Yield(0)
				}
				if now := simrt.SimNow(); now < obs.deadline {
					obs.deadline = now
				}
				simrt.Record("cancel-login-context", "", "", 0)
				cancel()
			})
			defer simrt.Join(canceller)
		}
		obs.loginErr = ch.Login(ctx, lc)
		obs.returnedAt = simrt.SimNow()
		if p.Relogin && obs == mainObs {
			obs.relogin = &loginObs{}
			simrt.Record("second-login-attempt", "", "", 0)
			ctx2, cancel2 := simrt.WithTimeout(context.Background(), 30*time.Second)
			obs.relogin.loginErr = ch.Login(ctx2, lc)
			cancel2()
			if obs.relogin.loginErr == nil {
				obs.relogin.capsDiff = capsDiffOf(conn)
			}
		}
		obs.conn = conn
		if obs.loginErr == nil {
			obs.capsDiff = capsDiffOf(conn)
		}
		obs.packetSize = conn.PacketSize()
		// the channel can still be closed afterwards
		if err := ch.Close(); err != nil {
			obs.closeErr = err.Error()
		}
		obs.closeOK = true
	}
	out := s.Run(func() {
		var tw *simrt.Task
		if p.Twin {
			tw = simrt.Spawn("twin", func() { client(twin, twinUser(p.User), string(unhex(p.TwinPassword)), p.TwinRemotePw) })
		}
		if p.Prime {
			obs.prime = &loginObs{}
			simrt.Record("prime-login", "", "", 0)
			client(obs.prime, "prime_"+twinUser(p.User)[5:], string(unhex(p.Password)), p.RemotePw)
		}
		client(obs, p.User, string(unhex(p.Password)), p.RemotePw)
		for k := 1; k < p.Storm; k++ {
			client(&loginObs{}, p.User, string(unhex(p.Password)), p.RemotePw)
		}
		if p.Storm > 0 {
			obs.control = &loginObs{}
			simrt.Record("control-login", "", "", 0)
			client(obs.control, "ctl_"+twinUser(p.User)[5:], string(unhex(p.Password)), p.RemotePw)
		}
		if obs.prime != nil && obs.prime.loginErr == nil && obs.prime.conn != nil && p.Encrypted {
			obs.prime.capsLater = capsDiffOf(obs.prime.conn)
		}
		if tw != nil {
			simrt.Join(tw)
		}
	})
	obs.randLog = s.RandLog()
	// which connection belongs to which login is decided by the schedule: tell them apart by the user name
	peers := []*TDSPeer{pr}
	for _, sp := range pr.Subs {
		peers = append(peers, sp)
	}
	for _, q := range peers {
		owner := obs
		if p.ReusePlain && q == pr {
			obs.plainSent = q.Msgs
			continue
		}
		if len(q.Msgs) > 0 {
			if f, _, err := parseLoginRecord(q.Msgs[0].Body); err == nil && strings.HasPrefix(string(f["lusername"].value), "twin_") {
				owner = twin
			}
		} else if p.Twin && len(peers) > 1 && q != pr {
			owner = twin
		}
		if len(owner.sent) == 0 {
			owner.sent = q.Msgs
		}
	}
	if p.Twin {
		twin.randLog = obs.randLog
		obs.twin = twin
	}
	if obs.relogin != nil {
		// split what the main connection received at the second login record
		for i, m := range obs.sent {
			if i > 0 && m.Type == peer.BufLogin {
				obs.relogin.sent = obs.sent[i:]
				obs.sent = obs.sent[:i]
				break
			}
		}
		obs.relogin.randLog = obs.randLog
	}
	return obs, out, pr
}

// ---- C08 ----

type c08 struct{}

func init() { Register(c08{}) }

func (c08) ID() string { return "C08" }

func c08EditCount() int { return len(loginEdits(false)) + len(loginEdits(true)) }
func (c08) NRuns(tier string) int {
	if tier == "thorough" {
		return c08EditCount()*300 + c08CancelSweep(tier) + c08ReloginSweep(tier) + 300000
	}
	return c08EditCount()*6 + c08CancelSweep(tier) + c08ReloginSweep(tier) + 2000
}

// c08ReloginSweep: the number of runs of the relogin sweep (Gen).
func c08ReloginSweep(tier string) int {
	if tier == "thorough" {
		return 800
	}
	return 80
}

// c08CancelSweep: the number of runs of the cancel sweep (Gen).
func c08CancelSweep(tier string) int {
	if tier == "thorough" {
		return 6000
	}
	return 600
}
func (c08) Rule() string {
	return "login scripts derived from the valid plain and encrypted reply scripts: EVERY single edit (delete / duplicate / swap-adjacent each package; each field set to each alternative: ack status, message id, parameter count and types, cipher, key empty/garbage/trailing/PKIX/too small/white space/not PEM/ECDSA and Ed25519 keys, capability masks zero, DONE status bits; reply stops after each package; no reply at all), each classified by construction as MUST-SUCCEED / MUST-FAIL / EITHER, x packetisations x key sizes 1024/1536/2048 x nonce lengths x 0..3 remote servers (quick: 6 variants per edit, thorough: 300), one variant of every edit (and 10% of the others) is preceded by a valid login on its own connection, which must succeed and keep its capabilities; one variant each (and 4% of the others): the server ends the connection (EOF or reset) after a reply that stops early or right after the acceptance; the packets of the replies arrive 0.1..4.9 s apart; the caller cancels the context after 1 ms..10 s; one variant of every edit (and 12% of the others) repeats the login 5..8 times and then make a control login against the valid script (must succeed); plus seeded scripts with benign decorations (invisible ENVCHANGE/EED-info packages) and 2..4 edits; non-trivial = an edit or decoration was applied; distinct = distinct (flow, edit, key size, remote count)"
}
func (c08) Components() map[string]string {
	return map[string]string{"tds (Channel.Login, LoginConfig, rsaEncrypt, capability negotiation, NextPackageUntil)": "real (rewritten)", "crypto/rand": "stub: simrt seeded stream", "server": "stub: two-phase scripted login peer", "clock/contexts": "simulated (30 s login deadline costs no wall time)"}
}

func (c08) Gen(r *Rand, idx int, tier string) interface{} {
	variants := 6
	if tier == "thorough" {
		variants = 300
	}
	ne := c08EditCount() * variants
	if idx < ne {
		e := idx / variants
		plain := loginEdits(false)
		encrypted := e >= len(plain)
		var ed loginEdit
		if encrypted {
			ed = loginEdits(true)[e-len(plain)]
		} else {
			ed = plain[e]
		}
		p := genLoginPlan(r, encrypted)
		ed.apply(p)
		p.Class, p.Edit = ed.class, ed.desc
		if idx%variants != 0 {
			// same edit under another packetisation / read plan (decorations stay out: they could mask the edit)
			for c := r.Intn(4); c > 0; c-- {
				p.Cuts1 = append(p.Cuts1, 1+r.Intn(400))
			}
			for c := r.Intn(3); c > 0; c-- {
				p.Cuts2 = append(p.Cuts2, 1+r.Intn(80))
			}
			p.Async = r.Bool()
		}
		if strings.Contains(ed.desc, "key small") {
			p.NonceLen = 40 // a 512-bit key cannot carry a 40-byte nonce plus a password
		}
		if idx%variants == 1 || r.Pct(12) {
			p.Storm = 5 + r.Intn(4)
		}
		if idx%variants == 2 || r.Pct(10) {
			p.Prime = true
		}
		c08Variants(r, p, idx%variants)
		return p
	}
	if j := idx - ne; j < c08CancelSweep(tier) {
		// cancel sweep: the valid script, the caller's context cancelled after 1, 2, 3 ... steps of a second task -
		// so that some run cancels between any two operations of Login
		p := genLoginPlan(r, j%2 == 0)
		p.Edit = "none (cancel sweep)"
		p.Class = "EITHER"
		p.CancelAtStep = 1 + (j/2)%150
		return p
	}
	if j := idx - ne - c08CancelSweep(tier); j >= 0 && j < c08ReloginSweep(tier) {
		// relogin sweep: the first attempt gets capabilities of another shape and then no final DONE (it fails when
		// its context ends); the second attempt on the same connection meets the valid script
		p := genLoginPlan(r, true)
		shape := []string{"resp", "req", "short", "long", "swapped", "dup", "sec", "onlyreq"}[j%8]
		for i := range p.Phase2 {
			if p.Phase2[i].K == "cap" {
				p.Phase2[i].Zero = shape
				p.Trunc2 = i + 1
			}
		}
		p.Relogin = true
		p.Class = "MUST-FAIL"
		p.Edit = "relogin sweep: capabilities " + shape + ", no final DONE; then a valid second attempt"
		return p
	}
	// seeded: benign decorations only (must succeed), or 2..4 edits (class: MUST-FAIL if any edit is MUST-FAIL, else EITHER)
	encrypted := r.Pct(70)
	p := genLoginPlan(r, encrypted)
	if r.Pct(3) {
		p.Deaf, p.DeafWindow = true, Pick(r, []int{0, 100, 400, 700, 2000, 100000})
		p.Class = "MUST-FAIL"
		p.Edit = fmt.Sprintf("none; the server stops reading (socket buffer %d bytes) and never answers", p.DeafWindow)
		return p
	}
	if r.Pct(50) {
		decorate(r, p)
		p.Edit = "benign decorations"
		c08Variants(r, p, -1)
		return p
	}
	es := loginEdits(encrypted)
	n := 2 + r.Intn(3)
	p.Class = "EITHER"
	var descs []string
	for i := 0; i < n; i++ {
		ed := es[r.Intn(len(es))]
		func() {
			defer func() { recover() }() // an edit may not apply after an earlier one changed the script's shape
			ed.apply(p)
		}()
		descs = append(descs, ed.desc)
	}
	// with several edits the construction no longer tells whether acceptance is impossible: judged for safety properties only
	p.Edit = strings.Join(descs, " + ")
	c08Variants(r, p, -1)
	return p
}

// c08Variants adds transport and time conditions to a login plan: forced 3 / 4 / 5 selects one, otherwise each has 4 %.
func c08Variants(r *Rand, p *loginPlan, forced int) {
	if p.Storm != 0 || p.Prime {
		return
	}
	either := func() {
		if p.Class == "MUST-SUCCEED" {
			p.Class = "EITHER"
		}
	}
	switch {
	case forced == 3 || r.Pct(4):
		if p.Trunc1 >= 0 || p.Trunc2 >= 0 {
			p.EndKind = Pick(r, []string{"eof", "reset"})
		} else {
			p.EndKind = Pick(r, []string{"eof-after", "reset-after"})
			either()
		}
	case forced == 4 || r.Pct(4):
		p.GapMs = Pick(r, []int{100, 100, 2000, 4900})
		if p.GapMs > 100 {
			either()
		}
	case forced < 0 && r.Pct(4):
		// a slow server: it pauses (up to two seconds) while the client writes its login messages, then reads on;
		// the login takes that much longer, nothing else changes (the context has thirty seconds)
		p.Knobs.GenSlow(r, 1500, 2*time.Second)
	case forced == 5 || r.Pct(4):
		if r.Pct(70) {
			p.CancelAtStep = 1 + r.Intn(300)
		} else {
			p.CancelAtMs = Pick(r, []int{1, 5, 100, 10000})
		}
		p.NoDeadline = r.Pct(50)
		either()
	}
}

func (c08) Decode(raw json.RawMessage) (interface{}, error) {
	p := &loginPlan{}
	err := json.Unmarshal(raw, p)
	return p, err
}
func (c08) Shrink(plan interface{}) []interface{} {
	p := plan.(*loginPlan)
	var out []interface{}
	mod := func(f func(q *loginPlan)) {
		q := *p
		f(&q)
		out = append(out, &q)
	}
	if len(p.Cuts1) > 0 {
		mod(func(q *loginPlan) { q.Cuts1 = nil })
	}
	if len(p.Cuts2) > 0 {
		mod(func(q *loginPlan) { q.Cuts2 = nil })
	}
	if len(p.ReadSizes) > 0 {
		mod(func(q *loginPlan) { q.ReadSizes = nil })
	}
	if p.Async {
		mod(func(q *loginPlan) { q.Async = false })
	}
	if p.Remote > 0 {
		mod(func(q *loginPlan) { q.Remote, q.RemoteN, q.RemotePw = 0, nil, nil })
	}
	if p.Storm > 1 {
		mod(func(q *loginPlan) { q.Storm-- })
	}
	if p.Prime {
		mod(func(q *loginPlan) { q.Prime = false })
	}
	return out
}

func (c08) Run(plan interface{}, schedSeed uint64, replay []simrt.Choice, lenient, keepLog bool) (*Verdict, *simrt.Outcome) {
	p := plan.(*loginPlan)
	v := &Verdict{}
	obs, out, _ := runLogin(p, schedSeed, replay, lenient, keepLog)
	StdOutcome(v, out)
	if v.Machinery != "" {
		return v, out
	}
	if obs.setupErr != "" || obs.cfgErr != "" {
		v.Machinery = "setup failed: " + obs.setupErr + obs.cfgErr
		return v, out
	}
	if out.Budget {
		return v, out
	}
	flow := "plain"
	if p.Encrypted {
		flow = "encrypted"
	}
	where := fmt.Sprintf("%s flow, edit [%s] (%s), key %d bits, nonce %d, %d remote servers", flow, p.Edit, p.Class, p.KeyBits, p.NonceLen, p.Remote)
	for _, c := range out.Crashes {
		v.Violate("panic", "panic "+CrashSig(c), "%s: task %s panicked: %s\n%s", where, c.Task, c.Value, c.Stack)
	}
	for _, pk := range out.Parked {
		if !strings.HasPrefix(pk.Task, "go@") {
			if p.Deaf && pk.Op == "write" {
				// the one way a transport write can block here: the peer stopped reading (the library sets no write
				// deadline: the same root as C13's listed finding)
				v.Probe("login-towards-a-peer-that-stopped-reading")
				v.Violate("blocked-write", "login (or the close after it) blocks in a transport write to a peer that stopped reading", "%s: still blocked at the end, long after the context expired: %v", where, out.Parked)
				continue
			}
			v.Violate("blocked", "login or close never returned "+ParkSig(out, Sites), "%s: still blocked at the end: %v", where, out.Parked)
		}
	}
	if p.Deaf {
		v.Probe("kind:deaf-server")
	}
	if v.Class == "" {
		if obs.returnedAt > obs.deadline {
			v.Violate("late", "Login outlived its context", "%s: Login returned at t=%v, the context expired at t=%v", where, obs.returnedAt, obs.deadline)
		}
		switch p.Class {
		case "MUST-FAIL":
			if obs.loginErr == nil {
				v.Violate("false-success", "login succeeded on a reply the server did not accept with: "+editKind(p.Edit), "%s: Login returned nil", where)
			}
		case "MUST-SUCCEED":
			if obs.loginErr != nil {
				v.Violate("false-failure", "login failed on a valid acceptance", "%s: Login returned %v", where, obs.loginErr)
			}
		}
		if obs.loginErr == nil && p.Class != "EITHER" || obs.loginErr == nil && p.Class == "EITHER" && p.Encrypted && obs.capsDiff != "" {
			if p.Encrypted && obs.capsDiff != "" && !capEdited(p) {
				v.Violate("caps", "capabilities after login differ from the server's", "%s: %s", where, obs.capsDiff)
			}
		}
		if p.Relogin && obs.relogin != nil && strings.Contains(p.Edit, "relogin sweep") {
			// the second attempt on the same connection met the valid script: it succeeds, and the connection has the
			// capabilities the server returned THEN
			if obs.relogin.loginErr != nil {
				v.Violate("control-login", "valid login fails after a failed one on the same connection", "%s: the second Login returned %v", where, obs.relogin.loginErr)
			} else if obs.relogin.capsDiff != "" {
				v.Violate("caps", "capabilities after login differ from the server's", "%s: after the second, valid login: %s", where, obs.relogin.capsDiff)
			}
			v.Probe("second-login-on-the-same-connection")
		}
		if obs.loginErr == nil {
			want := 512
			for _, l := range [][]lPkg{p.Phase1, p.Phase2} {
				for _, x := range l {
					if x.K == "env" {
						want = x.S
					}
				}
			}
			if obs.packetSize != want && p.Trunc1 < 0 && p.Trunc2 < 0 {
				v.Violate("packet-size", "packet size after login differs from the announced one", "%s: PacketSize() = %d, announced %d", where, obs.packetSize, want)
			}
		}
		if !obs.closeOK {
			v.Violate("close", "channel cannot be closed after login", "%s: Close did not return", where)
		}
		if c := obs.prime; c != nil {
			v.Probe("primed-with-valid-login")
			if c.setupErr != "" || c.cfgErr != "" {
				v.Machinery = "prime login: setup failed: " + c.setupErr + c.cfgErr
			} else if c.loginErr != nil || c.returnedAt > c.deadline {
				v.Violate("control-login", "valid login before the login under test failed", "%s: the login against a server answering with the valid script returned %v", where, c.loginErr)
			} else if c.capsDiff != "" && p.Encrypted {
				v.Violate("caps", "capabilities after login differ from the server's", "%s: (first, valid login) %s", where, c.capsDiff)
			} else if c.capsLater != "" {
				v.Violate("caps", "capabilities of an earlier connection changed by a later login", "%s: the connection of the earlier valid login now has: %s", where, c.capsLater)
			}
		}
		if c := obs.control; c != nil {
			v.Probe("storm-then-control-login")
			if c.setupErr != "" || c.cfgErr != "" {
				v.Machinery = "control login: setup failed: " + c.setupErr + c.cfgErr
			} else if c.loginErr != nil || c.returnedAt > c.deadline {
				v.Violate("control-login", "valid login fails after earlier logins in the same process", "%s: after %d such logins a login against a server answering with the valid script returned %v (t=%v, deadline %v)", where, p.Storm, c.loginErr, c.returnedAt, c.deadline)
			}
		}
	}
	v.Probe("class:" + p.Class)
	if p.EndKind != "" {
		v.Probe("server-ends-connection:" + p.EndKind)
	}
	if p.GapMs > 0 {
		v.Probe("replies-trickle")
	}
	if p.CancelAtMs > 0 || p.CancelAtStep > 0 {
		v.Probe("context-cancelled-by-caller")
	}
	if obs.loginErr == nil {
		v.Probe("outcome:success")
	} else {
		v.Probe("outcome:error")
	}
	if p.Edit != "none" {
		v.Nontrivial = fmt.Sprintf("%s|%s|%d|%d", flow, p.Edit, p.KeyBits, p.Remote)
	}
	errStr := ""
	if obs.loginErr != nil {
		errStr = short(obs.loginErr.Error(), 120)
	}
	v.Sample = map[string]interface{}{"flow": flow, "edit": p.Edit, "class": p.Class, "key_bits": p.KeyBits, "nonce": p.NonceLen, "remote": p.Remote, "login_error": errStr, "returned_at": fmt.Sprint(obs.returnedAt)}
	return v, out
}

func capEdited(p *loginPlan) bool {
	n := 0
	for _, x := range p.Phase2 {
		if x.K == "cap" {
			n++
			if x.Zero != "" {
				return true
			}
		}
	}
	return n != 1
}

func editKind(e string) string {
	e = strings.TrimSpace(e)
	if i := strings.Index(e, ":"); i > 0 {
		return e
	}
	return e
}

// ---- C09 ----

type c09 struct{}

func init() { Register(c09{}) }

func (c09) ID() string { return "C09" }
func (c09) NRuns(tier string) int {
	if tier == "thorough" {
		return 120000
	}
	return 4000
}
func (c09) Rule() string {
	return "encrypted logins (and plain logins as control) with random passwords and remote passwords of length 0..key capacity, marker passwords (>= 8 random bytes) also chosen to equal / contain / be contained in user, host, application and remote server names, key sizes 1024/1536/2048, nonce lengths 0..64, 0..3 remote servers, valid and failing reply scripts; the peer holds the private key; non-trivial = encrypted flow reached the password message; distinct = distinct (collision class, remote count, key size, script class)"
}
func (c09) Components() map[string]string {
	return map[string]string{"tds (Login, LoginConfig.pack, rsaEncrypt, generateSymmetricKey)": "real (rewritten)", "crypto/rand": "stub: simrt seeded stream with every draw logged", "server": "stub: decrypting login peer with independent login-record / MSG / PARAMFMT / PARAMS decoders", "crypto/rsa for decryption": "trusted"}
}

func (c09) Gen(r *Rand, idx int, tier string) interface{} {
	encrypted := idx%8 != 7 // every 8th run is the plain-flow control
	p := genLoginPlan(r, encrypted)
	capacity := p.KeyBits/8 - 42 - p.NonceLen
	if capacity < 0 {
		capacity = 0
	}
	pwLen := func() int {
		switch r.Intn(5) {
		case 0:
			return 0
		case 1:
			return capacity
		case 2:
			if capacity > 30 {
				return 30
			}
			return capacity
		}
		if capacity > 0 {
			return r.Intn(capacity + 1)
		}
		return 0
	}
	rawSecrets := r.Pct(40)
	marker := func(n int) []byte {
		b := r.Bytes(n)
		if rawSecrets {
			// any bytes: NUL, quotes, percent signs, bytes that are TDS tokens, bytes above 0x7f
			for i := range b {
				if r.Pct(20) {
					b[i] = Pick(r, []byte{0x00, 0x27, 0x25, 0x65, 0x71, 0xD7, 0xEC, 0xFF, 0x80, 0x0A, 0x20})
				}
			}
			return b
		}
		for i := range b { // printable and unmistakable
			b[i] = "ABCDEFGHJKLMNPQRSTUVWXYZ23456789"[int(b[i])%32]
		}
		return b
	}
	pw := marker(pwLen())
	if !encrypted && len(pw) > 30 {
		pw = pw[:30]
	}
	if !encrypted && len(pw) < 8 {
		pw = marker(12)
	}
	switch r.Intn(6) {
	case 0:
		if len(pw) >= 1 && len(pw) <= 30 {
			p.User = string(pw) // user name equals the password
			p.Edit = "user=password"
		}
	case 1:
		if len(pw) >= 4 {
			p.Host = string(pw[:len(pw)/2]) // host is a prefix of the password
			if len(p.Host) > 30 {
				p.Host = p.Host[:30]
			}
			p.Edit = "host-in-password"
		}
	case 2:
		if len(pw)+4 <= 30 {
			p.App = "xx" + string(pw) + "yy" // password contained in the application name
			p.Edit = "password-in-app"
		}
	}
	p.Password = hexOf(pw)
	p.RemoteN, p.RemotePw = nil, nil
	for i := 0; i < p.Remote; i++ {
		p.RemoteN = append(p.RemoteN, "srv"+randName(r, r.Intn(10)))
		p.RemotePw = append(p.RemotePw, hexOf(marker(pwLen())))
	}
	if p.Edit == "none" || p.Edit == "" {
		p.Edit = "random"
	}
	if encrypted && r.Pct(25) {
		// a second login runs concurrently on its own connection with its own secrets
		p.Twin = true
		p.TwinAltKey = r.Bool()
		p.TwinPassword = hexOf(marker(pwLen()))
		for i := 0; i < p.Remote; i++ {
			p.TwinRemotePw = append(p.TwinRemotePw, hexOf(marker(pwLen())))
		}
	}
	if encrypted && !p.Twin && r.Pct(10) {
		p.Relogin = true
		p.Edit += " + second login attempt on the same connection"
	} else if encrypted && !p.Twin && r.Pct(12) {
		p.ReusePlain = true
		p.Edit += " + configuration used for a plain login first"
	}
	// secrets that do not fit into one RSA block: the encryption fails and the error path must not leak either
	if encrypted && r.Pct(12) {
		over := marker(capacity + 1 + r.Intn(24))
		if p.Remote > 0 && r.Pct(70) {
			p.RemotePw[r.Intn(p.Remote)] = hexOf(over)
			p.Edit += " + oversized remote password"
		} else {
			p.Password = hexOf(over)
			p.Edit += " + oversized password"
		}
		p.Class = "MUST-FAIL"
	}
	if encrypted && r.Pct(25) {
		// failing scripts: error paths must not leak either
		es := loginEdits(true)
		ed := es[r.Intn(len(es))]
		ed.apply(p)
		p.Class = ed.class
		p.Edit += " + " + ed.desc
		if strings.Contains(ed.desc, "key small") {
			p.NonceLen = 40
		}
	} else if r.Pct(40) {
		decorate(r, p)
	}
	if !p.Twin && !p.ReusePlain && r.Pct(6) {
		// a slow server: it pauses (up to two seconds) while the client writes its login messages, then reads on
		p.Knobs.GenSlow(r, 1500, 2*time.Second)
		p.Edit += " + slow server"
	}
	return p
}
func (c09) Decode(raw json.RawMessage) (interface{}, error) {
	p := &loginPlan{}
	err := json.Unmarshal(raw, p)
	return p, err
}
func (c09) Shrink(plan interface{}) []interface{} { return c08{}.Shrink(plan) }

// login record layout per the TDS 5.0 specification: (name, length, has trailing length byte)
var loginLayout = []struct {
	name string
	n    int
	lenb bool
}{
	{"lhostname", 30, true}, {"lusername", 30, true}, {"lpw", 30, true}, {"lhostproc", 30, true},
	{"lint2", 1, false}, {"lint4", 1, false}, {"lchar", 1, false}, {"lflt", 1, false}, {"ldate", 1, false},
	{"lusedb", 1, false}, {"ldmpld", 1, false}, {"linterfacespare", 1, false}, {"ltype", 1, false},
	{"lbufsize", 4, false}, {"lspare", 3, false},
	{"lappname", 30, true}, {"lservname", 30, true}, {"lrempw", 255, true},
	{"ltds", 4, false}, {"lprogname", 10, true}, {"lprogvers", 4, false},
	{"lnoshort", 1, false}, {"lflt4", 1, false}, {"ldate4", 1, false},
	{"llanguage", 30, true}, {"lsetlang", 1, false}, {"loldsecure", 2, false},
	{"lseclogin", 1, false}, {"lsecbulk", 1, false}, {"lhalogin", 1, false}, {"lhasessionid", 6, false},
	{"lsecspare", 2, false}, {"lcharset", 30, true}, {"lsetcharset", 1, false},
	{"lpacketsize", 6, true}, {"ldummy", 4, false},
}

type loginField struct {
	name  string
	raw   []byte // the padded field
	value []byte // raw[:len]
	off   int
}

// parseLoginRecord attributes every byte of the login record to a field.
func parseLoginRecord(b []byte) (map[string]loginField, int, error) {
	fields := map[string]loginField{}
	off := 0
	for _, f := range loginLayout {
		need := f.n
		if f.lenb {
			need++
		}
		if off+need > len(b) {
			return nil, off, fmt.Errorf("login record too short: field %s at offset %d needs %d bytes, %d left", f.name, off, need, len(b)-off)
		}
		lf := loginField{name: f.name, raw: b[off : off+f.n], off: off}
		if f.lenb {
			l := int(b[off+f.n])
			if l > f.n {
				return nil, off, fmt.Errorf("field %s declares length %d > %d", f.name, l, f.n)
			}
			lf.value = lf.raw[:l]
			for _, z := range lf.raw[l:] {
				if z != 0 {
					return nil, off, fmt.Errorf("field %s has non-zero padding", f.name)
				}
			}
		} else {
			lf.value = lf.raw
		}
		fields[f.name] = lf
		off += need
	}
	return fields, off, nil
}

// parseTokens cuts a client message into tokens with the independent layouts: CAPABILITY, MSG, PARAMFMT, PARAMS.
type cliToken struct {
	tok  byte
	body []byte
	off  int
	cols []byte   // paramfmt: column types
	vals [][]byte // params: values
}

func parseClientTokens(b []byte, startOff int) ([]cliToken, error) {
	var out []cliToken
	var lastFmt []byte
	i := 0
	for i < len(b) {
		tok := b[i]
		t := cliToken{tok: tok, off: startOff + i}
		switch tok {
		case 0xE2: // CAPABILITY: length(2) then body
			if i+3 > len(b) {
				return out, fmt.Errorf("truncated CAPABILITY at %d", startOff+i)
			}
			l := int(binary.LittleEndian.Uint16(b[i+1:]))
			if i+3+l > len(b) {
				return out, fmt.Errorf("CAPABILITY length %d exceeds message", l)
			}
			t.body = b[i+3 : i+3+l]
			i += 3 + l
		case 0x65: // MSG: length(1)=3, status(1), id(2)
			if i+5 > len(b) || b[i+1] != 3 {
				return out, fmt.Errorf("malformed MSG at %d", startOff+i)
			}
			t.body = b[i+2 : i+5]
			i += 5
		case 0xEC: // PARAMFMT: length(2), count(2), per column: namelen(1) name status(1) usertype(4) type(1) [len(1|4)] localelen(1)
			if i+5 > len(b) {
				return out, fmt.Errorf("truncated PARAMFMT at %d", startOff+i)
			}
			l := int(binary.LittleEndian.Uint16(b[i+1:]))
			if i+3+l > len(b) {
				return out, fmt.Errorf("PARAMFMT length %d exceeds message", l)
			}
			body := b[i+3 : i+3+l]
			n := int(binary.LittleEndian.Uint16(body))
			j := 2
			for c := 0; c < n; c++ {
				if j >= len(body) {
					return out, fmt.Errorf("PARAMFMT column %d beyond its length", c)
				}
				nl := int(body[j])
				j += 1 + nl + 1 + 4
				if j >= len(body) {
					return out, fmt.Errorf("PARAMFMT column %d truncated", c)
				}
				typ := body[j]
				j++
				switch typ {
				case peer.TDS_LONGBINARY, peer.TDS_LONGCHAR:
					j += 4
				case peer.TDS_VARCHAR, peer.TDS_VARBINARY, peer.TDS_INTN:
					j++
				case peer.TDS_INT4, peer.TDS_INT2:
				default:
					return out, fmt.Errorf("PARAMFMT column %d: unexpected type %#x in a login message", c, typ)
				}
				if j >= len(body)+0 && j != len(body)-0 {
				}
				if j >= len(body) {
					return out, fmt.Errorf("PARAMFMT column %d: no locale length", c)
				}
				j += 1 + int(body[j])
				t.cols = append(t.cols, typ)
			}
			if j != len(body) {
				return out, fmt.Errorf("PARAMFMT: %d unexplained bytes", len(body)-j)
			}
			lastFmt = t.cols
			t.body = body
			i += 3 + l
		case 0xD7: // PARAMS: values per the preceding format
			j := i + 1
			for c, typ := range lastFmt {
				switch typ {
				case peer.TDS_LONGBINARY, peer.TDS_LONGCHAR:
					if j+4 > len(b) {
						return out, fmt.Errorf("PARAMS value %d truncated", c)
					}
					l := int(binary.LittleEndian.Uint32(b[j:]))
					j += 4
					if j+l > len(b) {
						return out, fmt.Errorf("PARAMS value %d: length %d exceeds message", c, l)
					}
					t.vals = append(t.vals, b[j:j+l])
					j += l
				case peer.TDS_VARCHAR, peer.TDS_VARBINARY:
					if j+1 > len(b) {
						return out, fmt.Errorf("PARAMS value %d truncated", c)
					}
					l := int(b[j])
					j++
					if j+l > len(b) {
						return out, fmt.Errorf("PARAMS value %d: length %d exceeds message", c, l)
					}
					t.vals = append(t.vals, b[j:j+l])
					j += l
				default:
					return out, fmt.Errorf("PARAMS value %d of type %#x not expected", c, typ)
				}
			}
			t.body = b[i+1 : j]
			i = j
		case 0x71: // LOGOUT: options(1)
			if i+2 > len(b) {
				return out, fmt.Errorf("truncated LOGOUT at %d", startOff+i)
			}
			t.body = b[i+1 : i+2]
			i += 2
		default:
			return out, fmt.Errorf("unexplained byte %#x at offset %d of the message", tok, startOff+i)
		}
		out = append(out, t)
	}
	return out, nil
}

// oaepSeed recovers the OAEP seed of a ciphertext with the private key (raw RSA + manual unpadding).
func oaepSeed(priv *rsa.PrivateKey, ct []byte) ([]byte, error) {
	k := (priv.N.BitLen() + 7) / 8
	if len(ct) != k {
		return nil, fmt.Errorf("ciphertext length %d, modulus %d bytes", len(ct), k)
	}
	m := new(big.Int).Exp(new(big.Int).SetBytes(ct), priv.D, priv.N)
	em := m.FillBytes(make([]byte, k))
	if em[0] != 0 {
		return nil, fmt.Errorf("leading byte not zero")
	}
	hLen := sha1.Size
	maskedSeed := em[1 : 1+hLen]
	maskedDB := em[1+hLen:]
	seed := make([]byte, hLen)
	copy(seed, maskedSeed)
	mgf1XOR(seed, maskedDB)
	return seed, nil
}

func mgf1XOR(out, seed []byte) {
	var counter [4]byte
	done := 0
	for done < len(out) {
		h := sha1.New()
		h.Write(seed)
		h.Write(counter[:])
		d := h.Sum(nil)
		for i := 0; i < len(d) && done < len(out); i++ {
			out[done] ^= d[i]
			done++
		}
		for i := 3; i >= 0; i-- {
			counter[i]++
			if counter[i] != 0 {
				break
			}
		}
	}
}

func (c09) Run(plan interface{}, schedSeed uint64, replay []simrt.Choice, lenient, keepLog bool) (*Verdict, *simrt.Outcome) {
	p := plan.(*loginPlan)
	v := &Verdict{}
	obs, out, _ := runLogin(p, schedSeed, replay, lenient, keepLog)
	StdOutcome(v, out)
	if v.Machinery != "" {
		return v, out
	}
	if obs.setupErr != "" {
		v.Machinery = "setup failed: " + obs.setupErr
		return v, out
	}
	if out.Budget {
		return v, out
	}
	// random values used by any login of the run: each OAEP seed and each session key must be a draw of its own
	seeds := map[string]bool{}
	var reloginObs *loginObs
	judge := func(obs *loginObs, passwordHex string, remotePwHex []string, user string) {
		isTwin := strings.HasPrefix(user, "twin_")
		isRelogin := obs == reloginObs && obs != nil
		pw := unhex(passwordHex)
		var secrets [][]byte
		secrets = append(secrets, pw)
		for _, x := range remotePwHex {
			secrets = append(secrets, unhex(x))
		}
		where := fmt.Sprintf("edit [%s], encrypted=%v, key %d bits, nonce %d, password %d bytes, %d remote servers", p.Edit, p.Encrypted, p.KeyBits, p.NonceLen, len(pw), p.Remote)
		for _, c := range out.Crashes {
			v.Violate("panic", "panic "+CrashSig(c), "%s: task %s panicked: %s\n%s", where, c.Task, c.Value, c.Stack)
		}
		if out.Races > 0 {
			v.Violate("race", "race", "%s: the race detector reported %d data race(s) on this schedule", where, out.Races)
		}
		if obs.cfgErr != "" {
			for _, s := range secrets {
				if len(s) >= 8 && strings.Contains(obs.cfgErr, string(s)) {
					v.Violate("leak-in-error", "password in configuration error", "%s: NewLoginConfig error contains the password", where)
				}
			}
			return
		}
		if len(obs.sent) == 0 || (obs.loginErr != nil && len(obs.sent[0].Body) == 2 && obs.sent[0].Body[0] == 0x71 && obs.sent[0].Type != peer.BufLogin) {
			// (a first message that is the LOGOUT of the harness's Close: Login itself wrote nothing)
			if obs.loginErr == nil {
				v.Machinery = "the client sent nothing"
				return
			}
			// Login gave up before it wrote anything: what it says must still not contain a secret
			for si, s := range secrets {
				if len(s) >= 8 && strings.Contains(obs.loginErr.Error(), string(s)) {
					v.Violate("leak-in-error", "password in login error", "%s: the error returned by Login (which sent nothing) contains secret #%d: %s", where, si, short(obs.loginErr.Error(), 200))
				}
			}
			v.Probe("login-failed-before-sending")
			return
		}
		configured := map[string]string{"lhostname": p.Host, "lusername": user, "lappname": p.App}
		// every byte the client wrote during login
		first := obs.sent[0].Body
		fields, n, err := parseLoginRecord(first)
		if err != nil {
			v.Violate("unexplained-bytes", "login record does not parse", "%s: %v", where, err)
			return
		}
		toks1, err := parseClientTokens(first[n:], n)
		if err != nil {
			v.Violate("unexplained-bytes", "bytes after the login record not explained", "%s: %v", where, err)
		}
		if len(toks1) != 1 || toks1[0].tok != 0xE2 {
			v.Violate("unexplained-bytes", "first message is not login record + capability token", "%s: %d tokens after the login record", where, len(toks1))
		}
		if !p.Encrypted {
			// control: the plain flow does carry the password in its slot
			if string(fields["lpw"].value) == string(pw) {
				v.Probe("control:plain-password-found-in-slot")
			} else {
				v.Violate("control-failed", "control: plain flow password not in its slot", "%s: the password slot holds %q", where, fields["lpw"].value)
			}
			v.Sample = map[string]interface{}{"control": true, "password_len": len(pw)}
			return
		}
		// (2) slots empty
		if len(fields["lpw"].value) != 0 || !bytes.Equal(fields["lpw"].raw, make([]byte, 30)) {
			v.Violate("clear-password", "password slot not empty under encryption", "%s: the login record's password slot holds %x", where, fields["lpw"].raw)
		}
		if len(fields["lrempw"].value) != 0 || !bytes.Equal(fields["lrempw"].raw, make([]byte, 255)) {
			v.Violate("clear-password", "remote password slot not empty under encryption", "%s: the remote password slot is not empty", where)
		}
		// (3) markers nowhere in the written bytes outside fields configured to contain them
		var allWritten []byte
		for _, m := range obs.sent {
			allWritten = append(allWritten, m.Body...)
		}
		for si, s := range secrets {
			if len(s) < 8 {
				continue
			}
			idx := 0
			for {
				k := bytes.Index(allWritten[idx:], s)
				if k < 0 {
					break
				}
				at := idx + k
				explained := false
				for name, val := range configured {
					f := fields[name]
					if strings.Contains(val, string(s)) && at >= f.off && at+len(s) <= f.off+len(f.raw) {
						explained = true
					}
				}
				if !explained {
					v.Violate("clear-password", "password bytes on the wire", "%s: secret #%d appears in clear at offset %d of the bytes written", where, si, at)
				}
				idx = at + 1
			}
		}
		// (6) error text
		if obs.loginErr != nil {
			for si, s := range secrets {
				if len(s) >= 8 && strings.Contains(obs.loginErr.Error(), string(s)) {
					v.Violate("leak-in-error", "password in login error", "%s: the error returned by Login contains secret #%d: %s", where, si, short(obs.loginErr.Error(), 200))
				}
			}
		}
		// the second message, if the negotiation got that far
		if len(obs.sent) >= 2 && len(obs.sent[1].Body) > 0 && !(len(obs.sent[1].Body) == 2 && obs.sent[1].Body[0] == 0x71) {
			toks, err := parseClientTokens(obs.sent[1].Body, 0)
			if err != nil {
				v.Violate("unexplained-bytes", "second login message not explained", "%s: %v", where, err)
				return
			}
			kp := p
			if isTwin && p.TwinAltKey {
				q := *p
				q.altKey = true
				kp = &q
			}
			_, priv := kp.keyPEM()
			nonce := p.nonce()
			// expected structure: MSG LOGPWD3(31), PARAMFMT(LONGBINARY), PARAMS; MSG REMPWD3(32), PARAMFMT(VARCHAR,LONGBINARY)*, PARAMS; MSG SYMKEY(34), PARAMFMT(LONGBINARY), PARAMS
			var cts [][]byte
			var want [][]byte
			type msgGroup struct {
				id   uint16
				fmtT []byte
				vals [][]byte
			}
			var groups []msgGroup
			// a login that failed half-way leaves its queued packages to be flushed with the logout token: still
			// attributable bytes, the structure is then a prefix of the three groups followed by LOGOUT
			if n := len(toks); n > 0 && toks[n-1].tok == 0x71 && obs.loginErr != nil {
				toks = toks[:n-1]
				v.Probe("login-leftover-flushed-with-logout")
			}
			for i := 0; i+2 < len(toks)+0 && i < len(toks); i += 3 {
				if i+2 >= len(toks) || toks[i].tok != 0x65 || toks[i+1].tok != 0xEC || toks[i+2].tok != 0xD7 {
					v.Violate("unexplained-bytes", "second login message has unexpected structure", "%s: tokens %v", where, tokList(toks))
					return
				}
				groups = append(groups, msgGroup{binary.LittleEndian.Uint16(toks[i].body[1:]), toks[i+1].cols, toks[i+2].vals})
			}
			ids := []uint16{31, 32, 34}
			okStruct := len(groups) <= 3 && (len(groups) == 3 || obs.loginErr != nil)
			for i := range groups {
				if i < 3 && groups[i].id != ids[i] {
					okStruct = false
				}
			}
			if !okStruct {
				v.Violate("unexplained-bytes", "second login message has unexpected structure", "%s: tokens %v", where, tokList(toks))
				return
			}
			if len(groups) < 3 {
				// judge what was sent: pad the missing groups so that the code below skips them
				v.Probe("partial-second-message")
			}
			if len(groups) >= 1 && len(groups[0].vals) != 1 {
				v.Violate("wrong-credentials", "password message malformed", "%s: %d values in the password message", where, len(groups[0].vals))
				return
			}
			if len(groups) >= 1 {
				cts = append(cts, groups[0].vals[0])
				want = append(want, append(append([]byte{}, nonce...), pw...))
			}
			// remote servers: the first pair is ("", account password), then the configured ones
			rn := append([]string{""}, p.RemoteN...)
			rp := append([][]byte{pw}, secrets[1:]...)
			if isRelogin {
				rn = append([]string{""}, rn...)
				rp = append([][]byte{pw}, rp...)
			}
			if p.ReusePlain {
				// Login prepends the ("", account password) pair to the configuration's list every time it is used:
				// a configuration used twice carries the pair twice. Both copies are judged like any other secret.
				rn = append([]string{""}, rn...)
				rp = append([][]byte{pw}, rp...)
			}
			if len(groups) >= 2 && len(groups[1].vals) != 2*len(rn) {
				v.Violate("wrong-credentials", "remote password message has wrong pair count", "%s: %d values for %d servers", where, len(groups[1].vals), len(rn))
				return
			}
			for i := range rn {
				if len(groups) < 2 {
					break
				}
				if string(groups[1].vals[2*i]) != rn[i] {
					v.Violate("wrong-credentials", "remote server name mismatch", "%s: pair %d carries name %q, configured %q", where, i, groups[1].vals[2*i], rn[i])
				}
				cts = append(cts, groups[1].vals[2*i+1])
				want = append(want, append(append([]byte{}, nonce...), rp[i]...))
			}
			if len(groups) >= 3 {
				if len(groups[2].vals) != 1 {
					v.Violate("wrong-credentials", "session key message malformed", "%s", where)
					return
				}
				cts = append(cts, groups[2].vals[0])
				want = append(want, nil) // session key: checked separately
			}
			var draws [][]byte
			for _, d := range obs.randLog {
				draws = append(draws, d.Bytes)
			}
			isDraw := func(b []byte) bool {
				for _, d := range draws {
					if bytes.Equal(d, b) {
						return true
					}
				}
				return false
			}
			for i, ct := range cts {
				pt, err := rsa.DecryptOAEP(sha1.New(), nil, priv, ct, []byte{})
				if err != nil {
					v.Violate("not-decryptable", "ciphertext does not decrypt with RSA-OAEP/SHA-1", "%s: ciphertext #%d: %v", where, i, err)
					continue
				}
				if want[i] != nil {
					if !bytes.Equal(pt, want[i]) {
						v.Violate("wrong-plaintext", "ciphertext does not decrypt to nonce followed by the password", "%s: ciphertext #%d decrypts to %d bytes, expected nonce(%d)+secret(%d)", where, i, len(pt), len(nonce), len(want[i])-len(nonce))
					}
				} else {
					if len(pt) != len(nonce)+32 || !bytes.Equal(pt[:len(nonce)], nonce) {
						v.Violate("wrong-plaintext", "session key is not nonce followed by 32 bytes", "%s: session key plaintext has %d bytes", where, len(pt))
					} else if !isDraw(pt[len(nonce):]) {
						v.Violate("stale-randomness", "session key is not a fresh random draw", "%s: the 32 session key bytes are not one of the %d random draws of this login", where, len(draws))
					} else if seeds["key:"+string(pt[len(nonce):])] {
						v.Violate("stale-randomness", "session key reused", "%s: the session key was already used by another login of this run", where)
					} else {
						seeds["key:"+string(pt[len(nonce):])] = true
					}
				}
				seed, err := oaepSeed(priv, ct)
				if err != nil {
					v.Violate("not-decryptable", "OAEP seed not recoverable", "%s: %v", where, err)
					continue
				}
				if seeds[string(seed)] {
					v.Violate("stale-randomness", "OAEP seed reused", "%s: ciphertext #%d reuses the OAEP seed of an earlier one", where, i)
				}
				seeds[string(seed)] = true
				if !isDraw(seed) {
					v.Violate("stale-randomness", "OAEP seed is not a fresh random draw", "%s: the seed of ciphertext #%d is not among the random draws of this login", where, i)
				}
			}
			v.Nontrivial = fmt.Sprintf("%s|%d|%d|%s", strings.SplitN(p.Edit, " + ", 2)[0], p.Remote, p.KeyBits, p.Class)
			v.Probe("password-message-decrypted")
		}
	}
	judge(obs, p.Password, p.RemotePw, p.User)
	// whatever bytes the secrets consist of: a valid acceptance is a successful login (C08's passwords are tame)
	if v.Class == "" && p.Class == "MUST-SUCCEED" {
		for _, o := range []*loginObs{obs, obs.twin} {
			if o != nil && o.loginErr != nil {
				v.Violate("false-failure", "login with these secrets failed on a valid acceptance", "edit [%s], encrypted=%v, key %d bits, nonce %d, password %q, %d remote servers: Login returned %v", p.Edit, p.Encrypted, p.KeyBits, p.NonceLen, unhex(p.Password), p.Remote, o.loginErr)
			}
		}
	}
	if obs.relogin != nil && v.Class == "" && len(obs.relogin.sent) > 0 {
		v.Probe("second-login-on-the-same-connection")
		reloginObs = obs.relogin
		judge(obs.relogin, p.Password, p.RemotePw, p.User)
	}
	if obs.twin != nil && v.Class == "" {
		v.Probe("concurrent-logins")
		judge(obs.twin, p.TwinPassword, p.TwinRemotePw, twinUser(p.User))
	}
	if obs.twin != nil && v.Class == "" && p.Encrypted {
		// nothing of the other login's secrets on this login's connection or in its error text (the twin's secrets
		// are independent markers that no configured field of the main login contains)
		var mainBytes []byte
		for _, m := range obs.sent {
			mainBytes = append(mainBytes, m.Body...)
		}
		errText := ""
		if obs.loginErr != nil {
			errText = obs.loginErr.Error()
		}
		for _, hx := range append([]string{p.TwinPassword}, p.TwinRemotePw...) {
			sec := unhex(hx)
			if len(sec) < 8 {
				continue
			}
			if bytes.Contains(mainBytes, sec) {
				v.Violate("clear-password", "a secret of a concurrent login appears on another connection", "edit [%s]: a secret of the second login (%d bytes) appears in clear in the bytes the first login wrote", p.Edit, len(sec))
			}
			if strings.Contains(errText, string(sec)) {
				v.Violate("password-in-error", "a secret of a concurrent login appears in another login's error", "edit [%s]: the first login's error text contains a secret of the second login", p.Edit)
			}
		}
	}
	pw := unhex(p.Password)
	v.Probe("class:" + p.Class)
	v.Sample = map[string]interface{}{"edit": p.Edit, "key_bits": p.KeyBits, "nonce": p.NonceLen, "password_len": len(pw), "remote": p.Remote, "messages_sent": len(obs.sent)}
	return v, out
}

// twinUser is the account name of the concurrent second login.
func twinUser(u string) string {
	if len(u) > 20 {
		u = u[:20]
	}
	return "twin_" + u
}

func tokList(ts []cliToken) []string {
	var l []string
	for _, t := range ts {
		l = append(l, fmt.Sprintf("%#x", t.tok))
	}
	return l
}

// RequiredProbes: a batch in which one of these never fired explored nothing of that kind (exit 2, not a pass).
func (c08) RequiredProbes() []string {
	return []string{"class:MUST-FAIL", "class:MUST-SUCCEED", "class:EITHER", "outcome:success", "outcome:error"}
}

// For C09 the control is essential: without plain-flow runs that DO find the password the search could pass vacuously.
func (c09) RequiredProbes() []string {
	return []string{"control:plain-password-found-in-slot", "password-message-decrypted", "concurrent-logins"}
}
