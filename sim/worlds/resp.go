package worlds

import (
	"io"
	"encoding/binary"
	"context"
	"errors"
	"fmt"
	"strings"
	"time"

	"github.com/SAP/go-dblib/tds"
	"github.com/SAP/go-dblib/zz_verif/peer"
	"github.com/SAP/go-dblib/zz_verif/simrt"
)

// Shared machinery of the "one response" worlds (C02, C07, C10, C14): a
// client on channel 0 sends one language request; the peer answers with a
// response whose bytes, packetisation, delivery and failure the plan decides;
// a consumer task drains the channel.

// zooIndex names the validated entries and - where the name is free - the disputed ones (encodings on which the
// library's decoder and the TDS layout disagree: differential oracles can still use those the library accepts).
var zooIndex = func() map[string]peer.Entry {
	m := map[string]peer.Entry{}
	for _, e := range peer.Zoo() {
		m[e.Name] = e
	}
	for _, e := range peer.ZooDisputed() {
		if _, dup := m[e.Name]; !dup {
			m[e.Name] = e
		}
	}
	return m
}()

var zooList = peer.Zoo()

// zooDisputed: the disputed entries whose name is not taken by a validated entry, and a set of their names.
var zooDisputed, isDisputed = func() ([]peer.Entry, map[string]bool) {
	val := map[string]bool{}
	for _, e := range peer.Zoo() {
		val[e.Name] = true
	}
	var l []peer.Entry
	m := map[string]bool{}
	for _, e := range peer.ZooDisputed() {
		if !val[e.Name] && !m[e.Name] {
			l = append(l, e)
			m[e.Name] = true
		}
	}
	return l, m
}()

// respDelivery describes how the peer hands a response to the transport.
type respDelivery struct {
	Packets [][]byte // complete packets, in order
	// Pauses: after the packet with index i (0-based) has been delivered the peer waits for quiescence
	// (simulated time passes) before it continues.
	PauseAfterByte []int // byte offsets of the wire stream after which the peer waits for quiescence
	// PauseFor: how long each of these pauses lasts (default: one second)
	PauseFor time.Duration
	// Terminal condition after TermAt bytes of the wire stream (-1: none).
	TermKind     int
	TermAt       int
	TermWithData bool
	Async        bool
	// TermDelay: the terminal condition is set that long after the last byte was delivered (silence first).
	TermDelay time.Duration
}

type respClient struct {
	QueueSize    int
	ReadTimeoutS int
	DebugLog     bool
	ReadSizes    []int
	// DrainFor is the consumer's context timeout (simulated).
	DrainFor time.Duration
	// Poll: the consumer polls with wait=false at these simulated times instead of draining.
	PollAt []time.Duration
	// NoDump: record delivered packages without rendering them (C10 measures allocations).
	NoDump bool
	// Hooks registers a message hook and an environment-change hook whose calls are recorded among the
	// deliveries (plain builds only: the hooks run in the reader task).
	Hooks bool
	// Twin: a second connection of the same process receives a different response at the same time (small
	// reads, one event per packet). What the first connection delivers may not depend on it.
	Twin bool
	// SendAfter > 0: when the drain is over the client sends one more message of about that many bytes (what
	// the response left behind - packet size, queue state - is used by the next request).
	SendAfter int
	// PollEvery > 0: the consumer never blocks in the library: it polls (wait=false) and sleeps that long when
	// nothing is ready.
	PollEvery time.Duration
	// AnswerAfter: the peer answers the request sent after the drain (SendAfter) with this valid response and the
	// client reads it: what the first response left behind in the channel (receive queue, last format, end-of-
	// message state) meets well-formed data. Only safety is judged (AfterRecs is informational).
	AnswerAfter []byte
	// QueueBefore > 0: after its request the client queues that many bytes of a next message (not sent) before it
	// reads the response.
	QueueBefore  int
	QueueBeforeN int // that many further packages of the same size
	// MaxErrs: the drain gives up after this many errors in a row (default 4).
	MaxErrs int
	// Logical: the exchange runs on a logical channel (set up with SETUP / PROTACK) instead of channel 0.
	Logical bool
	// Transients: offsets in the stream the server sends (from its first byte) at which one Read fails with a
	// timeout error although the stream goes on.
	Transients   []int
	TransientEOF bool
	// TransientFor > 0: the (0, io.EOF) reads go on for that long before the stream continues
	TransientFor time.Duration
	// Until: the consumer reads with NextPackageUntil - "nil": without a callback, call after call (a call that reports
	// the response consumed is recorded as "end-of-response"); "err": one call whose callback fails on the first
	// package (recorded as "callback-call-returned" with the error it returned), then plain receives.
	Until string
	// ZeroNil: stream offsets at which one Read returns (0, nil)
	ZeroNil []int
	// Bystander: a second goroutine waits in a blocking receive on another (logical) channel of the connection
	// while the exchange runs; nothing is ever sent to that channel. What the transport does concerns it too.
	Bystander bool
	// Render: the consumer uses what it receives the way a driver does: String() of every package and of every
	// row / parameter value (direct calls: fmt would recover a panic).
	Render bool
}

type respResult struct {
	Recs      []PkgRec
	Out       *simrt.Outcome
	ConnErr   string
	SendErr   string
	Wire      []byte
	FailedAt  time.Duration // simulated time at which the terminal condition was set
	TermSet   bool
	Sim       *simrt.Sim
	AfterRecs int
	AfterErr  string
	// Changed lists packages whose rendering at the end of the run differs from the one taken when they were
	// received (a delivered package that aliases a buffer the library goes on using).
	Changed   []string
	TwinErr   string
	TwinPkgs  int
	Peer      *TDSPeer
	ReaderEnd bool
	// the bystander's receive: whether it returned, when, and with what
	BystanderDone bool
	BystanderAt   time.Duration
	BystanderErr  string
	BystanderPkg  string
}

func flat(pkts [][]byte) []byte {
	var w []byte
	for _, p := range pkts {
		w = append(w, p...)
	}
	return w
}

// twinStatuses is the number of RETURNSTATUS packages in the middle of the twin connection's response
// (RETURNSTATUS, DONE(more), twinStatuses x RETURNSTATUS, DONE(more), DONE(final)).
const twinStatuses = 60

// runResp executes one simulated client/peer exchange.
func runResp(cfg simrt.Config, d respDelivery, c respClient) *respResult {
	if cfg.MaxSteps == 0 {
		cfg.MaxSteps = 400000
	}
	s := simrt.New(cfg)
	p := NewTDSPeer(s)
	res := &respResult{Sim: s, Peer: p, Wire: flat(d.Packets)}
	if c.DrainFor == 0 {
		c.DrainFor = 30 * time.Second
	}
	wire := res.Wire
	var replyChannel uint16
	// delivery plan: segments of the wire stream
	deliver := func() {
		if replyChannel != 0 {
			// the response goes to the channel the request came from: patch the packet headers
			w := append([]byte{}, wire...)
			off := 0
			for _, pk := range d.Packets {
				if off+6 <= len(w) {
					w[off+4], w[off+5] = byte(replyChannel>>8), byte(replyChannel)
				}
				off += len(pk)
			}
			wire = w
		}
		type seg struct {
			b     []byte
			pause bool
		}
		var segs []seg
		if d.TermAt >= 0 && d.TermAt < len(wire) {
			wire = wire[:d.TermAt]
		}
		// segment boundaries: packet ends (for async interleaving) and pause points
		bounds := map[int]bool{}
		off := 0
		for _, pk := range d.Packets {
			off += len(pk)
			if off < len(wire) {
				bounds[off] = false
			}
		}
		for _, b := range d.PauseAfterByte {
			if b > 0 && b < len(wire) {
				bounds[b] = true
			}
		}
		prev := 0
		for i := 1; i <= len(wire); i++ {
			pause, isB := bounds[i]
			if isB || i == len(wire) {
				segs = append(segs, seg{wire[prev:i], pause})
				prev = i
			}
		}
		at := time.Duration(0)
		for _, sg := range segs {
			b := sg.b
			if d.Async || at > 0 {
				p.Conn.DeliverAfter(at, b)
			} else {
				p.Conn.Deliver(b)
			}
			if sg.pause {
				if d.PauseFor > 0 {
					at += d.PauseFor
				} else {
					at += time.Second
				}
			}
		}
		if d.TermAt >= 0 {
			at += d.TermDelay
			if d.Async || at > 0 {
				p.Conn.EndAfter(at, d.TermKind, d.TermWithData)
			} else {
				p.Conn.End(d.TermKind, d.TermWithData)
			}
			s.Fault(termName(d.TermKind, d.TermWithData))
		}
	}
	responded := false
	p.OnMsg = func(m *ClientMsg) {
		if !responded {
			responded = true
			replyChannel = m.Channel
			deliver()
		} else if len(c.AnswerAfter) > 0 {
			p.SendResponse(m.Channel, c.AnswerAfter, nil)
		}
	}
	s.Net.Setup = func(cn *simrt.Conn) {
		cn.ReadSizes = c.ReadSizes
		if len(c.ZeroNil) > 0 && cn.ID == 0 {
			cn.ZeroNil = append([]int{}, c.ZeroNil...)
		}
		if len(c.Transients) > 0 && cn.ID == 0 {
			cn.Transients = append([]int{}, c.Transients...)
			cn.TransientEOF = c.TransientEOF
			cn.TransientFor = c.TransientFor
		}
	}
	if c.Twin {
		p.NewSub = func(cn *simrt.Conn) *TDSPeer {
			sp := SubPeer(s, cn)
			sp.Async = true
			sp.OnMsg = func(m *ClientMsg) {
				var body []byte
				body = append(body, peer.ReturnStatus(7)...)
				body = append(body, peer.Done(1, 0, 3)...)
				for i := 0; i < twinStatuses; i++ {
					body = append(body, peer.ReturnStatus(int32(1000+i))...)
				}
				body = append(body, peer.Done(1, 0, 4)...)
				body = append(body, peer.Done(0, 0, 0)...)
				sp.SendResponse(0, body, []int{3, 20, 300})
			}
			return sp
		}
	}

	res.Out = s.Run(func() {
		info := MkInfo(c.QueueSize, c.ReadTimeoutS, c.DebugLog)
		conn, err := tds.NewConn(context.Background(), info)
		if err != nil {
			res.ConnErr = err.Error()
			return
		}
		ch, err := conn.NewChannel()
		if err != nil {
			res.ConnErr = err.Error()
			return
		}
		if c.Logical {
			if ch, err = conn.NewChannel(); err != nil {
				res.ConnErr = "logical channel: " + err.Error()
				return
			}
		}
		ctx, cancel := simrt.WithTimeout(context.Background(), c.DrainFor)
		defer cancel()
		if c.Bystander {
			chB, err := conn.NewChannel()
			if err != nil {
				res.ConnErr = "bystander channel: " + err.Error()
				return
			}
			by := simrt.Spawn("bystander", func() {
				pkg, err := chB.NextPackage(ctx, true)
				res.BystanderDone, res.BystanderAt = true, simrt.SimNow()
				if err != nil {
					res.BystanderErr = err.Error()
				} else {
					res.BystanderPkg = fmt.Sprintf("%T", pkg)
				}
			})
			defer simrt.Join(by)
		}
		if c.Hooks {
			ch.RegisterEEDHooks(func(e tds.EEDPackage) {
				r := PkgRec{Dump: "HOOK " + Dump(e), Type: "hook:eed", Now: simrt.SimNow()}
				r.Seq = simrt.Record("hook", "eed", "", 0)
				res.Recs = append(res.Recs, r)
			})
			ch.RegisterEnvChangeHooks(func(t tds.EnvChangeType, o, n string) {
				r := PkgRec{Dump: fmt.Sprintf("HOOK env type=%d old=%q new=%q", t, o, n), Type: "hook:env", Now: simrt.SimNow()}
				r.Seq = simrt.Record("hook", "env", "", 0)
				res.Recs = append(res.Recs, r)
			})
		}
		if c.Twin {
			twin := simrt.Spawn("twin", func() {
				conn2, err := tds.NewConn(context.Background(), MkInfo(100, c.ReadTimeoutS, false))
				if err != nil {
					res.TwinErr = "connect: " + err.Error()
					return
				}
				defer conn2.Close()
				ch2, err := conn2.NewChannel()
				if err != nil {
					res.TwinErr = "channel: " + err.Error()
					return
				}
				ctx2, cancel2 := simrt.WithTimeout(context.Background(), c.DrainFor)
				defer cancel2()
				if err := ch2.SendPackage(ctx2, &tds.LanguagePackage{Cmd: "twin"}); err != nil {
					res.TwinErr = "send: " + err.Error()
					return
				}
				for n := 0; n < 4*twinStatuses; n++ {
					pkg, err := ch2.NextPackage(ctx2, true)
					if err != nil {
						res.TwinErr = "receive: " + err.Error()
						return
					}
					res.TwinPkgs++
					if d, ok := pkg.(*tds.DonePackage); ok && d.Status == tds.TDS_DONE_FINAL {
						return
					}
				}
			})
			defer simrt.Join(twin)
		}
		if err := ch.SendPackage(ctx, &tds.LanguagePackage{Cmd: "q"}); err != nil {
			res.SendErr = err.Error()
			return
		}
		if c.QueueBefore > 0 {
			// (several packages: new packets are opened again and again while the reader works on the response)
			for k := 0; k <= c.QueueBeforeN; k++ {
				_ = ch.QueuePackage(ctx, &tds.LanguagePackage{Cmd: strings.Repeat("b", c.QueueBefore)})
			}
		}
		if len(c.PollAt) > 0 {
			for _, at := range c.PollAt {
				if d := at - simrt.SimNow(); d > 0 {
					simrt.Sleep(d)
				}
				simrt.Record("poll", "", "", 0)
				for n := 0; n < 500; n++ {
					pkg, err := ch.NextPackage(ctx, false)
					if err != nil {
						if errors.Is(err, tds.ErrNoPackageReady) {
							break
						}
						res.Recs = append(res.Recs, recErr(err))
						if simrt.IsSimCtxErr(err) {
							break
						}
						continue
					}
					res.Recs = append(res.Recs, recPkg(pkg))
				}
				// A poll picks at random between "nothing ready" and a queued error: make sure no error is
				// waiting with one blocking receive under a one-millisecond deadline (no package is queued, so only
				// an error can end it early).
				for n := 0; n < 12; n++ {
					sctx, scancel := simrt.WithTimeout(ctx, time.Millisecond)
					pkg, err := ch.NextPackage(sctx, true)
					scancel()
					if err != nil {
						if simrt.IsSimCtxErr(err) {
							break
						}
						res.Recs = append(res.Recs, recErr(err))
						continue
					}
					res.Recs = append(res.Recs, recPkg(pkg))
				}
				res.Recs = append(res.Recs, PkgRec{Type: "poll-end", Now: simrt.SimNow()})
			}
			return
		}
		// drain until the consumer's context expires; a connection that keeps producing errors
		// (a dead transport does) is abandoned after a few of them in a row
		var kept []tds.Package
		var keptAt []int
		consecutiveErrs := 0
		maxErrs := c.MaxErrs
		if maxErrs == 0 {
			maxErrs = 4
		}
		if c.Until == "err" {
			_, err := ch.NextPackageUntil(ctx, true, func(tds.Package) (bool, error) { return false, ErrUntilCallback })
			r := PkgRec{Type: "callback-call-returned", Now: simrt.SimNow()}
			if err != nil {
				r.Dump = err.Error()
				if !errors.Is(err, ErrUntilCallback) {
					r.Err = err.Error()
				}
			}
			r.Seq = simrt.Record("until-err-ret", "", "", 0)
			res.Recs = append(res.Recs, r)
		}
		for n := 0; n < 20000; n++ {
			var pkg tds.Package
			var err error
			if c.Until == "nil" {
				_, err = ch.NextPackageUntil(ctx, true, nil)
				if err == nil || err == io.EOF {
					r := PkgRec{Type: "end-of-response", Now: simrt.SimNow()}
					r.Seq = simrt.Record("end-of-response", "", "", 0)
					res.Recs = append(res.Recs, r)
					consecutiveErrs = 0
					continue
				}
			} else {
				pkg, err = ch.NextPackage(ctx, c.PollEvery == 0)
			}
			if c.PollEvery > 0 && errors.Is(err, tds.ErrNoPackageReady) {
				// a consumer that polls: nothing there yet, look again a little later
				if ctx.Err() != nil {
					res.Recs = append(res.Recs, recErr(ctx.Err()))
					break
				}
				simrt.Sleep(c.PollEvery)
				continue
			}
			if err != nil {
				res.Recs = append(res.Recs, recErr(err))
				consecutiveErrs++
				if simrt.IsSimCtxErr(err) || consecutiveErrs >= maxErrs {
					break
				}
				continue
			}
			consecutiveErrs = 0
			if c.Render {
				renderPkg(pkg)
			}
			if c.NoDump {
				res.Recs = append(res.Recs, PkgRec{Type: "pkg", Now: simrt.SimNow()})
				continue
			}
			res.Recs = append(res.Recs, recPkg(pkg))
			kept = append(kept, pkg)
			keptAt = append(keptAt, len(res.Recs)-1)
		}
		for i, pkg := range kept {
			if d := Dump(pkg); d != res.Recs[keptAt[i]].Dump {
				res.Changed = append(res.Changed, fmt.Sprintf("package #%d was %s when received and is %s after the rest of the response", i, short(res.Recs[keptAt[i]].Dump, 300), short(d, 300)))
			}
		}
		if c.SendAfter > 0 {
			simrt.Record("send-after", "", "", int64(c.SendAfter))
			ctx3, cancel3 := simrt.WithTimeout(context.Background(), 5*time.Second)
			defer cancel3()
			if err := ch.SendPackage(ctx3, &tds.LanguagePackage{Cmd: strings.Repeat("x", c.SendAfter)}); err != nil {
				res.AfterErr = err.Error()
			} else if len(c.AnswerAfter) > 0 {
				for n := 0; n < 20; n++ {
					ctx4, cancel4 := simrt.WithTimeout(context.Background(), 2*time.Second)
					pkg, err := ch.NextPackage(ctx4, true)
					cancel4()
					if err != nil {
						break
					}
					res.AfterRecs++
					if c.Render {
						renderPkg(pkg)
					}
					if d, ok := pkg.(*tds.DonePackage); ok && d.Status == tds.TDS_DONE_FINAL {
						break
					}
				}
			}
		}
	})
	if p.Conn != nil {
		_, at, set := p.Conn.Term()
		res.FailedAt, res.TermSet = at, set
	}
	return res
}

func termName(kind int, withData bool) string {
	switch kind {
	case simrt.TermEOF:
		if withData {
			return "close-eof-with-data"
		}
		return "close-eof"
	case simrt.TermReset:
		if withData {
			return "close-reset-with-data"
		}
		return "close-reset"
	case simrt.TermTimeout:
		if withData {
			return "read-timeout-error-with-data"
		}
		return "read-timeout-error"
	}
	return "none"
}

// buildResponse concatenates zoo entries.
func buildResponse(names []string) ([]byte, []int, error) {
	var body []byte
	var ends []int
	for _, n := range names {
		e, ok := zooIndex[n]
		if !ok {
			return nil, nil, fmt.Errorf("unknown zoo entry %q", n)
		}
		body = append(body, e.Bytes...)
		ends = append(ends, len(body))
	}
	return body, ends, nil
}

// genResponse draws a response: groups of [format, data...] and stand-alone packages, optional trailing final DONE.
func genResponse(r *Rand, maxPkgs int) []string { return genResponseFrom(r, maxPkgs, zooList) }

// genResponseFrom draws a response from the given entries (formats are looked up in the whole index).
func genResponseFrom(r *Rand, maxPkgs int, list []peer.Entry) []string {
	byNeed := map[string][]string{}
	var free []string
	var fmtNames []string
	isFmt := map[string]bool{}
	for _, e := range list {
		if e.Needs != "" && !isFmt[e.Needs] {
			isFmt[e.Needs] = true
			fmtNames = append(fmtNames, e.Needs)
		}
	}
	for _, e := range list {
		switch e.Kind {
		case "LANGUAGE", "LOGOUT":
			continue
		}
		if e.Needs != "" {
			byNeed[e.Needs] = append(byNeed[e.Needs], e.Name)
		} else if !isFmt[e.Name] {
			free = append(free, e.Name)
		}
	}
	var interleave []string
	for _, e := range free {
		if k := zooIndex[e].Kind; k == "EED" || k == "ENVCHANGE" {
			interleave = append(interleave, e)
		}
	}
	var names []string
	n := 1 + r.Intn(maxPkgs)
	for len(names) < n {
		if r.Pct(55) && len(fmtNames) > 0 {
			// a result set: format, optionally one ORDERBY directly after it, then data packages of that format
			f := Pick(r, fmtNames)
			names = append(names, f)
			var orders, datas []string
			for _, d := range byNeed[f] {
				if strings.HasPrefix(zooIndex[d].Kind, "ORDERBY") {
					orders = append(orders, d)
				} else {
					datas = append(datas, d)
				}
			}
			if len(orders) > 0 && r.Pct(40) {
				names = append(names, Pick(r, orders))
			}
			k := 1 + r.Intn(3)
			for i := 0; i < k && len(datas) > 0; i++ {
				if r.Pct(12) && len(interleave) > 0 {
					// server messages and environment changes may arrive in the middle of a result set
					names = append(names, Pick(r, interleave))
				}
				names = append(names, Pick(r, datas))
			}
		} else {
			e := Pick(r, free)
			if zooIndex[e].Kind == "DONE" && !r.Pct(30) {
				continue
			}
			names = append(names, e)
		}
	}
	if r.Pct(70) {
		names = append(names, "done/final")
	}
	return names
}

var byNeedFmt, fmtNames = func() (map[string]bool, []string) {
	m := map[string]bool{}
	var l []string
	for _, e := range peer.Zoo() {
		if e.Needs != "" && !m[e.Needs] {
			m[e.Needs] = true
			l = append(l, e.Needs)
		}
	}
	return m, l
}()

// pkgsOnly returns the dumps of the packages (not errors) of a record list.
func pkgsOnly(rs []PkgRec) []string {
	var out []string
	for _, r := range rs {
		if r.Err == "" && r.Type != "poll-end" {
			out = append(out, r.Dump)
		}
	}
	return out
}

// errsOnly returns the non-context errors.
func errsOnly(rs []PkgRec) []string {
	var out []string
	for _, r := range rs {
		if r.Err != "" && !strings.Contains(r.Err, "context deadline exceeded") && !strings.Contains(r.Err, "context canceled") {
			out = append(out, r.Err)
		}
	}
	return out
}

// firstDiff describes the first difference of two dump lists.
func firstDiff(want, got []string) string {
	for i := 0; i < len(want) || i < len(got); i++ {
		var w, g string
		if i < len(want) {
			w = want[i]
		} else {
			w = "<nothing>"
		}
		if i < len(got) {
			g = got[i]
		} else {
			g = "<nothing>"
		}
		if w != g {
			return fmt.Sprintf("package #%d: expected %s, got %s (expected %d packages, got %d)", i, short(w, 300), short(g, 300), len(want), len(got))
		}
	}
	return ""
}

// ErrUntilCallback is what the failing callback of the consumer mode Until "err" returns.
var ErrUntilCallback = errors.New("callback rejects the package (harness marker)")

// renderPkg uses a delivered package the way a database driver does.
func renderPkg(pkg tds.Package) {
	_ = pkg.String()
	var fields []tds.FieldData
	switch p := pkg.(type) {
	case *tds.RowPackage:
		fields = p.DataFields
	case *tds.ParamsPackage:
		fields = p.DataFields
	}
	for _, f := range fields {
		if f == nil {
			continue
		}
		if s, ok := f.Value().(fmt.Stringer); ok && s != nil {
			_ = s.String()
		}
		// values the channel hands over as raw bytes (text pointer family: TEXT, IMAGE, UNITEXT, XML) are converted
		// by the caller with the value parser of their data type, as a driver does; an error is fine, a panic is
		// a crash in the caller's goroutine
		if bs, ok := f.Value().([]byte); ok && f.Format() != nil {
			_, _ = f.Format().DataType().GoValue(binary.LittleEndian, bs)
		}
	}
}
