package worlds

import (
	"context"
	"encoding/json"
	"errors"
	"fmt"
	"io"
	"strconv"
	"strings"
	"time"

	"github.com/SAP/go-dblib/tds"
	"github.com/SAP/go-dblib/zz_verif/peer"
	"github.com/SAP/go-dblib/zz_verif/simrt"
)

// Shared world of C03 (one final DONE per response, fully drained) and C11
// (messages and environment changes surfaced exactly once): request/response
// rounds on one channel with scripted response shapes, consumer modes and hooks.

// rItem is one package of a scripted response.
type rItem struct {
	K      string   `json:"k"`             // done | doneproc | rowfmt | row | eed | env | ret
	Status int      `json:"s,omitempty"`   // DONE status bits / EED status
	N      int      `json:"n,omitempty"`   // marker: done count, row value, eed number, return status
	Env    []string `json:"env,omitempty"` // members "type:new:old"
}

type rRound struct {
	Items []rItem `json:"items"`
	Cuts  []int   `json:"cuts,omitempty"`
	Mode  string  `json:"mode"` // manual | until-true | until-eof | until-err | until-nil | mixed
	// Mode2 (mode mixed): the callback returns true at invocation StopAt (any package), the call returns, and the
	// rest of the response is read with manual / until-true / until-nil ("skip the rest").
	Mode2 string `json:"mode2,omitempty"`
	// ErrEOF: the callback's error wraps io.EOF (legal: only an UNWRAPPED io.EOF has a special meaning).
	ErrEOF   bool `json:"err_eof,omitempty"`
	StopAt   int  `json:"stop_at,omitempty"`   // until-eof/until-err: index of the callback invocation that aborts
	EEDHooks int  `json:"eed_hooks,omitempty"` // hooks registered before this round
	EnvHooks int  `json:"env_hooks,omitempty"`
	// LastStatus: further status bits on the last packet of the response besides end-of-message (the acknowledgement
	// of an attention is EOM|ATTNACK): it is the end of the message all the same.
	LastStatus int `json:"last_status,omitempty"`
	// Poll: the consumer starts the call with wait=false and retries (yielding) while nothing is ready.
	Poll bool `json:"poll,omitempty"`
	// Slow: the packets of the response arrive spread over 8 simulated seconds (longer than the packet read
	// timeout of 5 s in total, shorter than the consumer's own deadline).
	Slow bool `json:"slow,omitempty"`
	// PauseAt > 0: the consumer pauses for six simulated seconds (longer than the packet read timeout) when it has
	// seen that many packages; with a small package queue the reader then waits on the full queue that long.
	PauseAt int `json:"pause_at,omitempty"`
	// NoPause (C03 plans): the next request is sent as soon as the consumer has the final DONE, while the reader
	// may still be busy with the end of this response (its last packet's bookkeeping, invisible packages after
	// the final DONE).
	NoPause bool `json:"no_pause,omitempty"`
	// Truncated (last round only, mode until-err, abort at the first callback): the response's last packet never
	// arrives, so the drain after the failing callback ends with the consumer's deadline. The returned error
	// must still match the callback's error and carry this response's messages.
	Truncated bool `json:"truncated,omitempty"`
	// ConcurrentHook registers one more EED hook from a second task while this round's response is delivered.
	ConcurrentHook bool `json:"concurrent_hook,omitempty"`
	// RaceHooks > 0: before the round that many goroutines register one message hook and one environment hook each
	// at the same time; every one of them must be called from then on (a registration may not get lost).
	RaceHooks int `json:"race_hooks,omitempty"`
	// ErrTrue (until-err): the failing callback returns (true, err) instead of (false, err): it is an error all the
	// same, and the rest of the response is consumed.
	ErrTrue bool `json:"err_true,omitempty"`
	// EmptyEOM: the end-of-message flag comes in a trailing packet without data (the last packet with data does
	// not carry it).
	EmptyEOM bool `json:"empty_eom,omitempty"`
	// Dangle > 0 (only behind a response whose last package is a DONE with final status): the message goes on with
	// the first Dangle bytes of a server message and ends there. What the library makes of the fragment is not
	// judged (the response is over with its final DONE); the NEXT response must be delimited like any other.
	Dangle int `json:"dangle,omitempty"`
	// ManyEED: the response carries more than 64 server messages in a row (marks the plan for the probes).
	ManyEED bool `json:"many_eed,omitempty"`
}

// roundBody is what the server sends for the round.
func roundBody(rd rRound) []byte {
	var body []byte
	for _, it := range rd.Items {
		body = append(body, it.bytes()...)
	}
	if rd.Dangle > 0 {
		body = append(body, peer.EED(7, 1, 16, "ZZZZZ", 0, 0, "dangling message", "srv", "", 1)[:rd.Dangle]...)
	}
	return body
}

type roundsPlan struct {
	Knobs     Knobs    `json:"knobs"`
	Rounds    []rRound `json:"rounds"`
	QueueSize int      `json:"queue_size"`
	Async     bool     `json:"async"`
	ReadSizes []int    `json:"read_sizes,omitempty"`
	// SpreadHooks: hooks are registered by spreading a slice with spare capacity, and the caller overwrites its
	// slice afterwards (the library must have copied what it was given).
	SpreadHooks bool `json:"spread_hooks,omitempty"`
	// SlowHook: the first call of a message hook takes six seconds - longer than the read timeout of five. The
	// messages still reach the hooks before any later package reaches the consumer.
	SlowHook bool `json:"slow_hook,omitempty"`
	// ReadTimeout0: Info.PacketReadTimeout is 0 (legal: the timeout only matters for a connection that ended).
	ReadTimeout0 bool `json:"read_timeout_0,omitempty"`
	// NilHook: every hook is first registered in a call whose second function is nil - the call must fail and
	// register nothing - and then on its own.
	NilHook bool `json:"nil_hook,omitempty"`
}

func (it rItem) bytes() []byte {
	switch it.K {
	case "done":
		return peer.Done(uint16(it.Status), 0, int32(it.N))
	case "doneproc":
		return peer.DoneProc(uint16(it.Status), 0, int32(it.N))
	case "rowfmt":
		return peer.RowFmt(true, peer.Col{Name: "v", Type: peer.TDS_INT4})
	case "row":
		return peer.Row([]peer.Col{{Name: "v", Type: peer.TDS_INT4}}, []peer.Val{{Raw: peer.RawInt4(int32(it.N))}})
	case "eed":
		return peer.EED(int32(it.N), 1, 16, "ZZZZZ", uint8(it.Status), 0, "msg "+strconv.Itoa(it.N), "srv", "", 1)
	case "env":
		var ms []peer.EnvMember
		for _, m := range it.Env {
			f := strings.SplitN(m, ":", 3)
			t, _ := strconv.Atoi(f[0])
			ms = append(ms, peer.EnvMember{Type: uint8(t), New: f[1], Old: f[2]})
		}
		return peer.EnvChange(ms...)
	case "ret":
		return peer.ReturnStatus(int32(it.N))
	}
	panic("unknown item kind " + it.K)
}

func (it rItem) infoEED() bool { return it.K == "eed" && it.Status&0x2 != 0 }
func (it rItem) visible() bool { return it.K != "env" && !it.infoEED() }

// describe renders what the consumer must see for the item.
func (it rItem) describe() string {
	switch it.K {
	case "done", "doneproc":
		return fmt.Sprintf("DONE s=%d c=%d", it.Status, it.N)
	case "rowfmt":
		return "ROWFMT"
	case "row":
		return fmt.Sprintf("ROW v=%d", it.N)
	case "eed":
		return fmt.Sprintf("EED n=%d s=%d", it.N, it.Status)
	case "ret":
		return fmt.Sprintf("RET v=%d", it.N)
	}
	return "?" + it.K
}

// describePkg renders a delivered package in the same vocabulary.
func describePkg(pkg tds.Package) string {
	switch p := pkg.(type) {
	case *tds.DonePackage:
		return fmt.Sprintf("DONE s=%d c=%d", p.Status, p.Count)
	case *tds.RowFmtPackage:
		return "ROWFMT"
	case *tds.RowPackage:
		if len(p.DataFields) == 1 {
			return fmt.Sprintf("ROW v=%v", p.DataFields[0].Value())
		}
		return fmt.Sprintf("ROW fields=%d", len(p.DataFields))
	case *tds.EEDPackage:
		return fmt.Sprintf("EED n=%d s=%d", p.MsgNumber, p.Status)
	case *tds.ReturnStatusPackage:
		return fmt.Sprintf("RET v=%d", p.ReturnValue)
	case *tds.EnvChangePackage:
		return "ENVCHANGE(leaked)"
	}
	return fmt.Sprintf("%T", pkg)
}

const synthDone = "DONE s=0 c=0"

// expectRound is the reference model of one response: what a consumer that
// reads to the final DONE must see.
func expectRound(items []rItem) (all []string, cbVisible []string) {
	for _, it := range items {
		if it.visible() {
			all = append(all, it.describe())
		}
	}
	lastIsFinal := false
	for i := len(items) - 1; i >= 0; i-- {
		if items[i].visible() {
			lastIsFinal = (items[i].K == "done" || items[i].K == "doneproc") && items[i].Status == 0
			break
		}
	}
	if !lastIsFinal {
		all = append(all, synthDone)
	}
	for _, d := range all {
		if !strings.HasPrefix(d, "EED ") {
			cbVisible = append(cbVisible, d)
		}
	}
	return
}

// genRounds draws request/response rounds. eedWeight/envWeight steer C03 vs C11.
func genRounds(r *Rand, nRounds int, eedPct, envPct int, hooks bool) []rRound {
	var rounds []rRound
	for ri := 0; ri < nRounds; ri++ {
		var items []rItem
		mark := func(k int) int { return (ri+1)*1000 + k }
		k := 0
		next := func() int { k++; return mark(k) }
		onlyInvisible := false
		deco := func() {
			if r.Pct(eedPct) {
				// status bits: FOLLOWS (0x1) and INFO (0x2) in all four combinations
				st := r.Intn(2)
				if r.Pct(40) || onlyInvisible {
					st |= 2
				}
				items = append(items, rItem{K: "eed", Status: st, N: next()})
				if r.Pct(15) {
					// the same message once more, identical in every field: it is a second message
					items = append(items, items[len(items)-1])
				}
			}
			if r.Pct(envPct) {
				n := r.Intn(4)
				var ms []string
				for j := 0; j < n; j++ {
					switch r.Intn(7) {
					case 4:
						ms = append(ms, fmt.Sprintf("2::old%d", next())) // empty new value
					case 5:
						ms = append(ms, fmt.Sprintf("%d:x%d:y", Pick(r, []int{0, 5, 7, 200}), next())) // a type the library does not know
					case 6:
						ms = append(ms, fmt.Sprintf("1:%s%d:%s", strings.Repeat("n", 240), next(), strings.Repeat("o", 255))) // longest values
					case 0:
						ms = append(ms, fmt.Sprintf("1:db%d:old%d", next(), ri))
					case 1:
						ms = append(ms, fmt.Sprintf("2:lang%d:", next()))
					case 2:
						ms = append(ms, fmt.Sprintf("3:cs%d:iso_1", next()))
					default:
						ms = append(ms, fmt.Sprintf("4:%d:512", Pick(r, []int{512, 1024, 2048, 4096, 8192, 16384, 32767, 32768, 40960, 65024, 65535})))
					}
				}
				items = append(items, rItem{K: "env", Env: ms})
			}
		}
		shape := r.Intn(9)
		deco()
		switch shape {
		case 0: // only DONE(0)
		case 1, 2: // rows
			items = append(items, rItem{K: "rowfmt"})
			for j := r.Intn(4); j >= 0; j-- {
				if r.Pct(12) {
					deco() // messages and environment changes may arrive in the middle of a result set
				}
				items = append(items, rItem{K: "row", N: next()})
			}
		case 3, 4: // several result sets separated by DONE(MORE|COUNT)
			for s := 0; s < 2+r.Intn(2); s++ {
				items = append(items, rItem{K: "rowfmt"})
				for j := r.Intn(3); j >= 0; j-- {
					if r.Pct(12) {
						deco()
					}
					items = append(items, rItem{K: "row", N: next()})
				}
				deco()
				items = append(items, rItem{K: "done", Status: 0x11, N: next()})
			}
		case 5: // return status
			items = append(items, rItem{K: "ret", N: next()})
			items = append(items, rItem{K: "doneproc", Status: 0x09, N: next()})
		case 6: // only decorations (possibly nothing visible)
			deco()
			deco()
		default:
			items = append(items, rItem{K: "ret", N: next()})
		}
		deco()
		// the end of the response
		switch r.Intn(6) {
		case 0, 1, 2:
			if r.Pct(20) {
				// the answer to a procedure call ends with TDS_DONEPROC: it is the final DONE of the response
				items = append(items, rItem{K: "doneproc", Status: 0})
			} else {
				items = append(items, rItem{K: "done", Status: 0})
			}
		case 3:
			items = append(items, rItem{K: "done", Status: Pick(r, []int{0x10, 0x08, 0x02, 0x04, 0x12}), N: next()})
		case 4:
			// no DONE at all
		case 5:
			items = append(items, rItem{K: "done", Status: 0})
			onlyInvisible = true
			deco() // invisible packages after the final DONE
		}
		if len(items) == 0 {
			items = append(items, rItem{K: "done", Status: 0})
		}
		rd := rRound{Items: items}
		var body []byte
		for _, it := range items {
			body = append(body, it.bytes()...)
		}
		for c := r.Intn(4); c > 0 && len(body) > 1; c-- {
			rd.Cuts = append(rd.Cuts, 1+r.Intn(len(body)-1))
		}
		rd.Mode = Pick(r, []string{"manual", "until-true", "until-eof", "until-err", "until-err", "until-nil", "mixed"})
		if rd.Mode == "mixed" {
			rd.Mode2 = Pick(r, []string{"manual", "until-true", "until-nil", "until-nil"})
		}
		_, cb := expectRound(items)
		rd.StopAt = r.Intn(len(cb))
		if r.Pct(10) {
			rd.LastStatus = Pick(r, []int{0x02, 0x04, 0x08, 0x0e})
		}
		rd.Poll = rd.Mode != "manual" && r.Pct(25)
		rd.ErrEOF = rd.Mode == "until-err" && r.Pct(30)
		rd.ErrTrue = rd.Mode == "until-err" && r.Pct(20)
		rd.EmptyEOM = r.Pct(12)
		if lastIt := items[len(items)-1]; (lastIt.K == "done" || lastIt.K == "doneproc") && lastIt.Status == 0 && r.Pct(8) {
			rd.Dangle = Pick(r, []int{1, 3, 10, 17})
		}
		rd.Slow = !rd.Poll && r.Pct(8)
		if !rd.Slow && !rd.Poll && r.Pct(8) {
			rd.PauseAt = 1 + r.Intn(3)
		}
		rd.NoPause = !hooks && !rd.Slow && !rd.Poll && r.Pct(50)
		if hooks {
			if ri == 0 {
				rd.EEDHooks, rd.EnvHooks = r.Intn(3), r.Intn(3)
			} else if r.Pct(30) {
				rd.EEDHooks, rd.EnvHooks = r.Intn(2), r.Intn(2)
			}
			rd.ConcurrentHook = r.Pct(15)
			if r.Pct(12) {
				rd.RaceHooks = 2 + r.Intn(2)
			}
		}
		rounds = append(rounds, rd)
	}
	if last := &rounds[len(rounds)-1]; last.Mode == "until-err" && len(last.Cuts) > 0 && !last.Poll && r.Pct(30) {
		last.Truncated, last.StopAt, last.Slow, last.EmptyEOM = true, 0, false, false
	}
	return rounds
}

func genRoundsPlan(r *Rand, eedPct, envPct int, hooks bool) *roundsPlan {
	p := &roundsPlan{Knobs: GenKnobs(r)}
	p.Rounds = genRounds(r, 1+r.Intn(6), eedPct, envPct, hooks)
	p.QueueSize = Pick(r, []int{0, 1, 2, 5, 100})
	p.Async = r.Pct(60)
	if r.Pct(30) {
		for k := 0; k < 30; k++ {
			p.ReadSizes = append(p.ReadSizes, r.Intn(12))
		}
	}
	if hooks {
		p.SpreadHooks = r.Pct(30)
		p.NilHook = !p.SpreadHooks && r.Pct(15)
		p.SlowHook = r.Pct(12)
		for _, rd := range p.Rounds {
			// (rounds with their own timing - polls that spin, slow responses, pausing consumers - stay as they are)
			if rd.Poll || rd.Slow || rd.PauseAt > 0 || rd.NoPause {
				p.SlowHook = false
			}
		}
	}
	p.ReadTimeout0 = r.Pct(8)
	if r.Pct(8) {
		// a slow server (it stops reading for a while: the client's request writes block and go on later)
		plain := !p.SlowHook
		for _, rd := range p.Rounds {
			if rd.Poll || rd.Slow || rd.PauseAt > 0 || rd.Truncated {
				plain = false
			}
		}
		if plain {
			p.Knobs.GenSlow(r, 60, 50*time.Millisecond)
		}
	}
	if hooks && r.Pct(4) {
		// (drawn last, so that the rest of the plan is what it was) one response carries a long run of server
		// messages - a procedure printing in a loop - in front of its first package
		ri := r.Intn(len(p.Rounds))
		rd := &p.Rounds[ri]
		var many []rItem
		for j, n := 0, 66+r.Intn(40); j < n; j++ {
			// (numbered below the round's own items: the oracles order messages by their numbers)
			many = append(many, rItem{K: "eed", Status: j % 2, N: (ri+1)*1000 - 200 + j})
		}
		rd.Items = append(many, rd.Items...)
		rd.ManyEED = true
	}
	return p
}

func shrinkRounds(p *roundsPlan) []interface{} {
	var out []interface{}
	for i := range p.Rounds {
		if len(p.Rounds) > 1 {
			q := *p
			q.Rounds = append(append([]rRound{}, p.Rounds[:i]...), p.Rounds[i+1:]...)
			out = append(out, &q)
		}
	}
	for i, rd := range p.Rounds {
		mod := func(f func(x *rRound)) {
			q := *p
			q.Rounds = append([]rRound{}, p.Rounds...)
			x := q.Rounds[i]
			x.Items = append([]rItem{}, rd.Items...)
			f(&x)
			q.Rounds[i] = x
			out = append(out, &q)
		}
		for j := range rd.Items {
			if len(rd.Items) > 1 && rd.Items[j].K != "rowfmt" {
				j := j
				mod(func(x *rRound) {
					x.Items = append(x.Items[:j], x.Items[j+1:]...)
					x.Cuts = nil
					x.StopAt = 0
				})
			}
		}
		if len(rd.Cuts) > 0 {
			mod(func(x *rRound) { x.Cuts = nil })
		}
		if rd.Mode != "manual" {
			mod(func(x *rRound) { x.Mode = "manual" })
		}
		if rd.StopAt > 0 {
			mod(func(x *rRound) { x.StopAt = 0 })
		}
		if rd.ConcurrentHook {
			mod(func(x *rRound) { x.ConcurrentHook = false })
		}
		if rd.RaceHooks > 0 {
			mod(func(x *rRound) { x.RaceHooks = 0 })
		}
		if rd.ErrTrue {
			mod(func(x *rRound) { x.ErrTrue = false })
		}
		if rd.Dangle > 1 {
			mod(func(x *rRound) { x.Dangle = 1 })
		}
		if rd.EmptyEOM {
			mod(func(x *rRound) { x.EmptyEOM = false })
		}
		if rd.EEDHooks > 0 {
			mod(func(x *rRound) { x.EEDHooks-- })
		}
		if rd.EnvHooks > 0 {
			mod(func(x *rRound) { x.EnvHooks-- })
		}
	}
	if p.Async {
		q := *p
		q.Async = false
		out = append(out, &q)
	}
	if len(p.ReadSizes) > 0 {
		q := *p
		q.ReadSizes = nil
		out = append(out, &q)
	}
	if p.QueueSize != 100 {
		q := *p
		q.QueueSize = 100
		out = append(out, &q)
	}
	return out
}

// what the rounds world records

type hookCall struct {
	hook int
	seq  int
	desc string
}

type roundObs struct {
	seen      []string // what the consumer / callback saw, in order
	seenSeq   []int
	callErr   error // error returned by the aborted NextPackageUntil (until-err) / final error otherwise
	callPkg   bool
	returned  bool
	extraErr  string
	sizeAfter int
}

type roundsObs struct {
	setupErr string
	rounds   []roundObs
	eedCalls []hookCall
	envCalls []hookCall
	eedHooks []int // registration seq per hook
	envHooks []int
	concHook map[int]int // round -> hook id
}

var errCallback = errors.New("callback failed (marker error of the harness)")

// errCallbackEOF is a callback error that wraps io.EOF, as a callback reading from its own source produces.
var errCallbackEOF = fmt.Errorf("callback failed (marker error of the harness) reading its own input: %w", io.EOF)

func (rd *rRound) cbErr() error {
	if rd.ErrEOF {
		return errCallbackEOF
	}
	return errCallback
}

// roundPackets cuts a response into packets; with EmptyEOM the end-of-message flag comes in a trailing empty packet.
func roundPackets(rd rRound, body []byte, channel uint16) [][]byte {
	if rd.EmptyEOM {
		pks := peer.Packetise(body, rd.Cuts, peer.BufResponse, channel, false)
		return append(pks, peer.MakePacket(peer.BufResponse, peer.BufstatEOM, channel, uint8(len(pks)), nil))
	}
	return peer.Packetise(body, rd.Cuts, peer.BufResponse, channel, true)
}

func runRounds(p *roundsPlan, schedSeed uint64, replay []simrt.Choice, lenient, keepLog bool) (*roundsObs, *simrt.Outcome) {
	cfg := p.Knobs.Config(schedSeed)
	cfg.Replay, cfg.Lenient, cfg.KeepLog = replay, lenient, keepLog
	if cfg.MaxSteps == 0 {
		cfg.MaxSteps = 300000
	}
	s := simrt.New(cfg)
	pr := NewTDSPeer(s)
	pr.Async = p.Async
	pr.OnMsg = func(m *ClientMsg) {
		txt := string(m.Body)
		i := strings.Index(txt, "q")
		if i < 0 {
			return
		}
		ri, err := strconv.Atoi(txt[i+1:])
		if err != nil || ri >= len(p.Rounds) {
			return
		}
		body := roundBody(p.Rounds[ri])
		if p.Rounds[ri].Truncated {
			pks := roundPackets(p.Rounds[ri], body, m.Channel)
			pr.SendPackets(pks[:len(pks)-1])
			return
		}
		if p.Rounds[ri].Slow {
			pks := roundPackets(p.Rounds[ri], body, m.Channel)
			for i, pk := range pks {
				d := time.Duration(0)
				if len(pks) > 1 {
					d = 8 * time.Second * time.Duration(i) / time.Duration(len(pks)-1)
				}
				pr.Conn.DeliverAfter(d, pk)
			}
			return
		}
		if p.Rounds[ri].Poll {
			// polling consumers get the packets one simulated millisecond apart, so that a poll can find the
			// first packages while the rest of the response is still in flight
			for i, pk := range roundPackets(p.Rounds[ri], body, m.Channel) {
				pr.Conn.DeliverAfter(time.Duration(i)*time.Millisecond, pk)
			}
			return
		}
		pks := roundPackets(p.Rounds[ri], body, m.Channel)
		pks[len(pks)-1][1] |= byte(p.Rounds[ri].LastStatus)
		pr.SendPackets(pks)
	}
	s.Net.Setup = func(c *simrt.Conn) { c.ReadSizes = p.ReadSizes }
	obs := &roundsObs{rounds: make([]roundObs, len(p.Rounds)), concHook: map[int]int{}}
	out := s.Run(func() {
		readTimeout := 5
		if p.ReadTimeout0 {
			readTimeout = 0
		}
		conn, err := tds.NewConn(context.Background(), MkInfo(p.QueueSize, readTimeout, false))
		if err != nil {
			obs.setupErr = err.Error()
			return
		}
		ch, err := conn.NewChannel()
		if err != nil {
			obs.setupErr = err.Error()
			return
		}
		slept := false
		addEED := func() int {
			id := len(obs.eedHooks)
			obs.eedHooks = append(obs.eedHooks, -1)
			fn := func(e tds.EEDPackage) {
				if p.SlowHook && !slept {
					slept = true
					simrt.Sleep(6 * time.Second)
				}
				obs.eedCalls = append(obs.eedCalls, hookCall{id, simrt.Record("eed-hook", "", "", int64(id)), fmt.Sprintf("EED n=%d s=%d", e.MsgNumber, e.Status)})
			}
			var err error
			if p.SpreadHooks {
				hs := make([]tds.EEDHook, 1, 4)
				hs[0] = fn
				err = ch.RegisterEEDHooks(hs...)
				hs = hs[:4]
				for i := range hs {
					hs[i] = func(e tds.EEDPackage) {
						obs.eedCalls = append(obs.eedCalls, hookCall{id, simrt.Record("eed-hook", "", "", int64(id)), "a function the caller put into its own slice AFTER registering"})
					}
				}
			} else {
				if p.NilHook {
					if e := ch.RegisterEEDHooks(fn, nil); e == nil {
						obs.setupErr = "RegisterEEDHooks accepted a nil function"
					}
				}
				err = ch.RegisterEEDHooks(fn)
			}
			obs.eedHooks[id] = simrt.Record("eed-hook-registered", "", "", int64(id))
			if err != nil {
				obs.setupErr = "RegisterEEDHooks: " + err.Error()
			}
			return id
		}
		addEnv := func() {
			id := len(obs.envHooks)
			obs.envHooks = append(obs.envHooks, -1) // the id is taken before the call: several tasks may register at once
			envFn := func(t tds.EnvChangeType, o, n string) {
				obs.envCalls = append(obs.envCalls, hookCall{id, simrt.Record("env-hook", "", "", int64(id)), fmt.Sprintf("%d:%s:%s", t, n, o)})
			}
			if p.NilHook {
				if e := ch.RegisterEnvChangeHooks(envFn, nil); e == nil {
					obs.setupErr = "RegisterEnvChangeHooks accepted a nil function"
				}
			}
			err := ch.RegisterEnvChangeHooks(envFn)
			obs.envHooks[id] = simrt.Record("env-hook-registered", "", "", int64(id))
			if err != nil {
				obs.setupErr = "RegisterEnvChangeHooks: " + err.Error()
			}
		}
		for ri, rd := range p.Rounds {
			ro := &obs.rounds[ri]
			for i := 0; i < rd.EEDHooks; i++ {
				addEED()
			}
			for i := 0; i < rd.EnvHooks; i++ {
				addEnv()
			}
			if rd.RaceHooks > 0 {
				var regs []*simrt.Task
				for i := 0; i < rd.RaceHooks; i++ {
					regs = append(regs, simrt.Spawn(fmt.Sprintf("register%d", i), func() { addEED(); addEnv() }))
				}
				simrt.Join(regs...)
			}
			// one context per round: a round that hangs must not starve the following ones
			ctx, cancel := simrt.WithTimeout(context.Background(), 10*time.Second)
			simrt.Record("round-start", "", "", int64(ri))
			roundStart := simrt.SimNow()
			if err := ch.SendPackage(ctx, &tds.LanguagePackage{Cmd: "q" + strconv.Itoa(ri)}); err != nil {
				ro.extraErr = "send: " + err.Error()
				return
			}
			var helper *simrt.Task
			if rd.ConcurrentHook {
				helper = simrt.Spawn("hooker", func() { obs.concHook[ri] = addEED() })
			}
			see := func(pkg tds.Package) {
				ro.seen = append(ro.seen, describePkg(pkg))
				ro.seenSeq = append(ro.seenSeq, simrt.Record("seen", "", "", int64(ri)))
				if rd.PauseAt > 0 && len(ro.seen) == rd.PauseAt {
					simrt.Sleep(6 * time.Second)
				}
			}
			isFinal := func(pkg tds.Package) bool {
				d, ok := pkg.(*tds.DonePackage)
				return ok && d.Status == tds.TDS_DONE_FINAL
			}
			switch rd.Mode {
			case "manual":
				for n := 0; n < 300; n++ {
					pkg, err := ch.NextPackage(ctx, true)
					if err != nil {
						ro.callErr = err
						break
					}
					see(pkg)
					if isFinal(pkg) {
						break
					}
				}
			case "until-true", "until-eof":
				calls := 0
				for n := 0; n < 300; n++ {
					pkg, err := ch.NextPackageUntil(ctx, true, func(pkg tds.Package) (bool, error) {
						see(pkg)
						if rd.Mode == "until-eof" && calls == rd.StopAt {
							// also on the final DONE: a consumer may end its row loop that way
							calls++
							return false, io.EOF
						}
						calls++
						return isFinal(pkg), nil
					})
					if err == io.EOF && pkg != nil {
						if isFinal(pkg) {
							break // the response is over
						}
						continue // the documented "next result set" signal: go on reading
					}
					if err != nil {
						ro.callErr = err
					}
					break
				}
			case "mixed":
				calls := 0
				pkg, err := ch.NextPackageUntil(ctx, true, func(pkg tds.Package) (bool, error) {
					see(pkg)
					calls++
					return calls-1 == rd.StopAt || isFinal(pkg), nil
				})
				if err != nil {
					ro.callErr = err
					break
				}
				ro.callPkg = pkg != nil
				if pkg != nil && isFinal(pkg) {
					break
				}
				simrt.Record("switch-mode", rd.Mode2, "", 0)
				switch rd.Mode2 {
				case "manual":
					for n := 0; n < 300; n++ {
						pkg, err := ch.NextPackage(ctx, true)
						if err != nil {
							ro.callErr = err
							break
						}
						see(pkg)
						if isFinal(pkg) {
							break
						}
					}
				case "until-true":
					if _, err := ch.NextPackageUntil(ctx, true, func(pkg tds.Package) (bool, error) { see(pkg); return isFinal(pkg), nil }); err != nil {
						ro.callErr = err
					}
				default: // until-nil: skip the rest
					if _, err := ch.NextPackageUntil(ctx, true, nil); err != nil && err != io.EOF {
						ro.callErr = err
					}
				}
			case "until-err":
				calls := 0
				pkg, err := pollUntil(rd.Poll, func(wait bool) (tds.Package, error) {
					return ch.NextPackageUntil(ctx, wait, func(pkg tds.Package) (bool, error) {
						see(pkg)
						if calls == rd.StopAt {
							calls++
							return rd.ErrTrue, rd.cbErr()
						}
						calls++
						return isFinal(pkg), nil
					})
				})
				ro.callErr = err
				ro.callPkg = pkg != nil
			case "until-nil":
				_, err := pollUntil(rd.Poll, func(wait bool) (tds.Package, error) { return ch.NextPackageUntil(ctx, wait, nil) })
				ro.callErr = err
			}
			ro.returned = true
			if helper != nil {
				simrt.Join(helper)
			}
			// let the reader finish whatever invisible packages trail the final DONE before looking at the
			// connection state and before registering further hooks ("registered at that time" would be ambiguous)
			if !rd.NoPause || ri == len(p.Rounds)-1 {
				simrt.Sleep(time.Millisecond)
			}
			if rd.Poll {
				// the packets of this response were sent a millisecond apart: wait until the last one is in
				simrt.Sleep(time.Duration(len(rd.Cuts)+3) * time.Millisecond)
			}
			if rd.Slow {
				// the packets were spread over eight seconds from the request on: wait until the last one is in
				if d := roundStart + 8*time.Second + 2*time.Millisecond - simrt.SimNow(); d > 0 {
					simrt.Sleep(d)
				}
			}
			ro.sizeAfter = conn.PacketSize()
			simrt.Record("round-end", "", "", int64(ri))
			cancel()
		}
		ctx, cancel := simrt.WithTimeout(context.Background(), 10*time.Second)
		defer cancel()
		// after the last round nothing may be left over
		simrt.Sleep(time.Millisecond)
		for n := 0; n < 20 && !p.Rounds[len(p.Rounds)-1].Truncated; n++ {
			pkg, err := ch.NextPackage(ctx, false)
			if err != nil {
				if !errors.Is(err, tds.ErrNoPackageReady) {
					obs.rounds[len(obs.rounds)-1].extraErr = "after the last round: " + err.Error()
				}
				break
			}
			obs.rounds[len(obs.rounds)-1].extraErr = "left over after the last round: " + describePkg(pkg)
			break
		}
		// a poll picks at random between "nothing ready" and a queued error: look once more with a blocking
		// receive under a one-millisecond deadline
		if last := &obs.rounds[len(obs.rounds)-1]; last.extraErr == "" && !p.Rounds[len(p.Rounds)-1].Truncated {
			sctx, scancel := simrt.WithTimeout(ctx, time.Millisecond)
			pkg, err := ch.NextPackage(sctx, true)
			scancel()
			if err == nil {
				last.extraErr = "left over after the last round: " + describePkg(pkg)
			} else if !simrt.IsSimCtxErr(err) {
				last.extraErr = "after the last round: " + err.Error()
			}
		}
	})
	return obs, out
}

// pollUntil runs call(true), or - polling consumers - call(false) again and again (yielding in between) while it
// reports that no package is ready yet.
func pollUntil(poll bool, call func(wait bool) (tds.Package, error)) (tds.Package, error) {
	if !poll {
		return call(true)
	}
	for n := 0; ; n++ {
		pkg, err := call(false)
		if err != nil && errors.Is(err, tds.ErrNoPackageReady) && n < 2000 {
			// wait in simulated time (a busy poll would starve the reader under a priority schedule)
			simrt.Sleep(300 * time.Microsecond)
			continue
		}
		return pkg, err
	}
}

// roundsCommon turns scheduler-level outcomes into verdict entries shared by C03 and C11.
func roundsCommon(v *Verdict, p *roundsPlan, obs *roundsObs, out *simrt.Outcome) bool {
	StdOutcome(v, out)
	if v.Machinery != "" {
		return false
	}
	if obs.setupErr != "" {
		v.Machinery = "setup failed: " + obs.setupErr
		return false
	}
	if out.Budget {
		return false
	}
	for _, c := range out.Crashes {
		v.Violate("panic", "panic "+CrashSig(c), "task %s panicked: %s\n%s", c.Task, c.Value, c.Stack)
	}
	for _, pk := range out.Parked {
		if !strings.HasPrefix(pk.Task, "go@") {
			v.Violate("blocked", "blocked "+ParkSig(out, Sites), "tasks still blocked at the end: %v", out.Parked)
		}
	}
	return true
}

func roundsSample(p *roundsPlan) interface{} {
	var rs []interface{}
	for _, rd := range p.Rounds {
		var ks []string
		for _, it := range rd.Items {
			ks = append(ks, it.describeShort())
		}
		rs = append(rs, map[string]interface{}{"items": strings.Join(ks, " "), "mode": rd.Mode, "stop_at": rd.StopAt, "packets": len(rd.Cuts) + 1, "eed_hooks": rd.EEDHooks, "env_hooks": rd.EnvHooks})
	}
	return map[string]interface{}{"rounds": rs, "queue": p.QueueSize, "async": p.Async}
}

func (it rItem) describeShort() string {
	switch it.K {
	case "done", "doneproc":
		return fmt.Sprintf("%s(%#x)", it.K, it.Status)
	case "eed":
		if it.infoEED() {
			return "eed-info"
		}
		return "eed"
	case "env":
		return fmt.Sprintf("env%d", len(it.Env))
	}
	return it.K
}

// ---- C03 ----

type c03 struct{}

func init() { Register(c03{}) }

func (c03) ID() string { return "C03" }
func (c03) NRuns(tier string) int {
	if tier == "thorough" {
		return 2000000
	}
	return 12000
}
func (c03) Rule() string {
	return "1..6 request/response rounds on one channel; response shapes: only DONE(0), rows, several result sets separated by DONE(MORE|COUNT), return status + DONEPROC, only invisible packages, trailing DONE with COUNT/PROC/ERROR/INXACT bits, no DONE at all, invisible packages after the final DONE, EED (info/non-info) and ENVCHANGE interleaved; every count/row value/message number unique per round; random packetisation, read sizes, queue size, asynchronous delivery; consumer modes manual loop, NextPackageUntil returning true at the final DONE, returning io.EOF at callback j and continuing, returning another error at callback j, nil callback; reference model = visible packages in order then exactly one DONE(0); non-trivial = at least two rounds; distinct = distinct (shape sequence, mode sequence, stop positions)"
}
func (c03) Components() map[string]string {
	return map[string]string{"tds (reader goroutine, Channel.NextPackage/NextPackageUntil, synthetic DONE logic, PacketQueue, parsers)": "real (rewritten)", "transport": "stub: simrt.Conn", "server": "stub: scripted responses from sim/peer encoders", "clock/contexts": "simulated"}
}
func (c03) Gen(r *Rand, idx int, tier string) interface{} { return genRoundsPlan(r, 25, 20, false) }
func (c03) Decode(raw json.RawMessage) (interface{}, error) {
	p := &roundsPlan{}
	err := json.Unmarshal(raw, p)
	return p, err
}
func (c03) Shrink(plan interface{}) []interface{} { return shrinkRounds(plan.(*roundsPlan)) }

func (c03) Run(plan interface{}, schedSeed uint64, replay []simrt.Choice, lenient, keepLog bool) (*Verdict, *simrt.Outcome) {
	p := plan.(*roundsPlan)
	v := &Verdict{}
	obs, out := runRounds(p, schedSeed, replay, lenient, keepLog)
	if !roundsCommon(v, p, obs, out) {
		return v, out
	}
	key := ""
	for ri, rd := range p.Rounds {
		ro := obs.rounds[ri]
		all, cb := expectRound(rd.Items)
		shape := shapeOf(rd.Items)
		where := fmt.Sprintf("round %d (%s, mode %s, stop at %d)", ri, shape, rd.Mode, rd.StopAt)
		key += fmt.Sprintf("%s/%s/%d;", shape, rd.Mode, rd.StopAt)
		if !ro.returned {
			if ri == 0 || obs.rounds[ri-1].returned {
				v.Violate("not-returned", "consumer call never returned: "+rd.Mode, "%s: the consumer never finished reading the response", where)
			}
			break
		}
		if rd.Truncated {
			// the response never ends; if the callback was reached its error must come back
			if len(ro.seen) > 0 && (ro.callErr == nil || !errors.Is(ro.callErr, rd.cbErr())) {
				v.Violate("wrong-error", "until-err: returned error does not match the callback's error (drain failed)", "%s, last packet never arrives: NextPackageUntil returned %v", where, ro.callErr)
			}
			v.Probe("truncated-drain")
			continue
		}
		if ro.callErr != nil && simrt.IsSimCtxErr(ro.callErr) {
			v.Violate("hang", "end of response never signalled: "+endOf(rd.Items)+prevEnd(p, ri), "%s: the consumer waited until its context expired (%v); nothing told it that the response had ended", where, ro.callErr)
		}
		if ro.extraErr != "" {
			v.Violate("leftover", "leftover after last round", "%s: %s", where, ro.extraErr)
		}
		switch rd.Mode {
		case "manual":
			if ro.callErr != nil {
				v.Violate("error", "manual: error while reading", "%s: NextPackage returned %v", where, ro.callErr)
			}
			if d := firstDiff(all, ro.seen); d != "" {
				v.Violate("wrong-response", "manual: wrong packages ("+endOf(rd.Items)+")", "%s: %s", where, d)
			}
		case "until-true", "until-eof":
			if ro.callErr != nil {
				v.Violate("error", rd.Mode+": error while reading", "%s: NextPackageUntil returned %v", where, ro.callErr)
			}
			if d := firstDiff(cb, ro.seen); d != "" {
				v.Violate("wrong-response", rd.Mode+": wrong packages ("+endOf(rd.Items)+")", "%s: %s", where, d)
			}
		case "until-err":
			// the callback saw a prefix ending at the aborting invocation; the rest must have been consumed
			if rd.StopAt < len(cb) {
				if d := firstDiff(cb[:rd.StopAt+1], ro.seen); d != "" {
					v.Violate("wrong-response", "until-err: wrong packages before the abort", "%s: %s", where, d)
				}
				if ro.callErr == nil || !errors.Is(ro.callErr, rd.cbErr()) {
					v.Violate("wrong-error", "until-err: returned error does not match the callback's error", "%s: NextPackageUntil returned %v", where, ro.callErr)
				}
			}
		case "until-nil":
			// only "the response is consumed" is demanded of this mode: checked by the next round / leftover check
		case "mixed":
			if ro.callErr != nil {
				v.Violate("error", "mixed: error while reading", "%s then %s: %v", where, rd.Mode2, ro.callErr)
			}
			// first part: the callback-visible packages up to the one that made the call return
			n1 := rd.StopAt + 1
			if n1 > len(cb) {
				n1 = len(cb)
			}
			want := append([]string{}, cb[:n1]...)
			if n1 < len(cb) {
				switch rd.Mode2 {
				case "manual":
					// everything visible that follows the package the first call returned
					pos, seen := -1, 0
					for i, d := range all {
						if !strings.HasPrefix(d, "EED ") {
							seen++
							if seen == n1 {
								pos = i
								break
							}
						}
					}
					want = append(want, all[pos+1:]...)
				case "until-true":
					want = append(want, cb[n1:]...)
				}
			}
			if d := firstDiff(want, ro.seen); d != "" {
				v.Violate("wrong-response", "mixed: wrong packages ("+rd.Mode2+", "+endOf(rd.Items)+")", "%s then %s: %s", where, rd.Mode2, d)
			}
		}
	}
	if len(p.Rounds) >= 2 {
		v.Nontrivial = key
	}
	for ri, rd := range p.Rounds {
		v.Probe("mode:" + rd.Mode)
		v.Probe("end:" + endOf(rd.Items))
		if rd.NoPause && ri < len(p.Rounds)-1 {
			v.Probe("next-request-without-pause")
		}
		if rd.Slow {
			v.Probe("slow-response")
		}
		if rd.ManyEED {
			v.Probe("more-than-64-messages-in-a-response")
		}
		if rd.Dangle > 0 && ri < len(p.Rounds)-1 {
			v.Probe("response-after-a-dangling-fragment")
			if !visibleAny(p.Rounds[ri+1].Items) {
				v.Probe("response-after-a-dangling-fragment:nothing-visible")
			}
		}
	}
	v.Sample = roundsSample(p)
	return v, out
}

func visibleAny(items []rItem) bool {
	for _, it := range items {
		if it.visible() {
			return true
		}
	}
	return false
}

// prevEnd tells how the previous response ended (the library keeps the last received package across responses).
func prevEnd(p *roundsPlan, ri int) string {
	if ri == 0 {
		return " (first response)"
	}
	return " after a response ending in " + endOf(p.Rounds[ri-1].Items)
}

func shapeOf(items []rItem) string {
	var ks []string
	for _, it := range items {
		ks = append(ks, it.describeShort())
	}
	return strings.Join(ks, ",")
}

// endOf classifies how the response ends.
func endOf(items []rItem) string {
	lastVis := -1
	for i, it := range items {
		if it.visible() {
			lastVis = i
		}
	}
	switch {
	case lastVis < 0:
		return "nothing-visible"
	case (items[lastVis].K == "done" || items[lastVis].K == "doneproc") && items[lastVis].Status == 0:
		if lastVis < len(items)-1 {
			return "final-done-then-invisible"
		}
		return "final-done"
	case items[lastVis].K == "done" || items[lastVis].K == "doneproc":
		return "done-with-bits"
	}
	return "no-done"
}

// ---- C11 ----

type c11 struct{}

func init() { Register(c11{}) }

func (c11) ID() string { return "C11" }
func (c11) NRuns(tier string) int {
	if tier == "thorough" {
		return 1500000
	}
	return 12000
}
func (c11) Rule() string {
	return "the rounds world of C03 with many EED (info / non-info, any position and count) and ENVCHANGE packages (0..3 members of all four types, several PACKSIZE members), 0..3 message hooks and 0..3 environment hooks registered before the first round or between rounds, optionally one more message hook registered by a second task while a response is being delivered, packet cuts and read sizes, all consumer modes and callback outcomes; hooks and the consumer stamp what they see with the global event sequence number; non-trivial = at least one hook was called; distinct = distinct (shape sequence, hook counts, modes)"
}
func (c11) Components() map[string]string {
	return map[string]string{"tds (reader goroutine, handleSpecialPackage, hook registries, NextPackageUntil/EEDError)": "real (rewritten)", "transport": "stub: simrt.Conn", "server": "stub: scripted responses from sim/peer encoders", "clock/contexts": "simulated"}
}
func (c11) Gen(r *Rand, idx int, tier string) interface{} { return genRoundsPlan(r, 60, 50, true) }
func (c11) Decode(raw json.RawMessage) (interface{}, error) {
	p := &roundsPlan{}
	err := json.Unmarshal(raw, p)
	return p, err
}
func (c11) Shrink(plan interface{}) []interface{} { return shrinkRounds(plan.(*roundsPlan)) }

func (c11) Run(plan interface{}, schedSeed uint64, replay []simrt.Choice, lenient, keepLog bool) (*Verdict, *simrt.Outcome) {
	p := plan.(*roundsPlan)
	v := &Verdict{}
	obs, out := runRounds(p, schedSeed, replay, lenient, keepLog)
	if !roundsCommon(v, p, obs, out) {
		return v, out
	}
	// hooks registered sequentially (not by the concurrent helper), with the round before which they were registered
	conc := map[int]bool{}
	for _, id := range obs.concHook {
		conc[id] = true
	}
	// expected per-hook call lists
	wantEED := map[int][]string{}
	wantEnv := map[int][]string{}
	eedRegRound := map[int]int{}
	envRegRound := map[int]int{}
	ne, nv := 0, 0
	for ri, rd := range p.Rounds {
		for i := 0; i < rd.EEDHooks+rd.RaceHooks; i++ {
			for conc[ne] {
				ne++
			}
			eedRegRound[ne] = ri
			ne++
		}
		for i := 0; i < rd.EnvHooks+rd.RaceHooks; i++ {
			envRegRound[nv] = ri
			nv++
		}
		// the concurrent hook (if any) takes the next id at some point during this round
		if rd.ConcurrentHook {
			if id, ok := obs.concHook[ri]; ok && id == ne {
				ne++
			}
		}
	}
	hung := -1
	for ri, rd := range p.Rounds {
		ro := obs.rounds[ri]
		if !ro.returned || (ro.callErr != nil && simrt.IsSimCtxErr(ro.callErr)) || rd.Truncated {
			hung = ri // a hang is C03's subject; judge only what happened before it (a truncated round: below)
			break
		}
		for _, it := range rd.Items {
			if it.K == "eed" && !it.infoEED() {
				for id, reg := range eedRegRound {
					if reg <= ri {
						wantEED[id] = append(wantEED[id], it.describe())
					}
				}
			}
			if it.K == "env" {
				for _, m := range it.Env {
					for id, reg := range envRegRound {
						if reg <= ri {
							wantEnv[id] = append(wantEnv[id], m)
						}
					}
				}
			}
		}
	}
	if hung >= 0 {
		v.Probe("judged-prefix-only(hang)")
	}
	gotEED := map[int][]string{}
	gotEnv := map[int][]string{}
	for _, c := range obs.eedCalls {
		gotEED[c.hook] = append(gotEED[c.hook], c.desc)
	}
	for _, c := range obs.envCalls {
		gotEnv[c.hook] = append(gotEnv[c.hook], c.desc)
	}
	lastRound := len(p.Rounds)
	if hung >= 0 {
		lastRound = hung
	}
	if hung < 0 {
		for id := range eedRegRound {
			if d := firstDiff(wantEED[id], gotEED[id]); d != "" {
				v.Violate("eed-hook", "message hook calls differ", "message hook %d (registered before round %d): %s", id, eedRegRound[id], d)
			}
		}
		for id := range envRegRound {
			if d := firstDiff(wantEnv[id], gotEnv[id]); d != "" {
				v.Violate("env-hook", "environment hook calls differ", "environment hook %d (registered before round %d): %s (type:new:old)", id, envRegRound[id], d)
			}
		}
		// a hook registered concurrently must at least never see a message twice or out of order
		sent := map[string]int{} // a message the server sends twice is two messages
		for _, rd := range p.Rounds {
			for _, it := range rd.Items {
				if it.K == "eed" && !it.infoEED() {
					sent[it.describe()]++
				}
			}
		}
		for id := range conc {
			seen := map[string]int{}
			last := 0
			for _, d := range gotEED[id] {
				var n int
				fmt.Sscanf(d, "EED n=%d", &n)
				seen[d]++
				if seen[d] > sent[d] || n < last {
					v.Violate("eed-hook", "concurrently registered hook saw a message twice or out of order", "hook %d saw %v", id, gotEED[id])
				}
				last = n
			}
		}
	}
	// ordering: a message reaches the hooks before any later package of the response reaches the consumer
	ps := 512
	for ri := 0; ri < lastRound; ri++ {
		rd := p.Rounds[ri]
		ro := obs.rounds[ri]
		where := fmt.Sprintf("round %d (%s, mode %s, stop at %d)", ri, shapeOf(rd.Items), rd.Mode, rd.StopAt)
		for _, d := range ro.seen {
			if d == "ENVCHANGE(leaked)" {
				v.Violate("leak", "environment change delivered as package", "%s: the consumer received an environment change package", where)
			}
			if strings.HasPrefix(d, "EED ") {
				var n, st int
				fmt.Sscanf(d, "EED n=%d s=%d", &n, &st)
				if st&2 != 0 {
					v.Violate("leak", "informational message delivered as package", "%s: the consumer received %s", where, d)
				}
			}
		}
		// position of every visible item in the consumer's view (manual mode sees EEDs, callbacks do not)
		if rd.Mode == "manual" {
			all, _ := expectRound(rd.Items)
			for i, d := range all {
				if !strings.HasPrefix(d, "EED ") || i >= len(ro.seenSeq) {
					continue
				}
				// every hook call for this EED must precede the consumer's receipt of the NEXT package
				if i+1 < len(ro.seenSeq) {
					for _, c := range obs.eedCalls {
						if c.desc == d && !conc[c.hook] && c.seq > ro.seenSeq[i+1] {
							v.Violate("hook-late", "message hook called after a later package reached the consumer", "%s: hook %d saw %s at event %d, the consumer had received the following package at event %d", where, c.hook, d, c.seq, ro.seenSeq[i+1])
						}
					}
				}
			}
		}
		for _, it := range rd.Items {
			if it.K == "env" {
				for _, m := range it.Env {
					f := strings.SplitN(m, ":", 3)
					if f[0] == "4" {
						ps, _ = strconv.Atoi(f[1])
					}
				}
			}
		}
		if ro.sizeAfter != ps {
			v.Violate("packet-size", "packet size not applied", "%s: PacketSize() is %d after the response, the last announced size is %d", where, ro.sizeAfter, ps)
		}
		if rd.Mode == "until-err" {
			_, cb := expectRound(rd.Items)
			if rd.StopAt < len(cb) {
				// non-info EEDs that precede the aborting callback invocation
				var before, all []string
				cbIdx := -1
				// "received so far": the call goes on consuming the response up to its final DONE (the first one
				// behind the failing package - or the end of the message) before it returns: the messages it meets
				// on the way were received by this call and by nobody else
				drained := false
				for _, it := range rd.Items {
					if !it.visible() {
						continue
					}
					if it.K == "eed" {
						if cbIdx < rd.StopAt || !drained {
							before = append(before, it.describe())
						}
						all = append(all, it.describe())
						continue
					}
					cbIdx++
					if cbIdx >= rd.StopAt && (it.K == "done" || it.K == "doneproc") && it.Status == 0 {
						drained = true
					}
				}
				var eedErr *tds.EEDError
				isEED := errors.As(ro.callErr, &eedErr)
				if !errors.Is(ro.callErr, rd.cbErr()) {
					v.Violate("callback-error", "returned error does not match the callback's error", "%s: NextPackageUntil returned %v", where, ro.callErr)
				} else if len(before) > 0 && !isEED {
					v.Violate("callback-error", "error does not carry the messages received so far", "%s: %d messages preceded the failing callback but the error is %T", where, len(before), ro.callErr)
				} else if isEED {
					var got []string
					for _, e := range eedErr.EEDPackages {
						got = append(got, fmt.Sprintf("EED n=%d s=%d", e.MsgNumber, e.Status))
					}
					// what the error may carry: the messages before the failing callback, then those the drain of the
					// rest of THIS response met - nothing else (no message of another response)
					if !isPrefix(before, got) || !isPrefix(got, all) {
						v.Violate("callback-error", "error carries wrong messages", "%s: messages before the failing callback %v, all messages of this response %v, carried by the error %v", where, before, all, got)
					}
				}
			}
		}
	}
	if last := len(p.Rounds) - 1; p.Rounds[last].Truncated && obs.rounds[last].returned && len(obs.rounds[last].seen) > 0 {
		// the last packet never arrived: the callback failed at its first invocation and the drain ran into the
		// consumer's deadline; the error must still be the callback's and carry only this response's messages
		rd, ro := p.Rounds[last], obs.rounds[last]
		where := fmt.Sprintf("round %d (%s, mode %s, last packet never arrives)", last, shapeOf(rd.Items), rd.Mode)
		var before, all []string
		seenCb := false
		for _, it := range rd.Items {
			if !it.visible() {
				continue
			}
			if it.K == "eed" {
				if !seenCb {
					before = append(before, it.describe())
				}
				all = append(all, it.describe())
				continue
			}
			seenCb = true
		}
		v.Probe("truncated-drain")
		var eedErr *tds.EEDError
		if !errors.Is(ro.callErr, rd.cbErr()) {
			v.Violate("callback-error", "returned error does not match the callback's error (drain failed)", "%s: NextPackageUntil returned %v", where, ro.callErr)
		} else if errors.As(ro.callErr, &eedErr) {
			var got []string
			for _, e := range eedErr.EEDPackages {
				got = append(got, fmt.Sprintf("EED n=%d s=%d", e.MsgNumber, e.Status))
			}
			if !isPrefix(before, got) || !isPrefix(got, all) {
				v.Violate("callback-error", "error carries wrong messages", "%s: messages before the failing callback %v, all messages of this response %v, carried by the error %v", where, before, all, got)
			}
		} else if len(before) > 0 {
			v.Violate("callback-error", "error does not carry the messages received so far", "%s: %d messages preceded the failing callback but the error is %T", where, len(before), ro.callErr)
		}
	}
	calls := len(obs.eedCalls) + len(obs.envCalls)
	if calls > 0 {
		key := ""
		for _, rd := range p.Rounds {
			key += fmt.Sprintf("%s/%s/%d/%d/%d;", shapeOf(rd.Items), rd.Mode, rd.StopAt, rd.EEDHooks, rd.EnvHooks)
		}
		v.Nontrivial = key
	}
	v.ProbeN("eed-hook-calls", len(obs.eedCalls))
	v.ProbeN("env-hook-calls", len(obs.envCalls))
	if len(conc) > 0 {
		v.Probe("concurrent-hook-registration")
	}
	for _, rd := range p.Rounds {
		if rd.ManyEED {
			v.Probe("more-than-64-messages-in-a-response")
			if rd.Mode == "until-err" || rd.Mode == "until-eof" {
				v.Probe("more-than-64-messages-in-a-response:callback-fails")
			}
		}
	}
	v.Sample = roundsSample(p)
	return v, out
}

// RequiredProbes: a batch in which one of these never fired explored nothing of that kind (exit 2, not a pass).
func (c03) RequiredProbes() []string {
	return []string{"mode:manual", "mode:until-true", "mode:until-eof", "mode:until-err", "mode:until-nil", "mode:mixed", "end:final-done", "end:done-with-bits", "end:no-done", "end:nothing-visible", "response-after-a-dangling-fragment"}
}
func (c11) RequiredProbes() []string {
	return []string{"eed-hook-calls", "env-hook-calls", "concurrent-hook-registration", "more-than-64-messages-in-a-response"}
}
