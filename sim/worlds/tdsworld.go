package worlds

import (
	"fmt"
	"io"
	"log"
	"time"

	"github.com/SAP/go-dblib/tds"
	"github.com/SAP/go-dblib/zz_verif/peer"
	"github.com/SAP/go-dblib/zz_verif/simrt"
)

func init() { log.SetOutput(io.Discard) }

// ClientMsg is one complete message (packets up to EOM) the client sent on a channel.
type ClientMsg struct {
	Channel uint16
	Type    uint8
	Body    []byte
	Packets []peer.RecvPacket
	Index   int // index among the channel's messages
	Seq     int // event sequence number when the last packet arrived
}

// TDSPeer is the simulated TDS server's wire layer. All methods run in the scheduler goroutine.
type TDSPeer struct {
	S    *simrt.Sim
	Conn *simrt.Conn
	Asm  peer.Assembler

	pending map[uint16][]peer.RecvPacket
	count   map[uint16]int
	Msgs    []ClientMsg
	// PacketSeq[i] is the event sequence number at which Asm.Packets[i] arrived.
	PacketSeq []int

	// OnMsg is called for every complete client message that has a body.
	OnMsg func(m *ClientMsg)
	// OnHeaderOnly is called for header-only packets (channel setup/teardown); nil = acknowledge SETUP with PROTACK.
	OnHeaderOnly func(p peer.RecvPacket)
	// OnPacket is called for every packet (before message assembly).
	OnPacket func(p peer.RecvPacket)
	// OnConnect is called when the client dials.
	OnConnect func()
	// Async delivers each server packet as its own event (competing with tasks) instead of synchronously.
	Async bool
	// Latency is added to asynchronous deliveries.
	Latency time.Duration

	ClientClosedConn bool
	lastDeliver      time.Duration
	// Muted: the server has gone silent in the middle of a packet (SendPartial): nothing may follow on the stream.
	Muted bool

	// NewSub, if set, makes the peer serve further connections: each gets its own wire state from NewSub.
	NewSub func(c *simrt.Conn) *TDSPeer
	Subs   map[int]*TDSPeer
}

// SubPeer creates the wire state for an additional connection.
func SubPeer(s *simrt.Sim, c *simrt.Conn) *TDSPeer {
	return &TDSPeer{S: s, Conn: c, pending: map[uint16][]peer.RecvPacket{}, count: map[uint16]int{}}
}

func NewTDSPeer(s *simrt.Sim) *TDSPeer {
	p := &TDSPeer{S: s, pending: map[uint16][]peer.RecvPacket{}, count: map[uint16]int{}}
	s.Net.Peer = p
	return p
}

func (p *TDSPeer) Connected(c *simrt.Conn) {
	if p.Conn == nil {
		p.Conn = c
	} else if c != p.Conn && p.NewSub != nil {
		if p.Subs == nil {
			p.Subs = map[int]*TDSPeer{}
		}
		p.Subs[c.ID] = p.NewSub(c)
		return
	}
	if p.OnConnect != nil {
		p.OnConnect()
	}
}

func (p *TDSPeer) ClientClosed(c *simrt.Conn) {
	if sp := p.Subs[c.ID]; sp != nil && c != p.Conn {
		sp.ClientClosedConn = true
		return
	}
	p.ClientClosedConn = true
}

func (p *TDSPeer) Data(c *simrt.Conn, b []byte) {
	if sp := p.Subs[c.ID]; sp != nil && c != p.Conn {
		sp.Data(c, b)
		return
	}
	for _, pk := range p.Asm.Feed(b) {
		p.PacketSeq = append(p.PacketSeq, simrt.Record("peer-packet", pk.H.String(), "", int64(len(pk.Body))))
		if p.OnPacket != nil {
			p.OnPacket(pk)
		}
		if len(pk.Body) == 0 && (pk.H.Type == peer.BufSetup || pk.H.Type == peer.BufClose || pk.H.Type == peer.BufProtack) {
			if p.OnHeaderOnly != nil {
				p.OnHeaderOnly(pk)
			} else if pk.H.Type == peer.BufSetup {
				p.SendPackets([][]byte{peer.MakePacket(peer.BufProtack, peer.BufstatEOM, pk.H.Channel, 0, nil)})
			}
			continue
		}
		ch := pk.H.Channel
		p.pending[ch] = append(p.pending[ch], pk)
		if pk.H.Status&peer.BufstatEOM != 0 {
			m := ClientMsg{Channel: ch, Type: pk.H.Type, Packets: p.pending[ch], Index: p.count[ch], Seq: p.PacketSeq[len(p.PacketSeq)-1]}
			for _, q := range m.Packets {
				m.Body = append(m.Body, q.Body...)
			}
			p.count[ch]++
			delete(p.pending, ch)
			p.Msgs = append(p.Msgs, m)
			if p.OnMsg != nil {
				p.OnMsg(&p.Msgs[len(p.Msgs)-1])
			}
		}
	}
}

// SendPackets delivers complete packets to the client, in order.
func (p *TDSPeer) SendPackets(pkts [][]byte) {
	if p.Muted {
		return
	}
	for _, pk := range pkts {
		if p.Async {
			// keep stream order: never schedule before an earlier delivery
			at := p.S.Now() + p.Latency
			if at < p.lastDeliver {
				at = p.lastDeliver
			}
			p.lastDeliver = at
			p.Conn.DeliverAfter(at-p.S.Now(), pk)
		} else {
			p.Conn.Deliver(pk)
		}
	}
}

// SendPartial delivers the beginning of a packet in stream order - behind whatever is already on its way - and
// then nothing more: a server that stops in the middle of a packet cannot send another one behind the fragment.
func (p *TDSPeer) SendPartial(fragment []byte) {
	p.SendPackets([][]byte{fragment})
	p.Muted = true
}

// SendResponse packetises body as a response message on channel and delivers it.
func (p *TDSPeer) SendResponse(channel uint16, body []byte, cuts []int) {
	p.SendPackets(peer.Packetise(body, cuts, peer.BufResponse, channel, true))
}

// ---- client side helpers ----

// MkInfo builds the connection description the worlds use.
func MkInfo(queueSize, readTimeoutS int, debugLog bool) *tds.Info {
	info := &tds.Info{}
	info.Host = "sim"
	info.Port = "5000"
	info.Network = "tcp"
	info.Username = "user"
	info.Password = "pass"
	info.ClientHostname = "simhost"
	info.PacketReadTimeout = readTimeoutS
	info.ChannelPackageQueueSize = queueSize
	info.DebugLogPackages = debugLog
	return info
}

// PkgRec is what a consumer saw: a package (as canonical dump) or an error.
type PkgRec struct {
	Seq  int
	Now  time.Duration
	Dump string
	Type string
	Err  string
	// Final is true for a DONE package with status 0 (end of response).
	Final bool
}

func recPkg(pkg tds.Package) PkgRec {
	r := PkgRec{Dump: Dump(pkg), Type: fmt.Sprintf("%T", pkg), Now: simrt.SimNow()}
	if d, ok := pkg.(*tds.DonePackage); ok && d.Status == tds.TDS_DONE_FINAL {
		r.Final = true
	}
	r.Seq = simrt.Record("pkg", r.Type, "", 0)
	return r
}

func recErr(err error) PkgRec {
	r := PkgRec{Err: err.Error(), Now: simrt.SimNow()}
	r.Seq = simrt.Record("err", r.Err, "", 0)
	return r
}

// dumpsOf returns the dumps of a record list.
func dumpsOf(rs []PkgRec) []string {
	var out []string
	for _, r := range rs {
		if r.Err != "" {
			out = append(out, "ERR:"+r.Err)
		} else {
			out = append(out, r.Dump)
		}
	}
	return out
}

func short(s string, n int) string {
	if len(s) > n {
		return s[:n] + "..."
	}
	return s
}
