#!/bin/bash
# development helper: build the worker(s) into /var/tmp/verif.dev (kept)
# usage: tools/devbuild.sh [race]
set -e
export GOFLAGS=-mod=mod GOPROXY=off GOSUMDB=off GOTOOLCHAIN=local
S=${DEVDIR:-/var/tmp/verif.dev}
rm -rf $S/repo; mkdir -p $S/out
rsync -a --exclude .git ${VERIF_REPO:-/repo}/ $S/repo/
rm -rf $S/repo/zz_verif; cp -r /verif/sim $S/repo/zz_verif
[ -d /verif/fixtures ] && cp -r /verif/fixtures $S/repo/zz_verif/fixtures
(cd /verif/tools/simrewrite && go build -o /verif/bin/simrewrite .)
cd $S/repo
/verif/bin/simrewrite -dir $S/repo -sites $S/sites.json -cold tds.PacketQueue ./tds ./namepool .
go mod edit -require github.com/anishathalye/porcupine@v1.3.0
go vet ./zz_verif/... || true
if [ "$1" = race ]; then go build -trimpath -tags verif -race -o $S/worker.race ./zz_verif/cmd/worker; else go build -trimpath -tags verif -o $S/worker ./zz_verif/cmd/worker; fi
echo built $S
