#!/bin/bash
# Regression test of tools/simrewrite: every case under tools/simrewrite/testdata/cases is one package.
#   r_*: a construct the rewriter must refuse (exit 2)
#   a_*: a construct it must rewrite (exit 0; the output contains the word listed in expect.txt and compiles
#        against simrt)
# usage: tools/rewriter_selftest.sh     (exit 0 = all as expected)
export GOFLAGS=-mod=mod GOPROXY=off GOSUMDB=off GOTOOLCHAIN=local
T=/verif/tools/simrewrite/testdata
S=/var/tmp/rwtest.$$
trap 'rm -rf $S' EXIT
(cd /verif/tools/simrewrite && go build -o /verif/bin/simrewrite .) || exit 2
bad=0
for d in $T/cases/*; do
  c=$(basename $d)
  rm -rf $S; mkdir -p $S/x $S/zz_verif
  cp $T/go.mod.txt $S/go.mod
  cp $d/*.go $S/x/
  cp -r /verif/sim/simrt $S/zz_verif/simrt
  out=$(cd $S && /verif/bin/simrewrite -dir $S -simrt example.com/t/zz_verif/simrt -module example.com/t -sites $S/sites.json ./x 2>&1); rc=$?
  case $c in
  r_*)
    if [ $rc -ne 2 ]; then echo "FAIL $c: expected exit 2, got $rc"; bad=1; else echo "ok   $c: refused ($(echo "$out" | head -1 | sed 's/.*unsupported: [^ ]* //' | cut -c1-90))"; fi;;
  a_*)
    word=$(awk -v c=$c '$1==c{print $3}' $T/expect.txt)
    if [ $rc -ne 0 ]; then echo "FAIL $c: expected exit 0, got $rc: $out"; bad=1
    elif ! grep -q "$word" $S/x/x.go; then echo "FAIL $c: output lacks $word"; bad=1
    elif ! (cd $S && go build ./x 2>&1); then echo "FAIL $c: output does not compile"; bad=1
    else echo "ok   $c: rewritten"; fi;;
  esac
done
exit $bad
