#!/bin/bash
# seedeval.sh <prop> <patch.diff> <demo_test.go> <demo pkg dir (e.g. tds)> <demo run regex> [tier]
# Confirms a seeded change (compiles, suite passes, demo fails with / passes without it) in a scratch
# worktree and runs the property's check against it. Output: one summary line per step.
set -u
export GOFLAGS=-mod=mod GOPROXY=off GOSUMDB=off GOTOOLCHAIN=local
PROP=$1; PATCH=$(readlink -f $2); DEMO=$(readlink -f $3); PKG=$4; RUN=$5; TIER=${6:-quick}
W=/var/tmp/seedeval.$$.$PROP
O=/var/tmp/seedeval.$$.$PROP.out
git -C /repo worktree add -q --detach $W ${BASE:-HEAD} || exit 2
trap 'git -C /repo worktree remove --force $W >/dev/null 2>&1; rm -rf $O' EXIT
mkdir -p $O
cp $DEMO $W/$PKG/zz_demo_test.go
( cd $W && go test -vet=off -count=1 -run "$RUN" ./$PKG >$O/demo_clean.txt 2>&1 ); echo "demo on clean tree: rc=$? (want 0)"
( cd $W && git apply $PATCH 2>/dev/null || git apply --3way $PATCH ) || { echo "patch does not apply"; exit 2; }
( cd $W && go build ./... >$O/build.txt 2>&1 ); echo "build with patch: rc=$? (want 0)"
rm $W/$PKG/zz_demo_test.go
( cd $W && go test -vet=off -count=1 ./... >$O/suite.txt 2>&1 ); echo "suite with patch: rc=$? (want 0)"
cp $DEMO $W/$PKG/zz_demo_test.go
( cd $W && go test -vet=off -count=1 -run "$RUN" ./$PKG >$O/demo_patched.txt 2>&1 ); echo "demo with patch: rc=$? (want non-zero)"; tail -5 $O/demo_patched.txt | cut -c1-200
rm $W/$PKG/zz_demo_test.go
( cd /verif && VERIF_REPO=$W VERIF_OUTDIR=$O ./check $PROP --tier $TIER >$O/check.txt 2>&1 ); echo "check $PROP $TIER against patched tree: rc=$? (want 1)"
grep -A2 "^VIOLATION\|^KNOWN\|^MACHINERY\|^BUILD" $O/check.txt | cut -c1-400 | head -20; tail -1 $O/check.txt | cut -c1-300
