#!/usr/bin/env python3
"""seedkeep.py <id> <prop> <patch> <demo> <pkg> <run-regex> <needs> <caught: yes|no|after-strengthening> <note>
Archives a confirmed seeded change under /verif/seeded/<id>/ (patch.diff, demo, meta.json)."""
import json, os, shutil, subprocess, sys
sid, prop, patch, demo, pkg, run, needs, caught, note = sys.argv[1:10]
d = os.path.join("/verif/seeded", sid)
os.makedirs(d, exist_ok=True)
shutil.copy(patch, os.path.join(d, "patch.diff"))
shutil.copy(demo, os.path.join(d, os.path.basename(demo)))
meta = dict(id=sid, property=prop, breaks=prop, needs_to_manifest=needs,
            demonstration=dict(file=os.path.basename(demo), package_dir=pkg, run="go test -vet=off -count=1 -run '%s' ./%s" % (run, pkg)),
            confirmed=["patch applies to /repo HEAD in a scratch worktree", "go build ./... succeeds", "go test -vet=off -count=1 ./... passes with the patch",
                       "demonstration passes without the patch and fails with it",
                       "VERIF_REPO=<patched worktree> ./check %s --tier quick" % prop],
            caught_by_check=caught, note=note,
            base=subprocess.run(["git", "-C", "/repo", "rev-parse", "--short", "HEAD"], capture_output=True, text=True).stdout.strip())
json.dump(meta, open(os.path.join(d, "meta.json"), "w"), indent=1)
print("kept", d)
