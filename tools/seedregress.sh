#!/bin/bash
# seedregress.sh [id-glob] — re-runs every archived seeded change against the current checks and prints one line each:
#   <id> <property> applies-on=<HEAD|base|no> check-rc=<0|1|2> <n> violation-groups  OK|REGRESSION
# A patch that no longer applies to HEAD (or whose meta says manifests_on_head=false) is evaluated on the commit it
# was made against (meta.json "base"), where the check may additionally report findings that were repaired later.
# Expected result: meta "regress_rc" if present, else rc=1, except for changes whose meta.caught_by_check starts with "no" or "thorough" (rc=0 expected at the quick tier).
export GOFLAGS=-mod=mod GOPROXY=off GOSUMDB=off GOTOOLCHAIN=local
for d in /verif/seeded/${1:-*}/; do
  id=$(basename $d)
  prop=$(python3 -c "import json;print(json.load(open('$d/meta.json'))['property'])")
  base=$(python3 -c "import json;print(json.load(open('$d/meta.json')).get('base',''))")
  onhead=$(python3 -c "import json;print(json.load(open('$d/meta.json')).get('manifests_on_head',True))")
  want=$(python3 -c "import json;m=json.load(open('$d/meta.json'));c=m['caught_by_check'];print(m.get('regress_rc', 2 if 'exit 2' in c else 0 if (c.startswith('no') or c.startswith('thorough')) else 1))")
  W=/var/tmp/seedreg.$$.$id; O=$W.out
  where=HEAD
  applied=no
  if [ "$onhead" = "True" ]; then
    git -C /repo worktree add -q --detach $W HEAD 2>/dev/null || { echo "$id worktree failed"; continue; }
    if ( cd $W && git apply $d/patch.diff 2>/dev/null || git apply --3way $d/patch.diff 2>/dev/null ); then applied=yes; else git -C /repo worktree remove --force $W >/dev/null 2>&1; fi
  fi
  if [ $applied = no ]; then
    if [ -n "$base" ] && git -C /repo worktree add -q --detach $W $base 2>/dev/null && ( cd $W && git apply $d/patch.diff 2>/dev/null ); then where=base:$base; else echo "$id $prop applies-on=no REGRESSION"; git -C /repo worktree remove --force $W >/dev/null 2>&1; continue; fi
  fi
  mkdir -p $O
  ( cd /verif && VERIF_REPO=$W VERIF_OUTDIR=$O ./check $prop --tier quick >$O/check.txt 2>&1 ); rc=$?
  verdict=OK; [ $rc -ne $want ] && verdict=REGRESSION
  echo "$id $prop applies-on=$where check-rc=$rc $(grep -c '^VIOLATION' $O/check.txt) violation-groups $verdict $(grep -m1 '^MACHINERY\|^BUILD' $O/check.txt | cut -c1-100)"
  git -C /repo worktree remove --force $W >/dev/null 2>&1; rm -rf $O
done
