#!/usr/bin/env python3
"""seedtable.py [prefix] - prints the DESIGN.md 10.5 table rows (markdown) for /verif/seeded/<prefix>*."""
import glob, json, sys
pre = sys.argv[1] if len(sys.argv) > 1 else ""
for d in sorted(glob.glob("/verif/seeded/%s*/" % pre)):
    m = json.load(open(d + "meta.json"))
    print("| %s | %s | %s | %s |" % (m["id"], m["needs_to_manifest"].replace("|", "/"), m["caught_by_check"], m.get("note", "").replace("|", "/")))
