"""Determinism self-test (DESIGN.md 6): every world, N run indices each, executed in fresh worker
processes at GOMAXPROCS 1, 4 and 16 (plain and -race builds); event-log hashes, step counts, tape
lengths and verdicts must be identical across all executions. Also greps sim/ for constructs that
would smuggle nondeterminism in."""
import json, os, re, subprocess, sys


def main(ck, args):
    n = args.seeds
    bad = 0
    # static scan of the simulator's own sources
    pats = [r"sync\.Map", r"\.Range\(", r"time\.Now\(\)", r"time\.Sleep\(", r"math/rand", r"\bselect \{"]
    for root, _, files in os.walk(os.path.join(ck.VERIF, "sim")):
        for f in files:
            if not f.endswith(".go") or "cmd/worker" in root:
                continue
            src = open(os.path.join(root, f)).read()
            for p in pats:
                for m in re.finditer(p, src):
                    line = src[:m.start()].count("\n") + 1
                    text = src.splitlines()[line - 1].strip()
                    if "pass-through" in text or "ptSelect" in text or text.startswith("//") or "simrt.go:allow" in text:
                        continue
                    # allowed: pass-through helpers of simrt (no simulation active)
                    if f in ("sync.go", "task.go", "ctx.go", "misc.go") and ("time.Sleep" in text or "time.Now" in text):
                        continue
                    print("selftest: suspicious construct %s in %s:%d: %s" % (p, f, line, text))
    total = 0
    for race in (False, True):
        b = ck.Build(race, False)
        try:
            r = ck.run([b.worker, "-prop", "C01", "-nruns"])
            props = sorted(ck.PROPS)
            for prop in props:
                if race and not ck.PROPS[prop]["race"] and prop not in ("C03",):
                    continue
                nr = int(ck.run([b.worker, "-prop", prop, "-tier", "quick", "-nruns"]).stdout.strip().splitlines()[-1])
                # indices spread over the tier (enumerated and seeded parts)
                idxs = sorted(set(int(i * (nr - 1) / max(n - 1, 1)) for i in range(n)))
                ref = None
                for procs in ("1", "4", "16"):
                    got = {}
                    for i in idxs:
                        cmd = [b.worker, "-prop", prop, "-tier", "quick", "-seed", str(args.seed), "-from", str(i), "-to", str(i + 1), "-hashes", "-sites", b.sites]
                        env = dict(ck.ENV, GOMAXPROCS=procs, VERIF_GOMAXPROCS="1", GORACE=ck.RACE_OPTS + " log_path=%s/race" % b.out)
                        if prop == "C10":
                            cmd = ["bash", "-c", "ulimit -v 3145728; exec \"$@\"", "x"] + cmd
                        p = subprocess.run(cmd, env=env, stdout=subprocess.PIPE, stderr=subprocess.DEVNULL, text=True, timeout=600)
                        for line in p.stdout.splitlines():
                            if line.startswith('{"') and '"t":"h"' in line:
                                j = json.loads(line)
                                got[j["i"]] = (j.get("hash"), j.get("steps"), j.get("tape"), j.get("class"), j.get("sig"))
                        total += 1
                    if ref is None:
                        ref = got
                    elif got != ref:
                        for i in idxs:
                            if got.get(i) != ref.get(i):
                                print("NONDETERMINISM %s race=%s run %d: GOMAXPROCS=1 -> %s, GOMAXPROCS=%s -> %s" % (prop, race, i, ref.get(i), procs, got.get(i)))
                                bad += 1
                # bulk: the same indices executed inside one long-lived process (after many other runs) must give
                # the same logs as when executed alone - otherwise a violation found in a batch would not replay
                lo, hi = idxs[0], min(idxs[0] + args.bulk, nr)
                cmd = [b.worker, "-prop", prop, "-tier", "quick", "-seed", str(args.seed), "-from", str(lo), "-to", str(hi), "-hashes", "-sites", b.sites]
                if prop == "C10":
                    cmd = ["bash", "-c", "ulimit -v 3145728; exec \"$@\"", "x"] + cmd
                bulk = {}
                for procs in ("1", "16"):
                    env = dict(ck.ENV, GOMAXPROCS=procs, VERIF_GOMAXPROCS="1", GORACE=ck.RACE_OPTS + " log_path=%s/race" % b.out)
                    p = subprocess.run(cmd, env=env, stdout=subprocess.PIPE, stderr=subprocess.DEVNULL, text=True, timeout=1800)
                    got = {}
                    for line in p.stdout.splitlines():
                        if line.startswith('{"') and '"t":"h"' in line:
                            j = json.loads(line)
                            got[j["i"]] = (j.get("hash"), j.get("steps"), j.get("tape"), j.get("class"), j.get("sig"))
                    total += 1
                    bulk[procs] = got
                if bulk["1"] != bulk["16"]:
                    d = [i for i in bulk["1"] if bulk["1"].get(i) != bulk["16"].get(i)]
                    print("NONDETERMINISM %s race=%s bulk runs %s differ between GOMAXPROCS 1 and 16" % (prop, race, d[:10]))
                    bad += 1
                for i in idxs:
                    if i in bulk["1"] and bulk["1"][i] != ref.get(i):
                        print("NONDETERMINISM %s race=%s run %d: alone %s, inside a batch %s" % (prop, race, i, ref.get(i), bulk["1"][i]))
                        bad += 1
                print("selftest: %s race=%s: %d runs x 3 process configurations + batch of %d x 2: identical=%s" % (prop, race, len(idxs), hi - lo, bad == 0), flush=True)
        finally:
            b.close()
    print("selftest: %d process executions, %d divergences" % (total, bad))
    return 2 if bad else 0
