// simrewrite inserts simulator seams into a scratch copy of go-dblib.
//
//	simrewrite -dir <module root> -simrt <import path> -sites <out.json> [-cold T1,T2] <pkg patterns...>
//
// It rewrites, in place, the synchronisation, time, network, randomness,
// sync.Pool and map-iteration constructs of the named packages into calls of
// the simrt package (see DESIGN.md 3.1). It is fail-closed: any construct of
// those families that it does not know how to rewrite makes it exit 2.
package main

import (
	"bytes"
	"encoding/json"
	"flag"
	"fmt"
	"go/ast"
	"go/format"
	"go/token"
	"go/types"
	"os"
	"path/filepath"
	"sort"
	"strings"

	"golang.org/x/tools/go/ast/astutil"
	"golang.org/x/tools/go/packages"
)

type site struct {
	ID   int    `json:"id"`
	Pos  string `json:"pos"`
	Func string `json:"func"`
	Op   string `json:"op"`
	Cold bool   `json:"cold,omitempty"`
}

type rewriter struct {
	fset     *token.FileSet
	pkg      *packages.Package
	info     *types.Info
	root     string
	sites    []site
	errs     []string
	cold     map[string]bool
	curFunc  string
	curFile  *ast.File
	tmpN     int
	usedSim  bool
	simrtPkg string
	// atomicSeen: the calls of sync/atomic methods that got a scheduling point of their own
	atomicSeen map[*ast.CallExpr]bool
}

func (r *rewriter) errorf(pos token.Pos, format string, a ...interface{}) {
	r.errs = append(r.errs, fmt.Sprintf("%s: %s", r.fset.Position(pos), fmt.Sprintf(format, a...)))
}

func (r *rewriter) newSite(pos token.Pos, op string, cold bool) ast.Expr {
	p := r.fset.Position(pos)
	rel, err := filepath.Rel(r.root, p.Filename)
	if err != nil {
		rel = p.Filename
	}
	id := len(r.sites) + 1
	r.sites = append(r.sites, site{ID: id, Pos: fmt.Sprintf("%s:%d", rel, p.Line), Func: r.curFunc, Op: op, Cold: cold})
	v := id
	if cold {
		v = -id
	}
	r.usedSim = true
	if v < 0 {
		return &ast.UnaryExpr{Op: token.SUB, X: &ast.BasicLit{Kind: token.INT, Value: fmt.Sprint(-v)}}
	}
	return &ast.BasicLit{Kind: token.INT, Value: fmt.Sprint(v)}
}

func (r *rewriter) sim(name string) ast.Expr {
	r.usedSim = true
	return &ast.SelectorExpr{X: ast.NewIdent("simrt"), Sel: ast.NewIdent(name)}
}

func (r *rewriter) call(name string, args ...ast.Expr) *ast.CallExpr {
	return &ast.CallExpr{Fun: r.sim(name), Args: args}
}

func (r *rewriter) tmp(prefix string) *ast.Ident {
	r.tmpN++
	return ast.NewIdent(fmt.Sprintf("_sim%s%d", prefix, r.tmpN))
}

// qualified returns (pkgpath, name) if e is a package-qualified identifier.
func (r *rewriter) qualified(e ast.Expr) (string, string, bool) {
	sel, ok := e.(*ast.SelectorExpr)
	if !ok {
		return "", "", false
	}
	id, ok := sel.X.(*ast.Ident)
	if !ok {
		return "", "", false
	}
	pn, ok := r.info.Uses[id].(*types.PkgName)
	if !ok {
		return "", "", false
	}
	return pn.Imported().Path(), sel.Sel.Name, true
}

var qualifiedMap = map[string]string{
	"context.WithCancel":   "WithCancel",
	"context.WithTimeout":  "WithTimeout",
	"context.WithDeadline": "WithDeadline",
	"context.AfterFunc":    "CtxAfterFunc",
	"net.Dial":             "Dial",
	"crypto/rand.Reader":   "RandReader",
	"crypto/rand.Read":     "RandRead",
	"os.Getpid":            "Getpid",
	"os.Hostname":          "Hostname",
	"sync.Pool":            "Pool",
	"sync.Map":             "Map",
	"sync.Cond":            "Cond",
	"sync.NewCond":         "NewCond",
	"time.After":           "After",
	"time.NewTimer":        "NewTimer",
	"time.AfterFunc":       "AfterFunc",
	"time.NewTicker":       "NewTicker",
	"time.Tick":            "Tick",
	"time.Timer":           "Timer",
	"time.Ticker":          "Ticker",
	"time.Now":             "Now",
	"time.Since":           "Since",
	"time.Sleep":           "Sleep",
}

// atomicTypes: the types of sync/atomic; their methods get a scheduling point (atomicCallsIn).
var atomicTypes = map[string]bool{"Value": true, "Bool": true, "Int32": true, "Int64": true, "Uint32": true, "Uint64": true, "Uintptr": true, "Pointer": true}

var forbidden = map[string]bool{

	"sync.OnceFunc": true, "sync.OnceValue": true, "sync.OnceValues": true,
	// finalizers and cleanups run on a goroutine of the runtime, at a time the collector chooses: outside what the
	// simulator controls
	"runtime.SetFinalizer": true, "runtime.AddCleanup": true,

	"net.DialTimeout": true, "net.Listen": true, "net.DialTCP": true,
	"context.WithCancelCause": true, "context.WithTimeoutCause": true, "context.WithDeadlineCause": true,
	"context.WithoutCancel": true,
	"math/rand.Intn":        true, "math/rand.Int": true, "math/rand.Seed": true, "math/rand.Read": true,
	"crypto/rand.Int": true, "crypto/rand.Prime": true,
	"runtime.Gosched": true, "runtime.GC": true,
	"os/signal.Notify": true,
	// reads the real clock
	"time.Until": true,
	// dialling other than through net.Dial
	"net.Dialer": true, "crypto/tls.Dial": true, "crypto/tls.DialWithDialer": true,
	// ends a goroutine without returning the baton
	"runtime.Goexit": true,
	// starts goroutines of its own, in a package that is not rewritten
	"github.com/hashicorp/go-multierror.Group": true,
}

// mutexMethod recognises X.Lock() etc. on sync.Mutex / sync.RWMutex (also
// promoted through embedding) and returns the simrt function name and the
// expression denoting a pointer to the mutex.
func (r *rewriter) mutexMethod(call *ast.CallExpr) (fn string, ptr ast.Expr, cold bool, ok bool) {
	sel, isSel := call.Fun.(*ast.SelectorExpr)
	if !isSel {
		return
	}
	selection := r.info.Selections[sel]
	if selection == nil || selection.Kind() != types.MethodVal {
		return
	}
	m, isFunc := selection.Obj().(*types.Func)
	if !isFunc || m.Pkg() == nil || m.Pkg().Path() != "sync" {
		return
	}
	recv := m.Type().(*types.Signature).Recv().Type()
	if p, isPtr := recv.(*types.Pointer); isPtr {
		recv = p.Elem()
	}
	named, isNamed := recv.(*types.Named)
	if !isNamed {
		// e.g. sync.Locker interface
		r.errorf(call.Pos(), "call of sync method %s on non-named receiver is not modelled", m.Name())
		return
	}
	var prefix string
	switch named.Obj().Name() {
	case "Mutex":
		prefix = "Mutex"
	case "RWMutex":
		prefix = "RW"
	case "Pool", "Map", "Cond":
		// sync.Pool, sync.Map and sync.Cond are replaced as types by simrt.Pool / Map / Cond, which have the same methods
		return
	case "Locker":
		// a mutex behind the sync.Locker interface (e.g. a Cond's L): resolved at run time
		switch m.Name() {
		case "Lock":
			return "LockerLock", sel.X, false, true
		case "Unlock":
			return "LockerUnlock", sel.X, false, true
		}
		r.errorf(call.Pos(), "sync.Locker.%s is not modelled", m.Name())
		return
	case "Once", "WaitGroup":
		want := map[string]string{"Once.Do": "OnceDo", "WaitGroup.Add": "WGAdd", "WaitGroup.Done": "WGDone", "WaitGroup.Wait": "WGWait"}
		to, known := want[named.Obj().Name()+"."+m.Name()]
		if !known {
			r.errorf(call.Pos(), "sync.%s.%s is not modelled", named.Obj().Name(), m.Name())
			return
		}
		x := sel.X
		t := r.info.TypeOf(x)
		idx := selection.Index()
		for _, i := range idx[:len(idx)-1] {
			st := structOf(t)
			if st == nil {
				r.errorf(call.Pos(), "cannot resolve embedded %s path", named.Obj().Name())
				return
			}
			f := st.Field(i)
			x = &ast.SelectorExpr{X: x, Sel: ast.NewIdent(f.Name())}
			t = f.Type()
		}
		if _, isPtr := t.Underlying().(*types.Pointer); isPtr {
			ptr = x
		} else {
			ptr = &ast.UnaryExpr{Op: token.AND, X: x}
		}
		return to, ptr, false, true
	default:
		r.errorf(call.Pos(), "call of sync.%s.%s is not modelled", named.Obj().Name(), m.Name())
		return
	}
	switch m.Name() {
	case "Lock", "Unlock", "TryLock":
	case "RLock", "RUnlock", "TryRLock":
		if prefix != "RW" {
			return
		}
	default:
		r.errorf(call.Pos(), "sync.%s.%s is not modelled", named.Obj().Name(), m.Name())
		return
	}
	// Build the explicit path to the mutex through embedded fields.
	x := sel.X
	t := r.info.TypeOf(x)
	idx := selection.Index()
	for _, i := range idx[:len(idx)-1] {
		st := structOf(t)
		if st == nil {
			r.errorf(call.Pos(), "cannot resolve embedded mutex path")
			return
		}
		f := st.Field(i)
		x = &ast.SelectorExpr{X: x, Sel: ast.NewIdent(f.Name())}
		t = f.Type()
	}
	// coldness: the struct that (directly) holds the mutex
	if owner := r.info.TypeOf(sel.X); owner != nil {
		on := typeName(owner)
		if r.cold[on] {
			cold = true
		}
	}
	if _, isPtr := t.Underlying().(*types.Pointer); isPtr {
		ptr = x
	} else {
		ptr = &ast.UnaryExpr{Op: token.AND, X: x}
	}
	return prefix + m.Name(), ptr, cold, true
}

func isPoolMethod(m *types.Func) bool {
	recv := m.Type().(*types.Signature).Recv()
	if recv == nil {
		return false
	}
	switch typeName(recv.Type()) {
	case "sync.Pool", "sync.Map", "sync.Cond":
		return true
	}
	return false
}

func typeName(t types.Type) string {
	if p, ok := t.(*types.Pointer); ok {
		t = p.Elem()
	}
	if n, ok := t.(*types.Named); ok {
		if n.Obj().Pkg() != nil {
			return n.Obj().Pkg().Name() + "." + n.Obj().Name()
		}
		return n.Obj().Name()
	}
	return ""
}

func structOf(t types.Type) *types.Struct {
	if p, ok := t.Underlying().(*types.Pointer); ok {
		t = p.Elem()
	}
	st, _ := t.Underlying().(*types.Struct)
	return st
}

func isChan(t types.Type) bool {
	if t == nil {
		return false
	}
	_, ok := t.Underlying().(*types.Chan)
	return ok
}

func isMap(t types.Type) bool {
	if t == nil {
		return false
	}
	_, ok := t.Underlying().(*types.Map)
	return ok
}

// simpleExpr reports whether e can be evaluated twice without side effects.
func simpleExpr(e ast.Expr) bool {
	switch x := e.(type) {
	case *ast.Ident:
		return true
	case *ast.SelectorExpr:
		return simpleExpr(x.X)
	case *ast.ParenExpr:
		return simpleExpr(x.X)
	case *ast.StarExpr:
		return simpleExpr(x.X)
	}
	return false
}

// isAtomicMethodCall: call is a call of a method of a sync/atomic type.
func (r *rewriter) isAtomicMethodCall(call *ast.CallExpr) bool {
	sel, ok := call.Fun.(*ast.SelectorExpr)
	if !ok {
		return false
	}
	s := r.info.Selections[sel]
	if s == nil || s.Kind() != types.MethodVal {
		return false
	}
	f, ok := s.Obj().(*types.Func)
	return ok && f.Pkg() != nil && f.Pkg().Path() == "sync/atomic"
}

// atomicCallsIn finds calls of methods of sync/atomic types (atomic.Value, atomic.Int64, ...) inside a statement.
func (r *rewriter) atomicCallsIn(n ast.Node) []*ast.CallExpr {
	var out []*ast.CallExpr
	if n == nil {
		return nil
	}
	ast.Inspect(n, func(m ast.Node) bool {
		switch x := m.(type) {
		case *ast.FuncLit, *ast.BlockStmt:
			return false
		case *ast.CallExpr:
			if sel, ok := x.Fun.(*ast.SelectorExpr); ok {
				if s := r.info.Selections[sel]; s != nil && s.Kind() == types.MethodVal {
					if f, ok := s.Obj().(*types.Func); ok && f.Pkg() != nil && f.Pkg().Path() == "sync/atomic" {
						out = append(out, x)
					}
				}
			}
		}
		return true
	})
	return out
}

// recvIn finds receive expressions directly inside stmt-level expressions (not inside function literals).
func recvIn(n ast.Node) []*ast.UnaryExpr {
	var out []*ast.UnaryExpr
	ast.Inspect(n, func(m ast.Node) bool {
		switch x := m.(type) {
		case *ast.FuncLit:
			return false
		case *ast.BlockStmt:
			return false
		case *ast.UnaryExpr:
			if x.Op == token.ARROW {
				out = append(out, x)
			}
		}
		return true
	})
	return out
}

// rewriteStmtList rewrites a statement list, inserting statements where needed.
func (r *rewriter) rewriteStmtList(list []ast.Stmt) []ast.Stmt {
	var out []ast.Stmt
	for _, st := range list {
		out = append(out, r.rewriteStmt(st)...)
	}
	return out
}

func (r *rewriter) recvWaitFor(exprs ...ast.Node) []ast.Stmt {
	var pre []ast.Stmt
	for _, e := range exprs {
		if e == nil {
			continue
		}
		for _, u := range recvIn(e) {
			if !directRecv(e, u) {
				// the wait would be placed in front of the whole statement: a receive that is evaluated
				// conditionally (a && <-ch) or after other calls of the same expression would wait at the wrong time
				r.errorf(u.Pos(), "receive inside a larger expression is not modelled")
				continue
			}
			if !simpleExpr(u.X) {
				r.errorf(u.Pos(), "receive from a channel expression with possible side effects is not modelled")
				continue
			}
			// the channel expression is evaluated exactly once, as Go does for the receive itself
			tv := r.tmp("c")
			pre = append(pre,
				&ast.AssignStmt{Lhs: []ast.Expr{tv}, Tok: token.DEFINE, Rhs: []ast.Expr{u.X}},
				&ast.ExprStmt{X: r.call("RecvWait", r.newSite(u.Pos(), "recv", false), tv)})
			u.X = tv
		}
	}
	if len(pre) > 2 {
		r.errorf(pre[0].Pos(), "more than one receive in one statement is not modelled")
	}
	return pre
}

// directRecv: u is, parentheses aside, the whole expression n - or the whole right-hand side / expression /
// initial value of the simple statement or declaration n.
func directRecv(n ast.Node, u *ast.UnaryExpr) bool {
	is := func(e ast.Expr) bool {
		for {
			p, ok := e.(*ast.ParenExpr)
			if !ok {
				break
			}
			e = p.X
		}
		return e == ast.Expr(u)
	}
	switch x := n.(type) {
	case ast.Expr:
		return is(x)
	case *ast.ExprStmt:
		return is(x.X)
	case *ast.AssignStmt:
		for _, e := range x.Rhs {
			if is(e) {
				return true
			}
		}
	case *ast.DeclStmt:
		return directRecv(x.Decl, u)
	case *ast.GenDecl:
		for _, sp := range x.Specs {
			if vs, ok := sp.(*ast.ValueSpec); ok {
				for _, e := range vs.Values {
					if is(e) {
						return true
					}
				}
			}
		}
	}
	return false
}

// rewriteStmt returns the statements replacing st; calls of methods of sync/atomic types inside the statement's own
// expressions get a scheduling point in front of the statement.
func (r *rewriter) rewriteStmt(st ast.Stmt) []ast.Stmt {
	var heads []ast.Node
	switch s := st.(type) {
	case *ast.DeferStmt:
		heads = []ast.Node{s}
		if r.isAtomicMethodCall(s.Call) {
			// defer x.Store(v): the arguments (and the receiver) are evaluated now, the operation - with its
			// scheduling point - runs at exit (rewriteStmt1)
			heads = nil
			for _, a := range s.Call.Args {
				heads = append(heads, a)
			}
		}
	case *ast.ExprStmt, *ast.AssignStmt, *ast.ReturnStmt, *ast.IncDecStmt, *ast.DeclStmt, *ast.SendStmt, *ast.GoStmt:
		heads = []ast.Node{s}
	case *ast.IfStmt:
		heads = []ast.Node{s.Init, s.Cond}
	case *ast.SwitchStmt:
		heads = []ast.Node{s.Init, s.Tag}
	case *ast.ForStmt:
		for _, h := range []ast.Node{s.Init, s.Cond, s.Post} {
			if h != nil && !isNilNode(h) && len(r.atomicCallsIn(h)) > 0 {
				r.errorf(s.Pos(), "sync/atomic method call in a for header is not modelled")
			}
		}
	case *ast.RangeStmt:
		heads = []ast.Node{s.X}
	}
	var pre []ast.Stmt
	total := 0
	for _, h := range heads {
		if h != nil && !isNilNode(h) {
			total += len(r.atomicCallsIn(h))
		}
	}
	for _, h := range heads {
		if h == nil || isNilNode(h) {
			continue
		}
		calls := r.atomicCallsIn(h)
		if len(calls) == 0 {
			continue
		}
		switch s := st.(type) {
		case *ast.GoStmt:
			for _, c := range calls {
				if c == s.Call {
					r.errorf(c.Pos(), "go statement calling a sync/atomic method is not modelled")
				}
			}
		}
		if total >= 2 {
			if len(calls) != total || !r.canHoistAtomics(st, h, calls) {
				// the operations would all run in one step behind their scheduling points: an interleaving of
				// another goroutine between them could not be produced
				r.errorf(calls[0].Pos(), "several sync/atomic method calls in one statement, in a form that cannot be split into steps, are not modelled")
				continue
			}
			// Several atomic operations in one statement (x.CompareAndSwap(old, y.Load())) are separate steps for
			// other goroutines: all but the one evaluated last are moved into temporaries, in evaluation order,
			// each behind its own scheduling point.
			sort.Slice(calls, func(i, j int) bool { return calls[i].End() < calls[j].End() })
			repl := map[*ast.CallExpr]*ast.Ident{}
			for _, c := range calls[:len(calls)-1] {
				tmp := r.tmp("a")
				repl[c] = tmp
			}
			astutil.Apply(h, nil, func(cur *astutil.Cursor) bool {
				if ce, ok := cur.Node().(*ast.CallExpr); ok {
					if id, ok := repl[ce]; ok {
						cur.Replace(id)
					}
				}
				return true
			})
			for _, c := range calls[:len(calls)-1] {
				pre = append(pre, &ast.ExprStmt{X: r.call("AtomicPoint", r.newSite(c.Pos(), "atomic-method", false))})
				pre = append(pre, &ast.AssignStmt{Lhs: []ast.Expr{repl[c]}, Tok: token.DEFINE, Rhs: []ast.Expr{c}})
				r.atomicSeen[c] = true
			}
			last := calls[len(calls)-1]
			pre = append(pre, &ast.ExprStmt{X: r.call("AtomicPoint", r.newSite(last.Pos(), "atomic-method", false))})
			r.atomicSeen[last] = true
			continue
		}
		c := calls[0]
		if !r.atomicIsFirstStep(h, c) {
			r.errorf(c.Pos(), "sync/atomic method call evaluated after another call or receive of the same statement is not modelled (its scheduling point is in front of the statement)")
			continue
		}
		pre = append(pre, &ast.ExprStmt{X: r.call("AtomicPoint", r.newSite(c.Pos(), "atomic-method", false))})
		r.atomicSeen[c] = true
	}
	return append(pre, r.rewriteStmt1(st)...)
}

// atomicIsFirstStep: nothing that can be a step of its own (another call, a receive) is evaluated in head h before
// the atomic call c: calls that take c's result as an argument, conversions and len/cap aside. (A call that is
// evaluated conditionally - the right operand of && - is fine: if it is evaluated, it is the first step behind the
// scheduling point; if not, the point was one yield too many.)
func (r *rewriter) atomicIsFirstStep(h ast.Node, c *ast.CallExpr) bool {
	ok := true
	ast.Inspect(h, func(n ast.Node) bool {
		if !ok || n == nil {
			return false
		}
		switch x := n.(type) {
		case *ast.FuncLit:
			return false
		case *ast.UnaryExpr:
			if x.Op == token.ARROW && x.Pos() < c.Pos() {
				ok = false
			}
		case *ast.CallExpr:
			if x == c {
				// the receiver and the arguments of the atomic call itself
				for _, a := range append([]ast.Expr{x.Fun}, x.Args...) {
					ast.Inspect(a, func(m ast.Node) bool {
						if ce, isCall := m.(*ast.CallExpr); isCall && !r.harmlessCall(ce) {
							ok = false
						}
						return ok
					})
				}
				return false
			}
			if x.Pos() <= c.Pos() && c.End() <= x.End() {
				return true // encloses c: evaluated after it
			}
			if x.End() <= c.Pos() && !r.harmlessCall(x) {
				ok = false
			}
		}
		return ok
	})
	return ok
}

// harmlessCall: a conversion or len/cap.
func (r *rewriter) harmlessCall(x *ast.CallExpr) bool {
	if tv, found := r.info.Types[x.Fun]; found && tv.IsType() {
		return true
	}
	if id, isId := x.Fun.(*ast.Ident); isId {
		if _, isBuiltin := r.info.Uses[id].(*types.Builtin); isBuiltin && (id.Name == "len" || id.Name == "cap") {
			return true
		}
	}
	return false
}

// canHoistAtomics: moving the atomic calls of head h out of statement st keeps the meaning if nothing else in h has
// side effects or is evaluated conditionally: no other calls (conversions and len/cap aside), no receives, no && or
// ||, no function literals; and the statement must be one in front of which statements can be placed.
func (r *rewriter) canHoistAtomics(st ast.Stmt, h ast.Node, calls []*ast.CallExpr) bool {
	switch s := st.(type) {
	case *ast.ExprStmt, *ast.AssignStmt, *ast.ReturnStmt:
	case *ast.IfStmt:
		if s.Init != nil || h != ast.Node(s.Cond) {
			return false
		}
	default:
		return false
	}
	atomic := map[*ast.CallExpr]bool{}
	for _, c := range calls {
		atomic[c] = true
	}
	ok := true
	ast.Inspect(h, func(n ast.Node) bool {
		switch x := n.(type) {
		case *ast.FuncLit:
			ok = false
		case *ast.UnaryExpr:
			if x.Op == token.ARROW {
				ok = false
			}
		case *ast.BinaryExpr:
			if x.Op == token.LAND || x.Op == token.LOR {
				ok = false
			}
		case *ast.CallExpr:
			if atomic[x] {
				return true
			}
			if tv, found := r.info.Types[x.Fun]; found && tv.IsType() {
				return true // conversion
			}
			if id, isId := x.Fun.(*ast.Ident); isId {
				if _, isBuiltin := r.info.Uses[id].(*types.Builtin); isBuiltin && (id.Name == "len" || id.Name == "cap") {
					return true
				}
			}
			ok = false
		}
		return ok
	})
	return ok
}

func isBuiltinIdent(info *types.Info, id *ast.Ident) bool {
	_, isBuiltin := info.Uses[id].(*types.Builtin)
	return isBuiltin
}

func isNilNode(n ast.Node) bool {
	switch x := n.(type) {
	case ast.Stmt:
		return x == nil
	case ast.Expr:
		return x == nil
	}
	return false
}

func (r *rewriter) rewriteStmt1(st ast.Stmt) []ast.Stmt {
	switch s := st.(type) {
	case *ast.BlockStmt:
		s.List = r.rewriteStmtList(s.List)
		return []ast.Stmt{s}
	case *ast.LabeledStmt:
		switch s.Stmt.(type) {
		case *ast.SelectStmt, *ast.RangeStmt, *ast.GoStmt, *ast.SendStmt:
			if _, isRange := s.Stmt.(*ast.RangeStmt); isRange {
				rs := s.Stmt.(*ast.RangeStmt)
				if !isMap(r.info.TypeOf(rs.X)) && !isChan(r.info.TypeOf(rs.X)) {
					break
				}
			}
			r.errorf(s.Pos(), "labelled select/range/go/send statements are not modelled")
			return []ast.Stmt{s}
		}
		inner := r.rewriteStmt(s.Stmt)
		if len(inner) != 1 {
			r.errorf(s.Pos(), "cannot insert a seam before a labelled statement")
			return []ast.Stmt{s}
		}
		s.Stmt = inner[0]
		return []ast.Stmt{s}
	case *ast.GoStmt:
		if len(recvIn(s.Call)) > 0 {
			r.errorf(s.Pos(), "receive in go statement is not modelled")
		}
		for i := range s.Call.Args {
			s.Call.Args[i] = r.expr(s.Call.Args[i])
		}
		// go f(args) -> simrt.Go(site, func() { f(args) }) with arguments bound first
		var pre []ast.Stmt
		call := s.Call
		for i, a := range call.Args {
			if _, isLit := a.(*ast.BasicLit); isLit {
				continue
			}
			tv := r.tmp("a")
			pre = append(pre, &ast.AssignStmt{Lhs: []ast.Expr{tv}, Tok: token.DEFINE, Rhs: []ast.Expr{a}})
			call.Args[i] = tv
		}
		if fl, isLit := call.Fun.(*ast.FuncLit); isLit {
			fl.Body.List = r.rewriteStmtList(fl.Body.List)
		} else if !simpleExpr(call.Fun) {
			r.errorf(s.Pos(), "go statement with a complex function expression is not modelled")
		} else if id, isId := call.Fun.(*ast.Ident); isId && isBuiltinIdent(r.info, id) {
			r.errorf(s.Pos(), "go statement calling a builtin is not modelled")
		} else if _, _, isQual := r.qualified(call.Fun); !isQual {
			// The function value - with it the receiver of a method call - is evaluated by the go statement, not by
			// the new goroutine: `go w.run()` in a loop must not see a later w. A method value does exactly that.
			call.Fun = r.expr(call.Fun)
			fv := r.tmp("f")
			pre = append([]ast.Stmt{&ast.AssignStmt{Lhs: []ast.Expr{fv}, Tok: token.DEFINE, Rhs: []ast.Expr{call.Fun}}}, pre...)
			call.Fun = fv
		}
		goCall := r.call("Go", r.newSite(s.Pos(), "go", false),
			&ast.FuncLit{Type: &ast.FuncType{Params: &ast.FieldList{}}, Body: &ast.BlockStmt{List: []ast.Stmt{&ast.ExprStmt{X: call}}}})
		if len(pre) == 0 {
			return []ast.Stmt{&ast.ExprStmt{X: goCall}}
		}
		return []ast.Stmt{&ast.BlockStmt{List: append(pre, &ast.ExprStmt{X: goCall})}}
	case *ast.SendStmt:
		s.Chan = r.expr(s.Chan)
		s.Value = r.expr(s.Value)
		if !simpleExpr(s.Chan) {
			r.errorf(s.Pos(), "send on a channel expression with possible side effects is not modelled")
		}
		pre := r.recvWaitFor(s.Value)
		// Go evaluates channel and value once, before the communication: bind both, then wait, then send
		tc := r.tmp("c")
		pre = append(pre, &ast.AssignStmt{Lhs: []ast.Expr{tc}, Tok: token.DEFINE, Rhs: []ast.Expr{s.Chan}})
		if tv, known := r.info.Types[s.Value]; !(known && (tv.Value != nil || tv.IsNil())) {
			vv := r.tmp("v")
			pre = append(pre, &ast.AssignStmt{Lhs: []ast.Expr{vv}, Tok: token.DEFINE, Rhs: []ast.Expr{s.Value}})
			s.Value = vv
		}
		wait := &ast.ExprStmt{X: r.call("SendWait", r.newSite(s.Pos(), "send", false), tc)}
		s.Chan = tc
		return append(append(pre, wait), s)
	case *ast.SelectStmt:
		return []ast.Stmt{r.rewriteSelect(s)}
	case *ast.RangeStmt:
		t := r.info.TypeOf(s.X)
		if isChan(t) {
			return []ast.Stmt{r.rewriteChanRange(s)}
		}
		if len(recvIn(s.X)) > 0 {
			r.errorf(s.Pos(), "receive in range expression is not modelled")
		}
		s.X = r.expr(s.X)
		s.Body.List = r.rewriteStmtList(s.Body.List)
		if isMap(t) {
			return []ast.Stmt{r.rewriteMapRange(s)}
		}
		return []ast.Stmt{s}
	case *ast.ExprStmt:
		// close(ch)
		if call, ok := s.X.(*ast.CallExpr); ok {
			if id, ok := call.Fun.(*ast.Ident); ok && id.Name == "close" && len(call.Args) == 1 {
				if _, isBuiltin := r.info.Uses[id].(*types.Builtin); isBuiltin {
					r.exprs(call.Args[0])
					if !simpleExpr(call.Args[0]) {
						r.errorf(s.Pos(), "close of a channel expression with possible side effects is not modelled")
					}
					tc := r.tmp("c")
					bind := &ast.AssignStmt{Lhs: []ast.Expr{tc}, Tok: token.DEFINE, Rhs: []ast.Expr{call.Args[0]}}
					pre := &ast.ExprStmt{X: r.call("PreClose", r.newSite(s.Pos(), "close", false), tc)}
					call.Args[0] = tc
					return []ast.Stmt{bind, pre, s}
				}
			}
		}
		pre := r.recvWaitFor(s.X)
		s.X = r.expr(s.X)
		return append(pre, s)
	case *ast.AssignStmt:
		var pre []ast.Stmt
		for _, e := range s.Rhs {
			pre = append(pre, r.recvWaitFor(e)...)
		}
		for i := range s.Rhs {
			s.Rhs[i] = r.expr(s.Rhs[i])
		}
		for i := range s.Lhs {
			s.Lhs[i] = r.expr(s.Lhs[i])
		}
		return append(pre, s)
	case *ast.DeclStmt:
		pre := r.recvWaitFor(s.Decl)
		r.exprs(s.Decl)
		return append(pre, s)
	case *ast.ReturnStmt:
		var pre []ast.Stmt
		for _, e := range s.Results {
			pre = append(pre, r.recvWaitFor(e)...)
		}
		for i := range s.Results {
			s.Results[i] = r.expr(s.Results[i])
		}
		return append(pre, s)
	case *ast.IfStmt:
		var pre []ast.Stmt
		if s.Init != nil {
			init := r.rewriteStmt(s.Init)
			s.Init = init[len(init)-1]
			pre = append(pre, init[:len(init)-1]...)
		}
		pre = append(pre, r.recvWaitFor(s.Cond)...)
		s.Cond = r.expr(s.Cond)
		s.Body.List = r.rewriteStmtList(s.Body.List)
		if s.Else != nil {
			el := r.rewriteStmt(s.Else)
			if len(el) != 1 {
				// else-if with a seam before it: wrap into a block
				s.Else = &ast.BlockStmt{List: el}
			} else {
				s.Else = el[0]
			}
		}
		return append(pre, s)
	case *ast.ForStmt:
		if s.Init != nil {
			if len(recvIn(s.Init)) > 0 {
				r.errorf(s.Pos(), "receive in for-initialiser is not modelled")
			}
			r.exprs(s.Init)
		}
		if s.Cond != nil {
			if len(recvIn(s.Cond)) > 0 {
				r.errorf(s.Pos(), "receive in for-condition is not modelled")
			}
			s.Cond = r.expr(s.Cond)
		}
		if s.Post != nil {
			if len(recvIn(s.Post)) > 0 {
				r.errorf(s.Pos(), "receive in for-post is not modelled")
			}
			r.exprs(s.Post)
		}
		s.Body.List = r.rewriteStmtList(s.Body.List)
		return []ast.Stmt{s}
	case *ast.SwitchStmt:
		var pre []ast.Stmt
		if s.Init != nil {
			pre = append(pre, r.recvWaitFor(s.Init)...)
			r.exprs(s.Init)
		}
		if s.Tag != nil {
			pre = append(pre, r.recvWaitFor(s.Tag)...)
			s.Tag = r.expr(s.Tag)
		}
		for _, c := range s.Body.List {
			cc := c.(*ast.CaseClause)
			for i, e := range cc.List {
				if len(recvIn(e)) > 0 {
					r.errorf(e.Pos(), "receive in case expression is not modelled")
				}
				cc.List[i] = r.expr(e)
			}
			cc.Body = r.rewriteStmtList(cc.Body)
		}
		return append(pre, s)
	case *ast.TypeSwitchStmt:
		var pre []ast.Stmt
		if s.Init != nil {
			pre = append(pre, r.recvWaitFor(s.Init)...)
			r.exprs(s.Init)
		}
		pre = append(pre, r.recvWaitFor(s.Assign)...)
		r.exprs(s.Assign)
		for _, c := range s.Body.List {
			cc := c.(*ast.CaseClause)
			cc.Body = r.rewriteStmtList(cc.Body)
		}
		return append(pre, s)
	case *ast.DeferStmt:
		if len(recvIn(s.Call)) > 0 {
			r.errorf(s.Pos(), "receive in defer statement is not modelled")
		}
		if id, ok := s.Call.Fun.(*ast.Ident); ok && id.Name == "close" && len(s.Call.Args) == 1 && isBuiltinIdent(r.info, id) {
			// defer close(ch): the channel is evaluated now, the close - with its scheduling point - runs at exit
			r.exprs(s.Call.Args[0])
			if !simpleExpr(s.Call.Args[0]) {
				r.errorf(s.Pos(), "close of a channel expression with possible side effects is not modelled")
			}
			tc := r.tmp("c")
			bind := &ast.AssignStmt{Lhs: []ast.Expr{tc}, Tok: token.DEFINE, Rhs: []ast.Expr{s.Call.Args[0]}}
			body := []ast.Stmt{
				&ast.ExprStmt{X: r.call("PreClose", r.newSite(s.Pos(), "close", false), tc)},
				&ast.ExprStmt{X: &ast.CallExpr{Fun: ast.NewIdent("close"), Args: []ast.Expr{tc}}},
			}
			s.Call = &ast.CallExpr{Fun: &ast.FuncLit{Type: &ast.FuncType{Params: &ast.FieldList{}}, Body: &ast.BlockStmt{List: body}}}
			return []ast.Stmt{bind, s}
		}
		if r.isAtomicMethodCall(s.Call) {
			sel := s.Call.Fun.(*ast.SelectorExpr)
			if !simpleExpr(sel.X) {
				r.errorf(s.Pos(), "deferred sync/atomic method call on a complex receiver expression is not modelled")
				return []ast.Stmt{s}
			}
			var pre []ast.Stmt
			rv := r.tmp("r")
			var recv ast.Expr = &ast.UnaryExpr{Op: token.AND, X: sel.X}
			if _, isPtr := r.info.TypeOf(sel.X).Underlying().(*types.Pointer); isPtr {
				recv = sel.X
			}
			pre = append(pre, &ast.AssignStmt{Lhs: []ast.Expr{rv}, Tok: token.DEFINE, Rhs: []ast.Expr{recv}})
			var args []ast.Expr
			for _, a := range s.Call.Args {
				a = r.expr(a)
				if tv, known := r.info.Types[a]; known && (tv.Value != nil || tv.IsNil()) {
					args = append(args, a)
					continue
				}
				av := r.tmp("a")
				pre = append(pre, &ast.AssignStmt{Lhs: []ast.Expr{av}, Tok: token.DEFINE, Rhs: []ast.Expr{a}})
				args = append(args, av)
			}
			body := []ast.Stmt{
				&ast.ExprStmt{X: r.call("AtomicPoint", r.newSite(s.Pos(), "atomic-method", false))},
				&ast.ExprStmt{X: &ast.CallExpr{Fun: &ast.SelectorExpr{X: rv, Sel: ast.NewIdent(sel.Sel.Name)}, Args: args}},
			}
			s.Call = &ast.CallExpr{Fun: &ast.FuncLit{Type: &ast.FuncType{Params: &ast.FieldList{}}, Body: &ast.BlockStmt{List: body}}}
			return append(pre, s)
		}
		ne, isCall := r.expr(s.Call).(*ast.CallExpr)
		if !isCall {
			r.errorf(s.Pos(), "deferred call was rewritten into something that is not a call")
			return []ast.Stmt{s}
		}
		s.Call = ne
		return []ast.Stmt{s}
	case *ast.IncDecStmt:
		s.X = r.expr(s.X)
		return []ast.Stmt{s}
	case *ast.CaseClause, *ast.CommClause:
		r.errorf(s.Pos(), "unexpected clause")
		return []ast.Stmt{s}
	default:
		return []ast.Stmt{s}
	}
}

// exprs rewrites expressions below n in place (for nodes whose own slot need not change).
func (r *rewriter) exprs(n ast.Node) {
	if n == nil {
		return
	}
	astutil.Apply(n, func(c *astutil.Cursor) bool {
		if e, ok := c.Node().(ast.Expr); ok {
			if ne := r.exprTop(e); ne != e {
				c.Replace(ne)
				return false
			}
		}
		if fl, ok := c.Node().(*ast.FuncLit); ok {
			saved := r.curFunc
			r.curFunc += ".func"
			fl.Body.List = r.rewriteStmtList(fl.Body.List)
			r.curFunc = saved
			return false
		}
		return true
	}, nil)
}

// expr rewrites an expression and returns its replacement.
func (r *rewriter) expr(e ast.Expr) ast.Expr {
	if e == nil {
		return nil
	}
	if ne := r.exprTop(e); ne != e {
		return ne
	}
	r.exprs(e)
	return e
}

// exprTop handles the expression forms that are replaced as a whole.
func (r *rewriter) exprTop(e ast.Expr) ast.Expr {
	switch x := e.(type) {
	case *ast.CallExpr:
		if fn, ptr, cold, ok := r.mutexMethod(x); ok {
			r.exprs(ptr)
			args := []ast.Expr{r.newSite(x.Pos(), fn, cold), ptr}
			if fn == "OnceDo" || fn == "WGAdd" {
				for i := range x.Args {
					x.Args[i] = r.expr(x.Args[i])
				}
				args = append(args, x.Args...)
			}
			return r.call(fn, args...)
		}
		if sel, isSel := x.Fun.(*ast.SelectorExpr); isSel && len(x.Args) == 0 {
			switch sel.Sel.Name {
			case "Lock", "Unlock", "RLock", "RUnlock":
				if s := r.info.Selections[sel]; s != nil && s.Kind() == types.MethodVal {
					if m, isFunc := s.Obj().(*types.Func); isFunc && (m.Pkg() == nil || m.Pkg().Path() != "sync") {
						if _, isIface := s.Recv().Underlying().(*types.Interface); isIface {
							// the dynamic value may be a sync mutex, which would then be used behind the simulator's back
							r.errorf(x.Pos(), "%s through an interface that is not sync.Locker is not modelled", sel.Sel.Name)
						}
					}
				}
			}
		}
		if pkg, name, ok := r.qualified(x.Fun); ok && pkg == "sync/atomic" {
			for i := range x.Args {
				x.Args[i] = r.expr(x.Args[i])
			}
			switch name {
			case "AddUint32", "AddUint64", "AddInt32", "AddInt64", "LoadUint32", "LoadUint64", "LoadInt32", "LoadInt64",
				"StoreUint32", "StoreUint64", "StoreInt32", "StoreInt64", "CompareAndSwapUint32", "CompareAndSwapUint64",
				"CompareAndSwapInt32", "CompareAndSwapInt64", "SwapUint32", "SwapUint64":
				args := append([]ast.Expr{r.newSite(x.Pos(), "atomic."+name, false)}, x.Args...)
				return r.call("Atomic"+name, args...)
			default:
				r.errorf(x.Pos(), "sync/atomic.%s is not modelled", name)
			}
		}
	case *ast.SelectorExpr:
		if pkg, name, ok := r.qualified(x); ok {
			key := pkg + "." + name
			if to, ok := qualifiedMap[key]; ok {
				return r.sim(to)
			}
			if forbidden[key] || (pkg == "sync/atomic" && !atomicTypes[name]) || (pkg == "math/rand") {
				r.errorf(x.Pos(), "%s is not modelled by the simulator", key)
			}
		}
		if sel := r.info.Selections[x]; sel != nil {
			if m, ok := sel.Obj().(*types.Func); ok && m.Pkg() != nil && m.Pkg().Path() == "sync" && !isPoolMethod(m) {
				r.errorf(x.Pos(), "use of %s.%s that is not a direct call is not modelled", m.Pkg().Path(), m.Name())
			}
		}
	case *ast.UnaryExpr:
		// receives are handled at statement level (a RecvWait is inserted before the statement)
	}
	return e
}

func (r *rewriter) rewriteSelect(s *ast.SelectStmt) ast.Stmt {
	var pre []ast.Stmt
	var chans []ast.Expr
	sw := &ast.SwitchStmt{Body: &ast.BlockStmt{}}
	hasDefault := false
	idx := 0
	for _, c := range s.Body.List {
		cc := c.(*ast.CommClause)
		body := r.rewriteStmtList(cc.Body)
		if cc.Comm == nil {
			hasDefault = true
			sw.Body.List = append(sw.Body.List, &ast.CaseClause{List: nil, Body: body})
			continue
		}
		var recv *ast.UnaryExpr
		switch cm := cc.Comm.(type) {
		case *ast.ExprStmt:
			if u, ok := cm.X.(*ast.UnaryExpr); ok && u.Op == token.ARROW {
				recv = u
			}
		case *ast.AssignStmt:
			if len(cm.Rhs) == 1 {
				if u, ok := cm.Rhs[0].(*ast.UnaryExpr); ok && u.Op == token.ARROW {
					recv = u
				}
			}
		}
		if send, isSend := cc.Comm.(*ast.SendStmt); isSend {
			// send case: channel and value are evaluated once on entering the select, as Go does
			tc := r.tmp("c")
			send.Chan = r.expr(send.Chan)
			send.Value = r.expr(send.Value)
			pre = append(pre, &ast.AssignStmt{Lhs: []ast.Expr{tc}, Tok: token.DEFINE, Rhs: []ast.Expr{send.Chan}})
			send.Chan = tc
			if tv, known := r.info.Types[send.Value]; !(known && (tv.Value != nil || tv.IsNil())) {
				vv := r.tmp("v")
				pre = append(pre, &ast.AssignStmt{Lhs: []ast.Expr{vv}, Tok: token.DEFINE, Rhs: []ast.Expr{send.Value}})
				send.Value = vv
			}
			chans = append(chans, &ast.CompositeLit{Type: r.sim("SendCase"), Elts: []ast.Expr{&ast.KeyValueExpr{Key: ast.NewIdent("Ch"), Value: tc}}})
			sw.Body.List = append(sw.Body.List, &ast.CaseClause{
				List: []ast.Expr{&ast.BasicLit{Kind: token.INT, Value: fmt.Sprint(idx)}},
				Body: append([]ast.Stmt{send}, body...),
			})
			idx++
			continue
		}
		if recv == nil {
			r.errorf(cc.Pos(), "select case that is neither a receive nor a send is not modelled")
			continue
		}
		tv := r.tmp("c")
		r.exprs(recv.X)
		pre = append(pre, &ast.AssignStmt{Lhs: []ast.Expr{tv}, Tok: token.DEFINE, Rhs: []ast.Expr{recv.X}})
		recv.X = tv
		chans = append(chans, tv)
		sw.Body.List = append(sw.Body.List, &ast.CaseClause{
			List: []ast.Expr{&ast.BasicLit{Kind: token.INT, Value: fmt.Sprint(idx)}},
			Body: append([]ast.Stmt{cc.Comm}, body...),
		})
		idx++
	}
	hd := "false"
	if hasDefault {
		hd = "true"
	}
	args := append([]ast.Expr{r.newSite(s.Pos(), "select", false), ast.NewIdent(hd)}, chans...)
	sw.Tag = r.call("Select", args...)
	if !hasDefault {
		sw.Body.List = append(sw.Body.List, &ast.CaseClause{List: nil, Body: []ast.Stmt{
			&ast.ExprStmt{X: &ast.CallExpr{Fun: ast.NewIdent("panic"), Args: []ast.Expr{&ast.BasicLit{Kind: token.STRING, Value: `"simrt: select fired no case"`}}}},
		}})
	}
	return &ast.BlockStmt{List: append(pre, sw)}
}

// rewriteChanRange: for k := range ch { body }  =>  { _c := ch; for { simrt.RecvWait(site, _c); k, _ok := <-_c; if !_ok { break }; body } }
func (r *rewriter) rewriteChanRange(s *ast.RangeStmt) ast.Stmt {
	if len(recvIn(s.X)) > 0 {
		r.errorf(s.Pos(), "receive in range expression is not modelled")
	}
	s.X = r.expr(s.X)
	s.Body.List = r.rewriteStmtList(s.Body.List)
	tc := r.tmp("c")
	okv := r.tmp("ok")
	bind := &ast.AssignStmt{Lhs: []ast.Expr{tc}, Tok: token.DEFINE, Rhs: []ast.Expr{s.X}}
	wait := &ast.ExprStmt{X: r.call("RecvWait", r.newSite(s.Pos(), "recv", false), tc)}
	recv := &ast.UnaryExpr{Op: token.ARROW, X: tc}
	var get []ast.Stmt
	key := s.Key
	if key == nil {
		key = ast.NewIdent("_")
	}
	if s.Tok == token.ASSIGN && s.Key != nil {
		get = append(get,
			&ast.DeclStmt{Decl: &ast.GenDecl{Tok: token.VAR, Specs: []ast.Spec{&ast.ValueSpec{Names: []*ast.Ident{okv}, Type: ast.NewIdent("bool")}}}},
			&ast.AssignStmt{Lhs: []ast.Expr{key, okv}, Tok: token.ASSIGN, Rhs: []ast.Expr{recv}})
	} else {
		get = append(get, &ast.AssignStmt{Lhs: []ast.Expr{key, okv}, Tok: token.DEFINE, Rhs: []ast.Expr{recv}})
	}
	stop := &ast.IfStmt{Cond: &ast.UnaryExpr{Op: token.NOT, X: okv}, Body: &ast.BlockStmt{List: []ast.Stmt{&ast.BranchStmt{Tok: token.BREAK}}}}
	body := append([]ast.Stmt{wait}, get...)
	body = append(body, stop)
	body = append(body, s.Body.List...)
	loop := &ast.ForStmt{Body: &ast.BlockStmt{List: body}}
	return &ast.BlockStmt{List: []ast.Stmt{bind, loop}}
}

func (r *rewriter) rewriteMapRange(s *ast.RangeStmt) ast.Stmt {
	if s.Tok == token.ASSIGN {
		r.errorf(s.Pos(), "range over map with '=' is not modelled")
		return s
	}
	mv := r.tmp("m")
	pre := &ast.AssignStmt{Lhs: []ast.Expr{mv}, Tok: token.DEFINE, Rhs: []ast.Expr{s.X}}
	keyIdent := func(e ast.Expr) *ast.Ident {
		if e == nil {
			return nil
		}
		id, ok := e.(*ast.Ident)
		if !ok {
			r.errorf(s.Pos(), "range over map with non-identifier key/value is not modelled")
			return nil
		}
		if id.Name == "_" {
			return nil
		}
		return id
	}
	k := keyIdent(s.Key)
	v := keyIdent(s.Value)
	kv := k
	if kv == nil {
		kv = r.tmp("k")
	}
	okv := r.tmp("ok")
	valName := ast.NewIdent("_")
	if v != nil {
		valName = v
	}
	inner := []ast.Stmt{
		&ast.AssignStmt{Lhs: []ast.Expr{valName, okv}, Tok: token.DEFINE, Rhs: []ast.Expr{&ast.IndexExpr{X: mv, Index: kv}}},
		&ast.IfStmt{Cond: &ast.UnaryExpr{Op: token.NOT, X: okv}, Body: &ast.BlockStmt{List: []ast.Stmt{&ast.BranchStmt{Tok: token.CONTINUE}}}},
		s.Body,
	}
	loop := &ast.RangeStmt{
		Key:   ast.NewIdent("_"),
		Value: kv,
		Tok:   token.DEFINE,
		X:     r.call("MapKeys", r.newSite(s.Pos(), "maprange", false), mv),
		Body:  &ast.BlockStmt{List: inner},
	}
	return &ast.BlockStmt{List: []ast.Stmt{pre, loop}}
}

// verify is the net under the rewriter: after a file has been rewritten nothing of the families the simulator
// must control may be left in its raw form - whatever position it stood in. Channel operations the rewriter
// produced work on its own temporaries (_simc...), every other raw one was missed.
func (r *rewriter) verify(f *ast.File) {
	isTmp := func(e ast.Expr) bool {
		id, ok := e.(*ast.Ident)
		return ok && strings.HasPrefix(id.Name, "_simc")
	}
	astutil.Apply(f, func(c *astutil.Cursor) bool {
		switch x := c.Node().(type) {
		case *ast.GoStmt:
			r.errorf(x.Pos(), "go statement left in place")
		case *ast.SelectStmt:
			r.errorf(x.Pos(), "select statement left in place")
		case *ast.SendStmt:
			if !isTmp(x.Chan) {
				r.errorf(x.Pos(), "channel send in a position the rewriter does not model")
			}
		case *ast.UnaryExpr:
			if x.Op == token.ARROW && !isTmp(x.X) {
				r.errorf(x.Pos(), "channel receive in a position the rewriter does not model")
			}
		case *ast.RangeStmt:
			if isChan(r.info.TypeOf(x.X)) {
				r.errorf(x.Pos(), "range over a channel left in place")
			}
		case *ast.CallExpr:
			if id, ok := x.Fun.(*ast.Ident); ok && id.Name == "close" && len(x.Args) == 1 {
				if obj, known := r.info.Uses[id]; !known || isBuiltinObj(obj) {
					if !isTmp(x.Args[0]) {
						r.errorf(x.Pos(), "close of a channel in a position the rewriter does not model")
					}
				}
			}
		case *ast.SelectorExpr:
			if sel := r.info.Selections[x]; sel != nil {
				if m, ok := sel.Obj().(*types.Func); ok && m.Pkg() != nil {
					switch m.Pkg().Path() {
					case "sync":
						if !isPoolMethod(m) {
							r.errorf(x.Pos(), "use of sync method %s in a position the rewriter does not model", m.Name())
						}
					case "sync/atomic":
						call, isCall := c.Parent().(*ast.CallExpr)
						if !isCall || call.Fun != ast.Expr(x) || !r.atomicSeen[call] {
							r.errorf(x.Pos(), "use of sync/atomic method %s without a scheduling point of its own (a method value, or a call in a case list, type switch, select case or similar position)", m.Name())
						}
					}
				}
			}
			if pkg, name, ok := r.qualified(x); ok {
				key := pkg + "." + name
				_, mapped := qualifiedMap[key]
				if mapped || forbidden[key] || (pkg == "sync/atomic" && !atomicTypes[name]) || pkg == "math/rand" {
					r.errorf(x.Pos(), "%s in a position the rewriter does not model", key)
				}
			}
		}
		return true
	}, nil)
}

func isBuiltinObj(o types.Object) bool {
	_, ok := o.(*types.Builtin)
	return ok
}

func (r *rewriter) file(f *ast.File) {
	r.curFile = f
	r.usedSim = false
	for _, is := range f.Imports {
		if is.Name != nil && is.Name.Name == "." {
			r.errorf(is.Pos(), "dot import (names of the imported package cannot be told apart from local ones)")
		}
	}
	// Comments inside function bodies are dropped: synthesised nodes have no
	// positions and the printer would scatter them.
	var keep []*ast.CommentGroup
	for _, cg := range f.Comments {
		inside := false
		for _, d := range f.Decls {
			if fd, ok := d.(*ast.FuncDecl); ok && fd.Body != nil && cg.Pos() > fd.Body.Lbrace && cg.End() < fd.Body.Rbrace {
				inside = true
				break
			}
		}
		if !inside {
			keep = append(keep, cg)
		}
	}
	f.Comments = keep
	for _, d := range f.Decls {
		switch dd := d.(type) {
		case *ast.FuncDecl:
			r.curFunc = dd.Name.Name
			if dd.Recv != nil && len(dd.Recv.List) > 0 {
				r.curFunc = "(" + types.ExprString(dd.Recv.List[0].Type) + ")." + dd.Name.Name
			}
			if dd.Body != nil {
				dd.Body.List = r.rewriteStmtList(dd.Body.List)
			}
			// types in signatures (sync.Pool)
			r.exprs(dd.Type)
		case *ast.GenDecl:
			r.curFunc = "<package>"
			r.exprs(dd)
		}
	}
}

// usesName reports whether the file has a selector expression whose base is the identifier name.
func usesName(f *ast.File, name string) bool {
	used := false
	ast.Inspect(f, func(n ast.Node) bool {
		if sel, ok := n.(*ast.SelectorExpr); ok {
			if id, ok := sel.X.(*ast.Ident); ok && id.Name == name && id.Obj == nil {
				used = true
			}
		}
		return !used
	})
	return used
}

func main() {
	dir := flag.String("dir", ".", "module root of the scratch copy")
	simrtPath := flag.String("simrt", "github.com/SAP/go-dblib/zz_verif/simrt", "import path of simrt")
	sitesOut := flag.String("sites", "sites.json", "site table output")
	coldList := flag.String("cold", "", "comma separated type names (pkg.Type) whose own mutex is a cold site")
	module := flag.String("module", "github.com/SAP/go-dblib", "module path: its packages imported by the rewritten ones are scanned")
	flag.Parse()

	root, _ := filepath.Abs(*dir)
	cfg := &packages.Config{
		Mode: packages.NeedName | packages.NeedFiles | packages.NeedCompiledGoFiles | packages.NeedSyntax | packages.NeedTypes | packages.NeedTypesInfo | packages.NeedImports | packages.NeedDeps,
		Dir:  root,
		Env:  append(os.Environ(), "GOFLAGS=-mod=mod", "GOPROXY=off", "GOSUMDB=off"),
	}
	pkgs, err := packages.Load(cfg, flag.Args()...)
	if err != nil {
		fmt.Fprintf(os.Stderr, "simrewrite: load: %v\n", err)
		os.Exit(2)
	}
	bad := false
	for _, p := range pkgs {
		for _, e := range p.Errors {
			fmt.Fprintf(os.Stderr, "simrewrite: %s: %v\n", p.PkgPath, e)
			bad = true
		}
	}
	if bad {
		os.Exit(2)
	}
	cold := map[string]bool{}
	for _, c := range strings.Split(*coldList, ",") {
		if c != "" {
			cold[c] = true
		}
	}
	sort.Slice(pkgs, func(i, j int) bool { return pkgs[i].PkgPath < pkgs[j].PkgPath })
	var all []site
	var errs []string
	for _, p := range pkgs {
		r := &rewriter{fset: p.Fset, pkg: p, info: p.TypesInfo, root: root, cold: cold, simrtPkg: *simrtPath, atomicSeen: map[*ast.CallExpr]bool{}}
		r.sites = all
		for i, f := range p.Syntax {
			name := p.CompiledGoFiles[i]
			if strings.HasSuffix(name, "_test.go") {
				continue
			}
			r.file(f)
			r.verify(f)
			if !r.usedSim {
				continue
			}
			astutil.AddImport(p.Fset, f, *simrtPath)
			// drop imports that became unused
			type imp struct{ name, path string }
			var drop []imp
			for _, is := range f.Imports {
				path := strings.Trim(is.Path.Value, `"`)
				if path == *simrtPath || path == "C" {
					continue
				}
				local := ""
				if is.Name != nil {
					if is.Name.Name == "_" || is.Name.Name == "." {
						continue
					}
					local = is.Name.Name
				}
				name := local
				if name == "" {
					if ip := p.Imports[path]; ip != nil {
						name = ip.Name
					} else {
						name = filepath.Base(path)
					}
				}
				if !usesName(f, name) {
					drop = append(drop, imp{local, path})
				}
			}
			for _, d := range drop {
				if d.name != "" {
					astutil.DeleteNamedImport(p.Fset, f, d.name, d.path)
				} else {
					astutil.DeleteImport(p.Fset, f, d.path)
				}
			}
			var buf bytes.Buffer
			if err := format.Node(&buf, p.Fset, f); err != nil {
				errs = append(errs, fmt.Sprintf("%s: print: %v", name, err))
				continue
			}
			if err := os.WriteFile(name, buf.Bytes(), 0o644); err != nil {
				errs = append(errs, fmt.Sprintf("%s: write: %v", name, err))
			}
		}
		all = r.sites
		errs = append(errs, r.errs...)
	}
	// Packages of the module that the rewritten ones import but that are not rewritten themselves (value codecs,
	// DSN parsing): they must be free of everything the simulator has to control - a goroutine, lock, channel or
	// clock read in one of them would run behind its back. They are put through the same rewriter without writing
	// anything: a single site or complaint is an error.
	rewritten := map[string]bool{}
	for _, p := range pkgs {
		rewritten[p.PkgPath] = true
	}
	seen := map[string]bool{}
	var deps []*packages.Package
	var walk func(p *packages.Package)
	walk = func(p *packages.Package) {
		if seen[p.PkgPath] {
			return
		}
		seen[p.PkgPath] = true
		if !rewritten[p.PkgPath] && (p.PkgPath == *module || strings.HasPrefix(p.PkgPath, *module+"/")) && !strings.HasPrefix(p.PkgPath, *module+"/zz_verif") {
			deps = append(deps, p)
		}
		var keys []string
		for k := range p.Imports {
			keys = append(keys, k)
		}
		sort.Strings(keys)
		for _, k := range keys {
			walk(p.Imports[k])
		}
	}
	for _, p := range pkgs {
		walk(p)
	}
	scanned := 0
	for _, p := range deps {
		if len(p.Syntax) == 0 || p.TypesInfo == nil {
			errs = append(errs, fmt.Sprintf("%s: imported by the rewritten packages, but its source could not be loaded for scanning", p.PkgPath))
			continue
		}
		scanned++
		r := &rewriter{fset: p.Fset, pkg: p, info: p.TypesInfo, root: root, cold: cold, simrtPkg: *simrtPath, atomicSeen: map[*ast.CallExpr]bool{}}
		for i, f := range p.Syntax {
			if i < len(p.CompiledGoFiles) && strings.HasSuffix(p.CompiledGoFiles[i], "_test.go") {
				continue
			}
			r.file(f)
			r.verify(f)
		}
		for _, st := range r.sites {
			if st.Op == "maprange" {
				// iteration order only: it cannot hide a schedule, and if it reached an outcome the determinism
				// self-test would show it
				continue
			}
			errs = append(errs, fmt.Sprintf("%s: %s in package %s, which is not rewritten", st.Pos, st.Op, p.PkgPath))
		}
		errs = append(errs, r.errs...)
	}
	if len(errs) > 0 {
		for _, e := range errs {
			fmt.Fprintf(os.Stderr, "simrewrite: unsupported: %s\n", e)
		}
		os.Exit(2)
	}
	js, _ := json.MarshalIndent(all, "", " ")
	if err := os.WriteFile(*sitesOut, js, 0o644); err != nil {
		fmt.Fprintf(os.Stderr, "simrewrite: %v\n", err)
		os.Exit(2)
	}
	fmt.Printf("simrewrite: %d sites in %d packages, %d imported packages of the module scanned\n", len(all), len(pkgs), scanned)
}
