package x

import "sync/atomic"

type S struct{ last atomic.Int64 }

func (s *S) F(l int64) bool {
	if l != 0 && l == s.last.Load() {
		return true
	}
	return false
}
