package x

import (
	"fmt"
	"sync/atomic"
)

type S struct{ a, b atomic.Int64 }

func (s *S) F() error {
	s.a.Store(int64(len("x")))
	s.a.CompareAndSwap(1, s.b.Load())
	if int(s.a.Load()) > 3 {
		return fmt.Errorf("too big: %d", s.b.Load())
	}
	return nil
}
