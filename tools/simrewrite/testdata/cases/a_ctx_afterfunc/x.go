package x

import "context"

func F(ctx context.Context, g func()) func() bool {
	return context.AfterFunc(ctx, g)
}
