package x

import "sync/atomic"

type S struct{ flag atomic.Bool }

func (s *S) F() {
	s.flag.Store(true)
	defer s.flag.Store(false)
}
