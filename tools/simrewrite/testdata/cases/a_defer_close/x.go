package x

type S struct{ done chan struct{} }

func (s *S) F() {
	defer close(s.done)
}
