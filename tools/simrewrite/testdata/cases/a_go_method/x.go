package x

type W struct {
	id  int
	out chan int
}

func (w *W) run() { w.out <- w.id }

func F(ws []*W) {
	for _, w := range ws {
		go w.run()
	}
}
