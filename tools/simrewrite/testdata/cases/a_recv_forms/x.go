package x

type S struct{ ch chan int }

func (s *S) F() (int, bool) {
	<-s.ch
	v := <-s.ch
	var w = <-s.ch
	if x, ok := <-s.ch; ok {
		return x + v + w, true
	}
	for y := range s.ch {
		_ = y
	}
	s.ch <- <-s.ch
	return <-s.ch, false
}
