package x

import "sync/atomic"

type S struct{ n atomic.Int64 }

func g() int64      { return 1 }
func h(a, b int64)  {}
func (s *S) F()     { h(g(), s.n.Load()) }
