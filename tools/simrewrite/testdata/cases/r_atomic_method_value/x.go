package x

import "sync/atomic"

type S struct{ cnt atomic.Int64 }

func (s *S) F() int64 {
	load := s.cnt.Load
	return load()
}
