package x

type S struct{ ch chan int }

func side() int { return 1 }
func h(int)     {}

func (s *S) F() { h(side() + <-s.ch) }
