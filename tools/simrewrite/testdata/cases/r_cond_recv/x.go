package x

type S struct{ ch chan int }

func (s *S) F(a bool) bool { return a && <-s.ch > 0 }
