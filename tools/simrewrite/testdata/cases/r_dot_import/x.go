package x

import . "time"

func F() Time { return Now() }
