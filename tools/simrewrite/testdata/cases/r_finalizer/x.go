package x

import "runtime"

type S struct{}

func F(s *S) { runtime.SetFinalizer(s, func(*S) {}) }
