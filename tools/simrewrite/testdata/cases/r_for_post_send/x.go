package x

type S struct{ ch chan int }

func (s *S) F() {
	for i := 0; i < 3; s.ch <- i {
		i++
	}
}
