package x

func F(ch chan int) { go close(ch) }
