package x

import "sync"

type S struct{ mu sync.Mutex }

func (s *S) F() { go s.mu.Unlock() }
