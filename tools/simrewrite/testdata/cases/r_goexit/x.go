package x

import "runtime"

func F() { runtime.Goexit() }
