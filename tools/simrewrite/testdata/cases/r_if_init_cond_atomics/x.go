package x

import "sync/atomic"

type S struct{ a, b atomic.Int64 }

func (s *S) F() bool {
	if v := s.a.Load(); s.b.Load() > v {
		return true
	}
	return false
}
