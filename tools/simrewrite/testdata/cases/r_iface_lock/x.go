package x

import "sync"

type locker interface {
	Lock()
	Unlock()
}

type S struct {
	mu sync.Mutex
	l  locker
}

func (s *S) F() {
	s.l = &s.mu
	s.l.Lock()
	s.l.Unlock()
}
