package x

type S struct{ ch chan int }

func (s *S) F(m map[int]int) {
	m[<-s.ch] = 1
}
