package x

import (
	"context"
	"net"
)

func F(ctx context.Context) (net.Conn, error) {
	var d net.Dialer
	return d.DialContext(ctx, "tcp", "x:1")
}
