package x

type S struct{ cc chan chan int }

func (s *S) F() int {
	select {
	case v := <-<-s.cc:
		return v
	}
}
