package x

import "sync/atomic"

type S struct {
	cnt atomic.Int64
	ch  chan int
}

func (s *S) F() {
	select {
	case s.ch <- int(s.cnt.Load()):
	default:
	}
}
