package x

type S struct{ ch, in chan int }

func (s *S) F() {
	select {
	case s.ch <- <-s.in:
	default:
	}
}
