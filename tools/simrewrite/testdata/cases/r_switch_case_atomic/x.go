package x

import "sync/atomic"

type S struct{ flag atomic.Bool }

func (s *S) F() int {
	switch {
	case s.flag.Load():
		return 1
	}
	return 0
}
