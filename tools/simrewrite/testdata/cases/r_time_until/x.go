package x

import "time"

func F(d time.Time) time.Duration { return time.Until(d) }
