package x

import "sync/atomic"

type S struct{ a, b atomic.Bool }

func (s *S) F() bool {
	if s.a.Load() && s.b.Load() {
		return true
	}
	return false
}
