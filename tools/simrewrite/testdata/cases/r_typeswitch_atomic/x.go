package x

import "sync/atomic"

type S struct{ val atomic.Value }

func (s *S) F() int {
	switch v := s.val.Load().(type) {
	case int:
		return v
	}
	return 0
}
