import sys,json,collections
c=collections.Counter(); first={}
for l in sys.stdin:
    if not l.startswith('{'):
        print(l.rstrip()[:200]); continue
    j=json.loads(l)
    if j['t']=='s': continue
    if j['t']=='summary':
        print({k:j.get(k) for k in ['evaluations','probes','faults','steps','budget','violations','wall_s']}); print('nontrivial',len(j['nontrivial']))
    elif j['t']=='violation':
        k=(j['class'],j['sig']); c[k]+=1; first.setdefault(k,j)
    else: print(json.dumps(j)[:400])
n=int(sys.argv[1]) if len(sys.argv)>1 else 300
for k,v in c.most_common():
    print(v,k, '| run',first[k]['i'],'|',first[k]['detail'][:n].replace('\n',' / '))
