import sys,json
for l in sys.stdin:
    if not l.startswith('{'): 
        print(l.rstrip()[:300]); continue
    j=json.loads(l)
    if j['t']=='s': continue
    if j['t']=='summary':
        print({k:j.get(k) for k in ['evaluations','probes','faults','steps','budget','violations','wall_s']}); print('nontrivial',len(j['nontrivial']))
    else: print(json.dumps(j)[:int(sys.argv[1]) if len(sys.argv)>1 else 700])
